#!/bin/sh
# usage: tools/sweep.sh <tier> <seed> [<seed> ...]   - every check on the unchanged tree under other seeds (false-alarm hunt)
tier=$1; shift
make -s setup >/dev/null 2>&1
for s in "$@"; do
  for p in C01 C02 C03 C04 C05 C06 C07 C08 C09 C10 C11 C12 C13 C14 C15 C16 C17 C18 C19 C20; do
    VERIF_SEED=$s ./check $p --tier $tier > sweep_${tier}_${s}_$p.log 2>&1
    echo "seed=$s $p rc=$? $(tail -1 sweep_${tier}_${s}_$p.log | cut -c1-160)"
  done
done
