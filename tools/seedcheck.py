#!/usr/bin/env python3
"""Confirm a seeded change produced by a sub-agent and run our checks against it.

usage: tools/seedcheck.py <PID> [--checks C01,C11] [--tier quick] [--skip-suite] [--name <dir name under seeded/>]
Steps (all in the agent's scratch worktree /tmp/wt/<PID>; nothing touches /repo):
  1. take `git diff` -> seeded/<name>/patch.diff, copy demo + notes
  2. demo fails with the change, passes without it
  3. the repository's test-suite: every BASELINE stable_pass test still passes with the change
  4. our check(s) for the property report VIOLATION with VERIF_REPO=<worktree>
Writes seeded/<name>/meta.json.
"""
import argparse
import json
import os
import re
import shutil
import subprocess
import sys
import time
import xml.etree.ElementTree as ET
from pathlib import Path

V = Path(__file__).resolve().parent.parent


def sh(cmd, cwd=None, env=None, timeout=3600):
    p = subprocess.run(cmd, shell=True, cwd=cwd, env=env, capture_output=True, text=True, timeout=timeout)
    return p.returncode, p.stdout + p.stderr


def main():
    ap = argparse.ArgumentParser()
    ap.add_argument('pid')
    ap.add_argument('--wt', default=None)
    ap.add_argument('--checks', default=None)
    ap.add_argument('--tier', default='quick')
    ap.add_argument('--skip-suite', action='store_true')
    ap.add_argument('--name', default=None)
    a = ap.parse_args()
    pid = a.pid
    wt = Path(a.wt or f'/tmp/wt/{pid}')
    name = a.name or pid
    d = V / 'seeded' / name
    d.mkdir(parents=True, exist_ok=True)
    env = dict(os.environ, PYTHONPATH=f'{wt}/src', PYTHONHASHSEED='0')
    env.pop('GEOPHIRES_X_VERIF', None)
    meta = {'property': pid, 'worktree_base': subprocess.run(['git', '-C', str(wt), 'rev-parse', 'HEAD'], capture_output=True, text=True).stdout.strip()}
    patch = d / 'patch.diff'
    if (wt / '.git').exists():
        rc, out = sh('git diff', cwd=wt)
        if out.strip():
            patch.write_text(out)
    if not patch.exists() or not patch.read_text().strip():
        print('no diff'); return 2
    for f in list(wt.glob(f'demo_{pid}*')) + list(wt.glob(f'NOTES_{pid}*')):
        shutil.copy(f, d / f.name)
    demo = f'demo_{pid}.py'
    # 2. demo with change
    rc_with, out_with = sh(f'/venv/bin/python {demo}', cwd=wt, env=env, timeout=1800)
    sh(f'git apply -R {patch}', cwd=wt)
    rc_without, out_without = sh(f'/venv/bin/python {demo}', cwd=wt, env=env, timeout=1800)
    sh(f'git apply {patch}', cwd=wt)
    meta['demo'] = {'cmd': f'cd <worktree> && PYTHONPATH=<worktree>/src /venv/bin/python {demo}', 'rc_with_change': rc_with,
                    'rc_without_change': rc_without, 'tail_with_change': out_with[-600:], 'tail_without_change': out_without[-300:]}
    print(f'[{name}] demo: with change rc={rc_with}, without rc={rc_without}')
    # 3. suite
    if not a.skip_suite:
        base = json.load(open('/root/.vp/BASELINE.json'))
        junit = f'/tmp/wt/junit_{name}.xml'
        t0 = time.time()
        rc, out = sh(f'/venv/bin/python -m pytest -ra -q -p no:cacheprovider --timeout=900 --continue-on-collection-errors --junitxml={junit}', cwd=wt, env=env, timeout=3000)
        passed = set()
        for tc in ET.parse(junit).getroot().iter('testcase'):
            if not list(tc):
                passed.add(f"{tc.get('classname')}::{tc.get('name')}")
        missing = [t for t in base['stable_pass'] if t not in passed]
        meta['suite'] = {'cmd': base['cmd'].replace('cd /repo', 'cd <worktree>'), 'stable_pass_expected': len(base['stable_pass']),
                         'stable_pass_still_passing': len(base['stable_pass']) - len(missing), 'newly_failing': missing,
                         'wall_s': round(time.time() - t0)}
        print(f'[{name}] suite: {len(missing)} baseline tests no longer pass {missing[:3]}')
        for junk in ('-p', '-q'):
            try:
                (wt / junk).unlink()
            except OSError:
                pass
    # 4. our checks
    checks = (a.checks or pid).split(',')
    meta['checks'] = {}
    for c in checks:
        e2 = dict(os.environ, VERIF_REPO=str(wt))
        t0 = time.time()
        rc, out = sh(f'./check {c} --tier {a.tier}', cwd=V, env=e2, timeout=7200)
        viol = [ln for ln in out.splitlines() if ln.startswith('VIOLATION')]
        meta['checks'][c] = {'cmd': f'VERIF_REPO=<tree with patch applied> ./check {c} --tier {a.tier}', 'rc': rc,
                             'violation_lines': len(viol), 'first': [v[:400] for v in viol[:3]], 'wall_s': round(time.time() - t0),
                             'tail': out[-400:] if rc not in (0, 1) else ''}
        print(f'[{name}] check {c}: rc={rc} violations={len(viol)}')
        # evidence files were rewritten against the mutant: restore by re-running on /repo is the caller's job
    meta['detected'] = any(v['rc'] == 1 for v in meta['checks'].values())
    mp = d / 'meta.json'
    old = json.loads(mp.read_text()) if mp.exists() else {}
    old.update(meta)
    mp.write_text(json.dumps(old, indent=1) + '\n')
    return 0


if __name__ == '__main__':
    sys.exit(main())
