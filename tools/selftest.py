#!/usr/bin/env python3
"""Binding self-test: every kept seeded change must be caught, and its replay file must reproduce the verdict.

usage: tools/selftest.py [<seeded dir name> ...]        (default: every directory under seeded/)
For each seeded/<name>/patch.diff:
  1. a scratch worktree of /repo's HEAD is created under $VERIF_SCRATCH (default /tmp/verif_selftest), the patch applied
     (`git apply`, falling back to --3way); a patch that no longer applies is reported as STALE, not as a failure;
  2. `VERIF_REPO=<scratch> ./check <PID> --tier quick` must exit 1 (a VIOLATION line);
  3. the first replay file it wrote, re-executed against the scratch tree, must exit 1 again, and re-executed against
     /repo must exit 0 (the replay really re-runs the code; it does not just print the file);
  4. the worktree is removed.
Writes seeded/selftest.json.  Exit 0 when every applicable change was caught and every replay discriminated.
"""
import json
import os
import re
import shutil
import subprocess
import sys
from pathlib import Path

V = Path(__file__).resolve().parent.parent
SCRATCH = Path(os.environ.get('VERIF_SCRATCH', '/tmp/verif_selftest'))


def sh(cmd, cwd=None, env=None, timeout=7200):
    p = subprocess.run(cmd, shell=True, cwd=cwd, env=env, capture_output=True, text=True, timeout=timeout)
    return p.returncode, p.stdout + p.stderr


def one(name: str) -> dict:
    d = V / 'seeded' / name
    meta = json.loads((d / 'meta.json').read_text())
    pid = meta['property']
    if meta.get('neutralised'):
        return {'name': name, 'property': pid, 'status': 'STALE (neutralised: ' + meta['neutralised'][:80] + ')'}
    checks = list(meta.get('checks', {pid: None}).keys()) or [pid]
    wt = SCRATCH / name
    out = {'name': name, 'property': pid}
    sh(f'git -C /repo worktree remove --force {wt}')
    shutil.rmtree(wt, ignore_errors=True)
    SCRATCH.mkdir(parents=True, exist_ok=True)
    rc, o = sh(f'git -C /repo worktree add -q --detach {wt} HEAD')
    if rc != 0:
        out['status'] = 'machinery: ' + o[-200:]
        return out
    try:
        rc, o = sh(f'git apply {d / "patch.diff"}', cwd=wt)
        if rc != 0:
            rc, o = sh(f'git apply --3way {d / "patch.diff"}', cwd=wt)
        if rc != 0:
            out['status'] = 'STALE (patch no longer applies to HEAD)'
            return out
        env = dict(os.environ, VERIF_REPO=str(wt))
        caught = None
        for c in checks:
            rc, o = sh(f'./check {c} --tier quick', cwd=V, env=env)
            viol = [ln for ln in o.splitlines() if ln.startswith('VIOLATION')]
            out.setdefault('checks', {})[c] = {'rc': rc, 'violations': len(viol)}
            if rc not in (0, 1):
                out['checks'][c]['tail'] = o[-600:]
            if rc == 1 and viol and caught is None:
                caught = (c, viol[0])
        if caught is None:
            out['status'] = 'MISSED'
            return out
        c, line = caught
        if os.environ.get('VERIF_SELFTEST_NOREPLAY'):
            out['status'] = 'caught'
            out['replay'] = {'skipped': True, 'clause': line.split('#', 1)[-1].strip()[:160]}
            return out
        m = re.search(r'replay=(\S+)', line)
        rp = m.group(1)
        keep = SCRATCH / f'{name}.replay.json'
        shutil.copy(rp, keep)
        rc_m, o_m = sh(f'./check {c} --replay {keep}', cwd=V, env=env)
        rc_r, o_r = sh(f'./check {c} --replay {keep}', cwd=V, env=dict(os.environ, VERIF_REPO='/repo'))
        out['replay'] = {'on_change': rc_m, 'on_repo': rc_r, 'clause': line.split('#', 1)[-1].strip()[:160]}
        if rc_m == 2 or rc_r == 2:
            out['replay']['tail'] = (o_m if rc_m == 2 else o_r)[-400:]
        out['status'] = 'caught' + ('' if (rc_m, rc_r) == (1, 0) else ' (replay does not discriminate)')
        keep.unlink()
        return out
    finally:
        sh(f'git -C /repo worktree remove --force {wt}')
        shutil.rmtree(wt, ignore_errors=True)
        sh('git -C /repo worktree prune')


def main():
    names = sys.argv[1:] or sorted(p.name for p in (V / 'seeded').iterdir() if (p / 'patch.diff').exists())
    res = []
    for n in names:
        r = one(n)
        print(json.dumps(r))
        res.append(r)
    f = V / 'seeded' / 'selftest.json'
    old = {r['name']: r for r in json.loads(f.read_text())} if f.exists() else {}
    for r in res:
        old[r['name']] = r
    f.write_text(json.dumps(sorted(old.values(), key=lambda r: r['name']), indent=1) + '\n')
    bad = [r for r in res if r['status'] not in ('caught',) and not r['status'].startswith('STALE')]
    return 1 if bad else 0


if __name__ == '__main__':
    sys.exit(main())
