#!/bin/sh
# usage: tools/rebase_wt.sh C05 C06 ...   (re-bases scratch mutant worktrees /tmp/wt/<PID> onto /repo's current HEAD)
for p in "$@"; do
  cd /tmp/wt/$p || continue
  git diff > /tmp/wt/$p.rebase.patch
  git checkout -q -- . ; git checkout -q --detach main 2>/dev/null
  if git apply /tmp/wt/$p.rebase.patch 2>/dev/null; then echo "$p ok $(git rev-parse --short HEAD)"; else echo "$p CONFLICT"; fi
done
