#!/usr/bin/env python3
"""Regenerates MANIFEST.json from the table below (single source of truth for the interface)."""
import json
import subprocess
from pathlib import Path

V = Path(__file__).resolve().parent.parent
ALL = [f'C{n:02d}' for n in range(1, 21)]

CHECKS = {
    'C01': dict(
        cat='model_checking', ref='DESIGN.md section 5 C01',
        text='LevelizedDef.tla states the documented levelized-cost definition of the three economic models x six end-use branches; '
             'Levelized.tla explores it exhaustively over small constants (sanity invariants + the homogeneity/monotonicity lemmas '
             'C11/C18 rely on); every vector TLC dumps is replayed into the real CalculateLCOELCOHLCOC; economics snapshots of '
             'real runs over every (economic model, end-use branch) incl. add-on recomputation and SBT examples are validated by '
             'TraceLevelized.tla in exact rational arithmetic (check fails as machinery failure if any of the 18 model/branch '
             'combinations was not exercised by a real run). A seeded choice of the runs is repeated in one process followed by neighbours that restate one of its figures (sim.run_chains): each neighbour is judged against its own input.',
        note='Trusted: TLC, BigInteger rationals, float projection. Tolerance 1e-9 relative. CLGS/AGS (model 4) and SUTRA not covered. '
             'Continuous inputs sampled by seed.',
        tech='TLA+ spec (LevelizedDef/Levelized.tla) model-checked with TLC; TLC-generated vectors replayed into code; TLC trace validation'),
    'C02': dict(
        cat='model_checking', ref='DESIGN.md section 5 C02',
        text='Energy.tla (per-year slice/trapezoid machine and heat-content accumulation of SurfacePlant) is model-checked over every '
             'small (lifetime, steps per year, series) for tiling, additivity, constant-series and bound invariants; every vector TLC '
             'dumps is replayed into integrate_time_series_slice, annual_electricity_pumping_power and remaining_reservoir_heat_content; '
             'a snapshot taken right after the surface plant Calculate of every run (all 8 plant classes, all cogeneration variants, '
             '1..12 steps per year, district heating daily split) is validated step by step and year by year by TraceEnergy.tla in exact '
             'rational arithmetic. The flows are projected again at the end of Model.Calculate(): downstream economics modules (add-ons, S-DAC-GT) may add to the energy sold but must leave extracted, pumped and remaining heat as the plant left them (C02_reported_unchanged). Neighbour chains in one process as in C01. Beyond the property: Downstream.tla / TraceDownstream.tla (add-ons and S-DAC-GT between the surface plant and the revenue loop) are model-checked and validated on the same corpus; their fit_ds_* clauses are reported as model drift only.',
        note='Trusted: TLC, BigInteger rationals, float projection. The last-year (short slice / single-sample) convention is a model-fit clause '
             '(drift warning, not violation). Water properties and plant efficiency correlations are not recomputed. SUTRA/AGS not covered.',
        tech='TLA+ spec (Energy.tla) model-checked with TLC; TLC-generated vectors replayed into code; TLC trace validation (TraceEnergy.tla)'),
    'C03': dict(
        cat='model_checking', ref='DESIGN.md section 5 C03',
        text='CostRollup.tla models the CAPEX/OPEX assembly of Economics.Calculate as actions in code order and is model-checked over '
             'every override-flag subset x plant class x incentive switch (closed forms of CostRollupDef.tla as invariants); every '
             'configuration TLC visits is turned into a real input and run (quick: 260 sampled), Drilling.tla vectors are replayed '
             'into calculate_total_drilling_lengths_m, and the economics snapshot of every run (grid, all 17 well-cost correlations, '
             'examples incl. SBT) is validated stage by stage by TraceCostRollup.tla in exact rational arithmetic. End-use equipment costs the user writes (chiller, heat pump, district-heating network and its O&M), including 0 and figures equal to the declared default, are the figures used (C03_given_equipment). Neighbour chains in one process as in C01.',
        note='Trusted: TLC, BigInteger rationals, float projection. Component correlations themselves are not recomputed. SUTRA/CLGS not covered.',
        tech='TLA+ spec (CostRollup.tla) model-checked with TLC; TLC-enumerated configurations run through the code; TLC trace validation'),
    'C04': dict(
        cat='model_checking', ref='DESIGN.md section 5 C04',
        text='CashFlow.tla (cash-flow assembly loops and payback scan as a loop machine) is model-checked exhaustively over small series of every sign pattern incl. negative capital cost; the same small series are replayed into the real CalculateRevenue, calculate_npv and CalculateFinancialPerformance; economics snapshots of real runs (all end-uses, plants, economic models, add-ons, carbon, sign-pattern drivers, examples) are validated year by year by TraceCashFlow.tla in exact rational arithmetic (cf, cum, per-product revenue, NPV both conventions, IRR residual, VIR, MOIC, payback, N/A). Neighbour chains in one process as in C01 (construction years, lifetime and rates among the restated figures).',
        note='Trusted: TLC, BigInteger rationals, float projection. IRR by residual <= 1e-6 of sum of |terms|; other clauses 1e-9 of sum of |terms|. SUTRA family not covered. Continuous inputs sampled by seed.',
        tech='TLA+ spec (CashFlow.tla) model-checked with TLC; TLC trace validation (TraceCashFlow.tla) of recorded runs; small-series replay into code'),
    'C05': dict(
        cat='model_checking', ref='DESIGN.md section 5 C05',
        text='Resource.tla models the layer walk of Reservoir.Calculate (boundary temperatures with the sentinel, first boundary above Tmax, '
             'maxdepth cap, segment pick) and redrilling-by-tiling as loop machines and TLC checks them against the integral definition '
             '(ResourceDef.tla) over every ordering of depth, boundaries and Tmax crossing for 1..3/4 segments and all profiles x limits; TLC '
             'layouts are run through the real reader + Reservoir.Calculate; reservoir/well-bore snapshots of real runs (models 1-4, 1-4 '
             'segments, binding caps, limits down to 0.5 %) are validated by TraceResource.tla (bht, depth cap, tmax, start, limit, restart '
             'period; upper bound and monotone for models 3 and 4). Neighbour chains in one process as in C01.',
        note='Known finding: regime Trock <= Tinj (accepted input) breaks the upper/monotone clauses for models 3/4. The analytical drawdown '
             'solutions are not recomputed. Continuous inputs sampled by seed.',
        tech='TLA+ spec (Resource.tla) model-checked with TLC; TLC layouts replayed into code; TLC trace validation (TraceResource.tla)'),
    'C06': dict(
        cat='model_checking', ref='DESIGN.md section 5 C06',
        text='Units.tla holds the program\'s unit catalogue as exact (dimension, scale, offset) rationals from the SI/NIST definitions; '
             'UnitTrack.tla models (value, real unit, label unit) through ReadWithUnit / Use / ConvertBack / Echo and TLC checks every ordered '
             'pair of convertible catalogue units: computation is right in every case, the echo is right whenever the canonical-name lookup '
             'succeeds (the failing-lookup counterexample is required in the thorough tier). Against the code: (a) every float parameter of '
             '8 families x every other convertible catalogue unit through the real ReadParameter -> read_parameters -> pre-print unit pass '
             '(351 cases, complete); (b) seeded paired full runs compared on every computed figure; (c) every output parameter x convertible '
             'unit as a Units: directive on two bases (510; quick 160) - all validated by TraceUnits.tla with the exact factors. Parameters whose declared range reaches below zero are also written with a figure below zero in every listed unit.',
        note='241 known findings in known_findings_C06.json (generated by the calibration run, reviewed): raising unit classes, double-converted '
             'echoes, currency prefix/suffix handling, output directives that leak into other lines. Every case not listed still alarms.',
        tech='TLA+ unit-tracking spec (UnitTrack.tla, Units.tla) model-checked with TLC; exhaustive parameter x unit matrix run through the code and validated by TLC (TraceUnits.tla)'),
    'C07': dict(
        cat='model_checking', ref='DESIGN.md section 5 C07',
        text='ReadParam.tla (decision table of ReadParameter, order of tests as in the code) is model-checked over every small '
             '(kind, min, max, default, working value, input); the finite boundary matrix - every float/int parameter of 12 configuration '
             'families (standard, cogeneration, heat, heat pump, chiller, district heating, add-ons, S-DAC-GT, SBT, SUTRA, overpressure, '
             'HIP-RA-X) x {below min, min, max, above max, non-member, unit-suffixed above max} - is executed completely through the real '
             'Model()+read_parameters and every outcome validated by TraceReadParam.tla; a seeded subset goes end-to-end through the '
             'client (RuntimeError, no report). Names the readers accept for a parameter besides its declared one (found by an AST scan of the '
             'tree under test and a probe read) get the same case list.',
        note='Exhaustive over the declared scalar numeric/option parameters (finite). List parameters out of scope. Documented internal '
             'rescalings (depth, impedance x1000) are a table in the harness. Trusted: TLC, BigInteger rationals.',
        tech='TLA+ decision-table spec (ReadParam.tla) model-checked with TLC; exhaustive boundary matrix run through the code and validated by TLC (TraceReadParam.tla)'),
    'C08': dict(
        cat='model_checking', ref='DESIGN.md section 5 C08',
        text='Client.tla (cwd, argv, per-client cache, rewritable input files; request = cache hit | run ok | run fail, rewrite, chdir) is '
             'model-checked over every history of <= 5 operations (C08_restore, C08_fresh; the pinned design must violate them); histories '
             'TLC dumps are replayed through real caching and non-caching GeophiresXClient objects over 9 input families incl. failing '
             'requests and file rewrites, and the recorded histories validated by TraceClient.tla (restore, freshness against a stand-alone '
             'reference run, purity of the outcome); contamination sequences in one process and CLI sub-processes under 3 hash seeds x 2 '
             'start directories are validated by TraceHistory.tla (same input => same result). Pairs of parameters whose reading interferes (one writes the other, or both write a third: discovered through the real reader) are given conflicting values and run under 4-7 hash seeds. Failed runs are also produced at seeded crash points (a failure raised at a line of each module\'s Calculate that a recorded run executes), each followed by a reference input whose full-precision digest, cwd and argv must be unchanged. One-figure neighbours vary a figure of any module (reservoir, wellbore, surface plant, economics) on bases that include price schedules, tax credits and incentives.',
        note='Histories for replay are sampled by seed from the exhaustive TLC dump (quick 110, thorough 1600). Results compared as report '
             'text without date/time lines.',
        tech='TLA+ spec (Client.tla) model-checked with TLC; TLC-generated histories replayed into the real client; TLC trace validation'),
    'C09': dict(
        cat='model_checking', ref='DESIGN.md section 5 C09',
        text='Report.tla models the report writer as a state machine over every accepted configuration (end-use x plant type x add-ons / '
             'S-DAC-GT / overpressure x lifetime x construction years x time steps per year): TLC checks one row per simulated (and '
             'construction) year with consecutive year numbers, that no cell reads past its series (index stride), that the table ladders are '
             'total and the three profiles always present, and termination. ReportDef.tla is a hand transcription of what each of ~190 labels '
             'and each column of the ten profile-table layouts stands for. Real runs over all writer branches (4 reservoir models, 8 end-uses, '
             '8 plant types, 3 economic models, lifetimes 1..100, construction years 1..14, time steps 1..12, foreign input units, add-ons, '
             'S-DAC-GT, overpressure, examples) are snapshotted at the `calculated` hook and TraceReport.tla compares every labelled figure '
             'and every table cell of the .out file with the snapshot in exact rationals: value in the printed unit (exact unit factors of '
             'Units.tla) rounded to the printed precision, unit label, N/A rule, text fields, row counts, year order, heading units. One job in six requests another unit for price columns of the revenue table (Units: directives): figures and column heading must agree.',
        note='Lines the specification does not know (SUTRA/AGS-specific, Calculation Time) are counted as unexplained and not judged. '
             'Precision is read from the printed token, so a change of the number of decimals alone is not a violation.',
        tech='TLA+ spec of the report writer (Report.tla/ReportDef.tla) model-checked with TLC; TLC trace validation of real reports against the pre-print Model snapshot (TraceReport.tla)'),
    'C10': dict(
        cat='model_checking', ref='DESIGN.md section 5 C10',
        text='Parser.tla evaluates the result parser\'s field lookup on real strings: TLC checks the collision matrix of every client field '
             '(252) against every label seen in generated reports (no foreign label may match a field\'s pattern); synthetic one-field '
             'reports with adversarial figures go through the real GeophiresXResult; reports of real runs over all writer branches '
             '(lifetimes 2..99, up to 14 construction years, overflowing widths, carbon / add-on / S-DAC-GT blocks, examples) are parsed by the '
             'real client in sub-processes under three hash seeds and compared with an independent lexical tokenisation by TraceParser.tla: '
             'every field against the exact-label line of its own section, unambiguity of the lookup, every cell and the row count of every '
             'profile table, header arity, CSV export, JSON side file (rounded to the displayed precision), identical structure across seeds. Every result object is re-serialised after all reports of the process were parsed; JSON entries (scalars and series) are compared with the outputs as computed. The first reports of the corpus are rewritten in place with other figures of the same width and read again in the same process.',
        note='Independent tokeniser (harness/report.py) is part of the trusted base. Unit-less "Number..." fields carry the client\'s unit "count".',
        tech='TLA+ string-level parser spec (Parser.tla, collision matrix) checked with TLC; TLC trace validation of real reports vs the real client (TraceParser.tla)'),
    'C11': dict(
        cat='model_checking', ref='DESIGN.md section 5 C11',
        text='The scaling algebra is model-checked on Levelized.tla (Homogeneous: every levelized cost is degree-1 homogeneous in all cost terms; '
             'prices do not occur in the definition); run pairs and short ladders on seeded bases over all economic models and end-uses are '
             'executed for real and validated by TraceRelation.tla: all costs x k => LC x k, prices + delta => LC equal and NPV strictly in the '
             'same direction (energy sold positive), efficiency / 2 => LCOH x 2, null add-on / zero-rate tax credit / zero grant => every '
             'reported economic figure and the whole cash-flow series unchanged. Price pairs also run on bases that restate an end-use option next to a plant type of another kind. Price ladders also raise ONE sold product at a time over three rungs.',
        note='Homogeneity pairs make every cost an input (totals, well/stimulation, purchase rates, fees, grants). Relations to 1e-9 relative. '
             'Bases sampled by seed (quick 60).',
        tech='TLA+ lemmas model-checked with TLC (Levelized.tla); TLC validation of real run pairs (TraceRelation.tla)'),
    'C12': dict(
        cat='model_checking', ref='DESIGN.md section 5 C12',
        text='InputFile.tla models the tokeniser of read_input_file on real strings and is model-checked over every file of <= 3 lines from '
             'an alphabet of parameter and decoration lines (padding, trailing comments with commas, CRLF, comment prefixes), invariant '
             'dictionary = last-wins meaning; every file TLC dumps is replayed into the real read_input_file; for bases of every family, '
             'seeded layout variants (permutations, decorations, duplicates before the governing line, CRLF, client params-override path '
             'with/without final newline) are run for real and TraceHistory.tla checks one abstract parameter set => one result. Duplicate layouts include the governing line standing twice around a stale occurrence.',
        note='Permutations and decorations are sampled by seed (the tokeniser itself is checked exhaustively on the model). Results compared as '
             'report text without date/time lines. Add-on lines keep their relative order as the property allows.',
        tech='TLA+ tokeniser spec (InputFile.tla) model-checked with TLC; TLC-generated files replayed into code; TLC validation of run histories (TraceHistory.tla)'),
    'C13': dict(
        cat='model_checking', ref='DESIGN.md section 5 C13',
        text='MonteCarlo.tla models the pool driver (fork with inherited/reseeded RNG, task take, draw, simulate ok/fail, lock, append, '
             'release) and TLC explores every assignment and interleaving of 3 workers x 4 tasks with a failing task (C13_distinct, NoReplica, '
             'C13_rows, termination; the pinned no-reseed design must violate NoReplica); real MC runs of both codes with all five '
             'distributions and pool sizes 1..16, recorded through guarded worker hooks, are validated by TraceMC.tla: per-process event '
             'order, support, pairwise distinct continuous vectors, all iterations started, file rows = rows written = simulated-ok iterations. All three programs of the driver (GEOPHIRES, HIP-RA-X, legacy HIP-RA), distributions of extreme scale and width, result files named by a relative settings line. Studies are also started with the lock file of a writer that died holding it in the result directory, and after an earlier study on the same base file in the same driver process.',
        note='Schedules of the real runs are whatever the OS produces (7 runs quick); interleavings are exhaustive only on the model. Distinct '
             'stream positions are assumed to give distinct doubles. RNG fingerprints / lock overlap are fit_ observations.',
        tech='TLA+ concurrent spec (MonteCarlo.tla) model-checked with TLC incl. liveness; TLC trace validation of hooked real runs (TraceMC.tla)'),
    'C14': dict(
        cat='model_checking', ref='DESIGN.md section 5 C14',
        text='Same specification: MutualExclusion, whole rows, isolation of failing tasks over every interleaving (with lock timeouts the model '
             'shows a dropped row). Real MC runs incl. high-contention HIP-RA-X (120 ms-scale iterations on 16 workers) and 40 % failing '
             'iterations: every row is re-simulated from its recorded samples through the real simulator; TraceMC.tla checks column order, '
             'own-sample, replay token equality, rows whole and complete, and recomputes min/max/median/mean/std exactly (rationals) against '
             'the JSON summary and the text block. Sampled names that are prefixes of other base parameters; a file with rows must be summarised for every requested output (C14_stats_present). Studies are also run after an earlier study on the same base file (other content) in the same driver process, and with a dead writer\'s lock file in the result directory.',
        note='Row atomicity relies on single-write appends (observed, not proved; pylocker is third party). std compared via exact population variance.',
        tech='TLA+ concurrent spec (MonteCarlo.tla) model-checked with TLC; TLC trace validation with exact-rational statistics and row re-simulation'),
    'C15': dict(
        cat='model_checking', ref='DESIGN.md section 5 C15',
        text='Hydraulics.tla models ReservoirPressurePredictor / InjectionReservoirPressurePredictor as loop machines (clamp-and-break) and TLC '
             'checks start, monotone decline, floor at hydrostatic, stated rate and injection inflation over every small (L, n, overpressure, '
             'rate, inflation) incl. non-integer depletion periods and the zero-step crash; every vector is replayed into the real functions; '
             'well-bore snapshots of real runs (impedance / index, pumped / self-flowing, overpressure) are validated step by step by '
             'TraceHydraulics.tla (non-negative pump powers, total = production + injection, pressure clauses) together with friction ladders '
             'over 6 diameters from the real WellPressureDrop / InjectionWellPressureDrop. One run in three sweeps the well diameter in 1 % steps (231 rungs) for the friction clause; neighbour chains in one process as in C01.',
        note='The friction function stays in the code (TLC compares ladder values). Hydrostatic pressure recovered from the series start.',
        tech='TLA+ spec (Hydraulics.tla) model-checked with TLC; vectors replayed into code; TLC trace validation (TraceHydraulics.tla)'),
    'C16': dict(
        cat='model_checking', ref='DESIGN.md section 5 C16',
        text='Schedule.tla is model-checked exhaustively over small schedules (all lifetimes<=4/6, start years, durations, '
             'start>end prices, inflation settings) with the closed form of the property as invariants; every complete '
             'schedule TLC generates is replayed into the real BuildPTCModel/BuildPricingModel with exact equality; '
             'recorded full runs and ITC/grant/fee run pairs are validated by TraceSchedule.tla in exact rational arithmetic. The M2 grid gives every argument two non-degenerate values and is replayed in one process; one-figure neighbour chains of full runs in one process.',
        note='Trusted: TLC, BigInteger rationals (Rat.java), projection of floats by as_integer_ratio. Continuous inputs are '
             'sampled by seed; exhaustive only for the small integer domains of the cfg.',
        tech='TLA+ spec (Schedule.tla) model-checked with TLC; TLC-generated vectors replayed into code; TLC trace validation of recorded runs'),
    'C17': dict(
        cat='model_checking', ref='DESIGN.md section 5 C17',
        text='HipRa.tla states the volumetric cascade of HIP_RA_X.Calculate in statement order (water-property values as free constants) and '
             'TLC checks over small rationals that the volume fractions, stored = rock + fluid, available <= stored, producible <= available '
             'and exact proportionality of every extensive result to area and to thickness follow from it; the real HIP_RA_X is driven '
             'directly on seeded inputs over the declared ranges (provided vs derived depth / pressure / density / heat capacity), single-run '
             'clauses validated by TraceHipRa.tla, area and thickness ladders {0.1, 0.5, 2, 10} and unit variants by TraceRelation.tla. The two recoverable fractions are laddered down to the range end 0 and appear at their range ends in bases.',
        note='Water-property look-ups stay in the code. Relations to 1e-9 relative. Inputs sampled by seed (quick 150 bases, ~1500 runs).',
        tech='TLA+ spec (HipRa.tla) model-checked with TLC; TLC validation of real runs and run ladders (TraceHipRa.tla, TraceRelation.tla)'),
    'C18': dict(
        cat='model_checking', ref='DESIGN.md section 5 C18',
        text='Monotonicity lemmas are model-checked: Resource.tla (bottom-hole temperature monotone in depth and in every gradient for all small '
             'layouts), WellCost.tla (17 correlations non-decreasing on 500..7000 m, every grid point replayed into the real function), '
             'Levelized.tla (MonotoneInCost); ladders of real runs differing in one parameter are validated by TraceRelation.tla: bht/gradient, '
             'bht/depth (incl. multi-segment columns with binding caps), TDP drawdown at every time step, initial production temperature / '
             'flow, well cost / depth for each correlation, NPV and levelized costs / 31 cost inputs and adjustment factors (cogeneration with the plant-cost split given and left to the model). Small plants (one doublet at a low flow rate) with the O&M adjustment factors as ladders.',
        note='Known findings: gradient ladder crossing 1.0 (unit heuristic); drawdown ladder in the regime Trock <= Tinj. Ladders sampled by seed.',
        tech='TLA+ lemmas model-checked with TLC (Resource, WellCost, Levelized); TLC validation of real run ladders (TraceRelation.tla)'),
    'C19': dict(
        cat='model_checking', ref='DESIGN.md section 5 C19',
        text='Pipeline.tla models the class-selection ladder of Model.__init__ / read_parameters and the stage order; TLC enumerates all 12 000 '
             'configurations (reservoir model x Is AGS x economic model x plant type x end-use x add-ons x S-DAC-GT), each is confirmed on '
             'the real Model() + read_parameters (same classes, same failing combinations), yielding the reachable module classes; the '
             'generated schemas, the committed files and the live ParameterDicts are then validated by TraceSchema.tla: schema names = union '
             'of accepted names (offenders named), type/default/unit/bounds of identically defined parameters = live declarations (exact), '
             'committed = generated, every result-schema field extractable by the real client (synthetic one-field reports). Also HIP-RA-X. Schemas are generated cold and after simulations ran in the same process; the schema minimum / maximum written with the schema unit are read through the real reader and must be accepted and stored, the next doubles outside refused, and twice the maximum / half a positive minimum written in every other listed unit of the same quantity refused (C19_enforced).',
        note='Finite and complete in both tiers. Known findings: Maximum Drawdown maximum, two enum defaults serialised as empty strings.',
        tech='TLA+ spec (Pipeline.tla) model-checked with TLC and confirmed configuration by configuration on the code; TLC set/attribute validation (TraceSchema.tla)'),
    'C20': dict(
        cat='model_checking', ref='DESIGN.md section 5 C20',
        text='Entry.tla (4 entry points x 7 output-argument kinds (none, relative, absolute, extensionless under dotted directories, a name beginning with ~, a symbolic link) x 2 start directories x ok / fail-at-read / fail-at-calculate, OutPath '
             'resolution) is model-checked and its reachable matrix dumped; every cell is executed for real (python -m geophires_x '
             'sub-processes with the guard off, in-process client, the run embedded in a Monte Carlo work package, direct pipeline) and '
             'TraceEntry.tla checks same report, same JSON, files created exactly where OutPath says, non-zero exit / exception and no '
             'report on failure. In-process entry points are also run "warm" (after heterogeneous requests in the same process) on inputs that lean on defaults, and on inputs that spell out every in-range default. Entry.tla history value "rewritten": the client has served the same input file with other, succeeding, content before.',
        note='The matrix is exhaustive; concrete inputs are seeded (quick: 2 families + example1). MC-embedded runs compared through extracted tokens.',
        tech='TLA+ spec (Entry.tla) model-checked with TLC, matrix executed against the real entry points, TLC trace validation (TraceEntry.tla)'),
}

NOT_YET = 'check not built yet in this round (see DESIGN.md section 9 for the order of construction)'


def main():
    hook_commits = subprocess.run(['git', '-C', '/repo', 'log', '--format=%H', '--grep=verification call-outs', '--grep=verif', '-i'],
                                  capture_output=True, text=True).stdout.split()
    m = {
        'version': 1,
        'setup_cmd': 'make -C /verif setup',
        'hooks': {
            'guard': 'GEOPHIRES_X_VERIF',
            'enable': 'environment variable GEOPHIRES_X_VERIF=1 (set by the harness; pure Python, no rebuild); optional GEOPHIRES_X_VERIF_OBSERVER=<module> for sub-processes',
            'baseline_off_cmd': 'cd /repo && env -u GEOPHIRES_X_VERIF /venv/bin/python -m pytest -ra -q -p no:cacheprovider --timeout=900 --continue-on-collection-errors',
            'source_commits': hook_commits,
            'add_only': True,
        },
        'engines': [
            {'name': 'tlc', 'path': '/opt/veriftools/tla/tla2tools.jar', 'serves_properties': sorted(CHECKS),
             'kind_free_text': 'TLC 1.8 explicit-state model checker; Java module override spec/Rat.java for exact rationals'},
            {'name': 'harness', 'path': '/verif/harness', 'serves_properties': sorted(CHECKS),
             'kind_free_text': 'Python drivers: run the real code under hooks, project traces, replay TLC vectors, call TLC'},
        ],
        'checks': [],
        'not_applicable': [],
        'notes': 'All checks: ./check <id> --tier quick|thorough; exit 0 held, 1 VIOLATION, 2 machinery failure. '
                 'VERIF_REPO selects the tree (default /repo). Known findings: /verif/known_findings.json.',
    }
    for pid in ALL:
        c = CHECKS.get(pid)
        if not c:
            m['not_applicable'].append({'property_id': pid, 'reason': NOT_YET})
            continue
        m['checks'].append({
            'property_id': pid,
            'quick_cmd': f'./check {pid} --tier quick',
            'thorough_cmd': f'./check {pid} --tier thorough',
            'evidence_file': f'/verif/evidence/{pid}.json',
            'replay_cmd_template': f'./check {pid} --replay {{path}}',
            'engine': 'tlc',
            'level_claimed': {'category': c['cat'], 'text': c['text'], 'design_ref': c['ref']},
            'level_note': c['note'],
            'technique': c['tech'],
        })
    (V / 'MANIFEST.json').write_text(json.dumps(m, indent=1) + '\n')
    print('MANIFEST.json:', len(m['checks']), 'checks,', len(m['not_applicable']), 'not applicable')


if __name__ == '__main__':
    main()
