"""C03 — capital and O&M totals are the sum of their parts.

M1  CostRollup.tla: the assembly as actions in code order over every override-flag set x plant class x incentive
    switches (closed forms of CostRollupDef as invariants); Drilling.tla for drilled lengths.
M2  by configuration: every flag set TLC visits is turned into a real input (fixed figures supplied, the rest left to
    the correlations), run, and validated; drilled-length vectors replayed into the real function (exact).
M3  TraceCostRollup.tla on the economics snapshot of every run.
"""
from __future__ import annotations

import json
import random
from fractions import Fraction

from . import gen, sim, tlc
from .common import Guard, MachineryFailure, Result, bind_repo, rat, seed


def project(stage, model, ctx):
    if stage != 'economics_calculated':
        return
    fam = type(model.economics).__name__
    ctx['family'] = fam
    if fam in ('SUTRAEconomics', 'AGSEconomics', 'SBTEconomics'):      # own cost assembly (SBT: junction section, no indirect factor on the field)
        ctx['c03_unexplained'] = fam
        return
    try:
        ctx['c03'] = snapshot(model)
    except Exception as ex:  # noqa: BLE001
        ctx['c03_unexplained'] = f'{type(ex).__name__}: {ex}'


def snapshot(model) -> dict:
    from geophires_x.OptionList import PlantType

    e = model.economics
    w = model.wellbores
    sp = model.surfaceplant
    chiller = sp.plant_type.value == PlantType.ABSORPTION_CHILLER
    g = lambda p: rat(p.value)  # noqa: E731
    c = {
        'wellfixed': bool(e.per_production_well_cost.Valid), 'injgiven': bool(e.per_injection_well_cost.Provided),
        'stimfixed': bool(e.ccstimfixed.Valid), 'gathfixed': bool(e.ccgathfixed.Valid), 'plantfixed': bool(e.ccplantfixed.Valid),
        'explfixed': bool(e.ccexplfixed.Valid), 'totalcap': bool(e.totalcapcost.Valid), 'oamwellfixed': bool(e.oamwellfixed.Valid),
        'oamplantfixed': bool(e.oamplantfixed.Valid), 'oamwaterfixed': bool(e.oamwaterfixed.Valid), 'totaloam': bool(e.oamtotalfixed.Valid),
        'itcgiven': bool(e.RITC.Provided), 'chiller': bool(chiller),
        'in_well': g(e.per_production_well_cost), 'in_inj': g(e.per_injection_well_cost), 'in_stim': g(e.ccstimfixed),
        'in_gath': g(e.ccgathfixed), 'in_plant': g(e.ccplantfixed), 'in_expl': g(e.ccexplfixed), 'in_totalcap': g(e.totalcapcost),
        'in_oamwell': g(e.oamwellfixed), 'in_oamplant': g(e.oamplantfixed), 'in_oamwater': g(e.oamwaterfixed),
        'in_totaloam': g(e.oamtotalfixed), 'ritc': g(e.RITC), 'flat': g(e.FlatLicenseEtc), 'inc': g(e.OtherIncentives),
        'grant': g(e.TotalGrant), 'annualfee': g(e.AnnualLicenseEtc), 'relief': g(e.TaxRelief),
        'c1prod': g(e.cost_one_production_well), 'c1inj': g(e.cost_one_injection_well), 'nprod': int(w.nprod.value),
        'ninj': int(w.ninj.value), 'lateral': g(e.cost_lateral_section), 'cwell': g(e.Cwell), 'cstim': g(e.Cstim), 'cgath': g(e.Cgath),
        'cplant': g(e.Cplant), 'cexpl': g(e.Cexpl), 'cpiping': g(e.Cpiping), 'cdh': g(e.dhdistrictcost), 'ccap': g(e.CCap),
        'ritcvalue': g(e.RITCValue), 'coamwell': g(e.Coamwell), 'coamplant': g(e.Coamplant), 'coamwater': g(e.Coamwater),
        'chilleropex': g(e.chilleropex), 'cdhoam': g(e.dhdistrictoandmcost), 'coam': g(e.Coam),
        'redrill': int(w.redrill.value), 'L': int(sp.plant_lifetime.value),
    }
    # end-use equipment costs written in the input (the raw user text), and the figure the economics module ended up with
    equip = []
    pt = sp.plant_type.value
    # (a user-fixed total replaces the whole roll-up: its components are then not evaluated at all)
    for name, attr, plant, blocked in (('Absorption Chiller Capital Cost', 'chillercapex', PlantType.ABSORPTION_CHILLER, False),
                                       ('Absorption Chiller O&M Cost', 'chilleropex', PlantType.ABSORPTION_CHILLER, c['totaloam']),
                                       ('Heat Pump Capital Cost', 'heatpumpcapex', PlantType.HEAT_PUMP, False),
                                       ('Total District Heating Network Cost', 'dhdistrictcost', PlantType.DISTRICT_HEATING, c['totalcap']),
                                       ('District Heating O&M Cost', 'dhdistrictoandmcost', PlantType.DISTRICT_HEATING, c['totaloam'])):
        ip = model.InputParameters.get(name)
        if ip is None:
            continue
        try:
            given = float(str(ip.sValue).split()[0])
        except (ValueError, IndexError):
            continue
        if given < 0:
            continue        # the documented "not provided" sentinel
        equip.append({'name': name, 'given': rat(given), 'got': g(getattr(e, attr)), 'applies': bool(pt == plant and not blocked)})
    return {'c': c, 'equip': equip, 'family': type(e).__name__, 'plant': str(sp.plant_type.value.name), 'enduse': str(sp.enduse_option.value.name),
            'wellcorr': str(getattr(e.wellcorrelation.value, 'name', e.wellcorrelation.value))}


FLAG_PARAM = {
    'well': ('Well Drilling and Completion Capital Cost', (1, 15)),
    'inj': ('Injection Well Drilling and Completion Capital Cost', (1, 15)),
    'stim': ('Reservoir Stimulation Capital Cost', (0, 20)),
    'gath': ('Field Gathering System Capital Cost', (0, 10)),
    'plant': ('Surface Plant Capital Cost', (1, 100)),
    'expl': ('Exploration Capital Cost', (0, 20)),
    'totalcap': ('Total Capital Cost', (5, 300)),
    'oamwell': ('Wellfield O&M Cost', (0, 3)),
    'oamplant': ('Surface Plant O&M Cost', (0, 5)),
    'oamwater': ('Water Cost', (0, 1)),
    'totaloam': ('Total O&M Cost', (0.1, 10)),
}
DECLARED_DEFAULT = {'Total District Heating Network Cost': 10, 'District Heating O&M Cost': 1}
PLANT_CLASS = {'power': [(1, 1), (1, 2), (1, 3), (1, 4), (31, 1), (42, 2), (52, 4)], 'heat': [(2, 9)], 'chiller': [(2, 5)],
               'heatpump': [(2, 6)], 'dh': [(2, 7)]}


def config_jobs(configs: list, tier: str) -> list:
    """M2 by configuration: one real input per TLC-visited (flag set, plant class)."""
    rng = random.Random(seed() * 2654435761 + 3)
    rng.shuffle(configs)
    configs = configs[:260] if tier == 'quick' else configs[:4000]      # of 81 920 (plant class, flag set) combinations, drawn by the seed
    jobs = []
    for k, cf in enumerate(configs):
        flags = set(cf['flags'])
        eu, pt = rng.choice(PLANT_CLASS[cf['plant']])
        p = gen.base(rng, rng.choice([4, 4, 3]), eu, pt, rng.choice([1, 2, 3]))
        gen.add_prices(p, rng)
        for fl, (name, (lo, hi)) in FLAG_PARAM.items():
            if fl in flags:
                p[name] = gen.fmt(rng.uniform(lo, hi))
        if 'itc' in flags:
            p['Investment Tax Credit Rate'] = gen.fmt(rng.uniform(0.0, 0.5))
        if 'grant' in flags:
            p['One-time Grants Etc'] = gen.fmt(rng.uniform(0, 20))
            p['Other Incentives'] = gen.fmt(rng.uniform(0, 10))
        if 'fee' in flags:
            p['One-time Flat License Fees Etc'] = gen.fmt(rng.uniform(0, 5))
            p['Annual License Fees Etc'] = gen.fmt(rng.uniform(0, 1))
            p['Tax Relief Per Year'] = gen.fmt(rng.uniform(0, 1))
        for name in gen.ADJ_FACTORS:
            if rng.random() < 0.3:
                p[name] = gen.fmt(rng.uniform(0, 3))
        p['Well Drilling Cost Correlation'] = (k % 17) + 1
        for name, plants, hi in (('Absorption Chiller Capital Cost', (5,), 30), ('Absorption Chiller O&M Cost', (5,), 3), ('Heat Pump Capital Cost', (6,), 30),
                                 ('Total District Heating Network Cost', (7,), 50), ('District Heating O&M Cost', (7,), 5)):
            if pt in plants and rng.random() < 0.6:
                r_ = rng.random()      # zero is a cost, not the sentinel; a figure that happens to equal the declared default is a figure too
                p[name] = 0 if r_ < 0.3 else DECLARED_DEFAULT[name] if r_ < 0.55 and name in DECLARED_DEFAULT else gen.fmt(rng.uniform(0, hi))
        if rng.random() < 0.5:
            gen.add_redrill(p, rng)
        if rng.random() < 0.2:
            p['Surface Piping Length'] = gen.fmt(rng.uniform(0, 10))
        if rng.random() < 0.15:
            p['Number of Injection Wells'] = 0
        if rng.random() < 0.25 and 'well' not in flags:
            p['Number of Multilateral Sections'] = rng.choice([1, 2, 3])
            p['Nonvertical Length per Multilateral Section'] = gen.fmt(rng.uniform(100, 3000))
            p['Well Geometry Configuration'] = rng.choice([1, 2, 3, 4])
            p['Multilaterals Cased'] = rng.choice(['True', 'False'])
        jobs.append((f"cfg:{cf['plant']}:{'+'.join(sorted(flags)) or 'none'}#{k}", gen.to_text(p)))
    return jobs


def replay_drilling(res: Result, vectors: list):
    bind_repo()
    from geophires_x.OptionList import Configuration
    from geophires_x.WellBores import calculate_total_drilling_lengths_m

    bad = 0
    for v in vectors:
        f = lambda s_: float(Fraction(s_))  # noqa: E731
        got, ok = None, False
        with Guard():
            got = calculate_total_drilling_lengths_m(getattr(Configuration, v['cfg']), v['nsec'], f(v['len']), f(v['din']), f(v['dout']),
                                                     v['nprod'], v['ninj'])
            ok = Fraction(got[0]) == Fraction(v['tot']) and Fraction(got[1]) == Fraction(v['vert']) and Fraction(got[2]) == Fraction(v['lat'])
        res.count('m2_drilling_vectors')
        if not ok:
            bad += 1
            if bad <= 10:
                res.violation({'clause': 'C03_drilled_length_m2', 'vector': json.dumps(v, sort_keys=True)},
                              f'calculate_total_drilling_lengths_m differs from Drilling.tla on {v}', {'vector': v, 'got': list(got)})
    res.count('m2_drilling_mismatches', bad)


def validate(res: Result, out: list) -> dict:
    traces, meta = [], {}
    for k, o in enumerate(out):
        if o['status'] == 'machinery':
            raise MachineryFailure(o['error'] + '\n' + o.get('error_tb', ''))
        if o['status'] != 'ok':
            res.count('rejected_inputs')
            continue
        if 'c03' not in o:
            res.count('unexplained_family')
            continue
        t = dict(o['c03'])
        t['tid'] = k + 1
        traces.append(t)
        meta[t['tid']] = o
    verdicts, ds, gs = tlc.validate_traces('TraceCostRollup', 'TraceCostRollup.cfg', traces)
    res.states += ds
    res.transitions += gs
    res.traces += len(traces)
    counts = {}
    for t in traces:
        vd = verdicts[t['tid']]
        o = meta[t['tid']]
        res.case(o['tag'])
        counts['wellcorr:' + t['wellcorr']] = counts.get('wellcorr:' + t['wellcorr'], 0) + 1
        counts['plant:' + t['plant']] = counts.get('plant:' + t['plant'], 0) + 1
        for c in vd['e']:
            counts[c] = counts.get(c, 0) + 1
        for c in vd['f']:
            wit = [w for w in vd['w'] if w.get('clause') == c][:1]
            res.violation({'clause': c, 'input': o['tag']}, f'{c} fails on {o["tag"]}: {json.dumps(wit)[:300]}',
                          {'input_text': o['input'], 'verdict': vd, 'trace': t})
    res.cov['clauses_and_classes'] = counts
    if traces:
        t0 = traces[len(traces) // 2]
        res.sample({'m3_trace': t0, 'verdict': verdicts[t0['tid']]})
    return counts


def run(tier: str) -> int:
    res = Result('C03', tier)
    cfg = f'MC_CostRollup_{tier}.cfg'
    r = tlc.run_tlc('CostRollup', cfg, workers=16)
    tlc.check_mc(r, cfg, ['Read', 'WellFieldStep', 'Stimulation', 'Gathering', 'Plant', 'SumCapex', 'TotalCapexOverride', 'ApplyITC',
                          'ApplyFeesAndGrants', 'SumOam', 'TotalOamOverride', 'RedrillStep', 'AnnualFees'])
    if r['violated']:
        raise MachineryFailure(f'CostRollup.tla violates {r["violated"]}\n' + r['raw'][-2500:])
    res.add_mc(r, cfg)
    d = tlc.run_tlc('CostRollup', 'Dump_CostRollup.cfg', workers=1, coverage=False)
    tlc.check_mc(d, 'dump')
    seen, configs = set(), []
    for p in d['prints']:
        if isinstance(p, dict) and 'flags' in p:
            key = (p['plant'], tuple(sorted(p['flags'])))
            if key not in seen:
                seen.add(key)
                configs.append(p)
    res.add_mc(d, 'Dump_CostRollup.cfg (configuration matrix for M2)')
    res.cov['tlc_configurations'] = len(configs)
    dr = tlc.run_tlc('Drilling', 'MC_Drilling.cfg', workers=1, coverage=False)
    tlc.check_mc(dr, 'drilling')
    if dr['violated']:
        raise MachineryFailure('Drilling.tla violates ' + dr['violated'])
    res.add_mc(dr, 'MC_Drilling.cfg')
    replay_drilling(res, [p for p in dr['prints'] if isinstance(p, dict) and 'cfg' in p])
    jobs = config_jobs(configs, tier)
    res.cov['configurations_run'] = len(jobs)
    n = 80 if tier == 'quick' else 600
    jobs += [(t, x) for t, x, _ in gen.grid(seed() * 31 + 3, n)]
    for name, text in sim.example_inputs().items():
        if name.startswith(('Beckers', 'example6', 'example7', 'MC_', 'SUTRA')):
            continue
        if tier == 'quick' and name.startswith(('example_SBT',)):
            continue
        jobs.append((f'example:{name}', text))
    # each of a seeded choice of the jobs once more, followed in the same process by neighbours that restate ONE of its figures: a value
    # kept from one run for the next (a memo keyed by too few arguments, a mutated default) shows in the neighbour's own trace
    chains = sim.neighbour_chains(jobs, 10 if tier == 'quick' else 60, 3, seed() * 101 + 3, prefer=('Reservoir Depth', 'Number of Production Wells', 'Number of Injection Wells', 'Well Drilling and Completion Capital Cost Adjustment Factor', 'Surface Plant Capital Cost Adjustment Factor'))
    out = sim.run_many(jobs, 'harness.c03:project') + sim.run_chains(chains, 'harness.c03:project')
    counts = validate(res, out)
    for need in ('C03_wellfield', 'C03_capex_sum', 'C03_capex_override', 'C03_oam_sum', 'C03_oam_override', 'C03_itc',
                 'C03_fixed_well', 'C03_fixed_stim', 'C03_fixed_plant', 'C03_fixed_oamplant', 'plant:ABSORPTION_CHILLER',
                 'plant:HEAT_PUMP', 'plant:DISTRICT_HEATING'):
        if not counts.get(need):
            raise MachineryFailure(f'C03: {need} never exercised (vacuous run)')
    res.exhaustive = False
    res.cov['rule'] = ('M1: every flag subset x plant class of the cfg; M2: one real run per TLC configuration (quick: 260 sampled '
                       'by seed, thorough: all) + drilled-length vectors; M3: + seeded grid + examples; distinct = input tag')
    res.assumptions += ['SBT, AGS/CLGS and SUTRA economics assemble their costs in their own Calculate() and are counted as unexplained families, not judged',
                        'component correlations (logs, fractional powers) are not recomputed; only roll-up relations between '
                        'reported figures', 'tolerance 1e-9 x sum of |terms|', 'SUTRA / CLGS families not covered']
    return res.finish()


def replay(path: str) -> int:
    data = json.loads(open(path).read())
    res = Result('C03', 'quick')
    rp = data['replay']
    if 'input_text' in rp:
        validate(res, sim.run_many([('replay', rp['input_text'])], 'harness.c03:project'))
    return res.finish()
