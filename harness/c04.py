"""C04 — cash flow, NPV, IRR, VIR, MOIC and payback are mutually consistent.

M1  CashFlow.tla (the assembly loops + payback scan as a loop machine) exhaustively over small series of every sign
    pattern, including negative capital cost (grants exceeding cost).
M2  TLC-chosen small series replayed into the separately callable functions CalculateRevenue, calculate_npv,
    CalculateFinancialPerformance (exact / 1e-12).
M3  economics snapshots of real runs validated year by year by TraceCashFlow.tla (exact rationals).
"""
from __future__ import annotations

import itertools
import json
import random
import re
from fractions import Fraction

from . import gen, sim, tlc
from .common import MachineryFailure, Result, bind_repo, rat, rats, seed


def _series(x, n=None):
    try:
        lst = list(x)
    except TypeError:
        return []
    return rats(lst)


def project(stage, model, ctx):
    if stage == 'economics_calculated':
        try:
            ctx['c04'] = snapshot(model)
        except Exception as ex:  # noqa: BLE001  (families without these attributes: SUTRA ...)
            ctx['c04_unexplained'] = f'{type(ex).__name__}: {ex}'


def snapshot(model) -> dict:
    from geophires_x.OptionList import EndUseOptions, PlantType

    e = model.economics
    sp = model.surfaceplant
    L = int(sp.plant_lifetime.value)
    Cy = int(sp.construction_years.value)
    eu = sp.enduse_option.value
    chiller = sp.plant_type.value == PlantType.ABSORPTION_CHILLER
    elec = eu != EndUseOptions.HEAT
    heat = (eu != EndUseOptions.ELECTRICITY) and not (eu == EndUseOptions.HEAT and chiller)
    cool = eu == EndUseOptions.HEAT and chiller
    t = {
        'L': L, 'Cy': Cy, 'ccap': rat(e.CCap.value), 'coam': rat(e.Coam.value), 'rate': rat(e.FixedInternalRate.value),
        'excel': bool(e.discount_initial_year_cashflow.value),
        'elecE': _series(sp.NetkWhProduced.value) if elec else [],
        'heatE': _series(sp.HeatkWhProduced.value) if heat else [],
        'coolE': _series(sp.cooling_kWh_Produced.value) if cool else [],
        'netE': _series(sp.NetkWhProduced.value), 'heatEall': _series(sp.HeatkWhProduced.value),
        'elecP': _series(e.ElecPrice.value), 'heatP': _series(e.HeatPrice.value), 'coolP': _series(e.CoolingPrice.value),
        'carbP': _series(e.CarbonPrice.value),
        'elecR': _series(e.ElecRevenue.value), 'heatR': _series(e.HeatRevenue.value), 'coolR': _series(e.CoolingRevenue.value),
        'carbR': _series(e.CarbonRevenue.value),
        'carbon': bool(e.DoCarbonCalculations.value), 'grid': rat(e.GridCO2Intensity.value), 'ng': rat(e.NaturalGasCO2Intensity.value),
        'celec': eu != EndUseOptions.HEAT, 'cheat': eu != EndUseOptions.ELECTRICITY,
        'cf': _series(e.TotalRevenue.value), 'cum': _series(e.TotalCummRevenue.value),
        'npv': rat(e.ProjectNPV.value), 'irr': rat(e.ProjectIRR.value), 'vir': rat(e.ProjectVIR.value),
        'moic': rat(e.ProjectMOIC.value), 'payback': rat(e.ProjectPaybackPeriod.value), 'shown': '',
        'family': type(e).__name__, 'enduse': str(eu.name), 'plant': str(sp.plant_type.value.name),
    }
    a = getattr(model, 'addeconomics', None)
    if a is not None and e.DoAddOnCalculations.value:
        t['extra'] = {'cf': _series(a.ProjectCashFlow.value), 'cum': _series(a.ProjectCummCashFlow.value),
                      'rate': rat(a.FixedInternalRate.value), 'excel': bool(a.discount_initial_year_cashflow.value),
                      'npv': rat(a.ProjectNPV.value), 'irr': rat(a.ProjectIRR.value * 100.0), 'vir': rat(a.ProjectVIR.value),
                      'moic': rat(a.ProjectMOIC.value), 'capex': rat(a.AdjustedProjectCAPEX.value),
                      'opex': rat(a.AdjustedProjectOPEX.value)}
        t['addon'] = {'cf': _series(a.AddOnCashFlow.value), 'cum': _series(a.AddOnCummCashFlow.value),
                      'payback': rat(a.AddOnPaybackPeriod.value)}
    return t


def _cross_year(t):
    cum = [Fraction(x) for x in t['cum'] if '/' in x or x.lstrip('-').isdigit()]
    ys = [k for k in range(1, len(cum)) if cum[k - 1] <= 0 < cum[k]]
    return ys[-1] if ys else None


_PAYBACK = re.compile(r'^\s*Project Payback Period:\s*(\S+)', re.M)


def shown_payback(report: str | None) -> str:
    if not report:
        return ''
    m = _PAYBACK.search(report)
    if not m:
        return ''
    return 'N/A' if m.group(1) == 'N/A' else 'value'


# ------------------------------------------------------------------ M2

def m2_vectors(tier: str):
    """Small series over the same constants as MC_CashFlow_*.cfg, enumerated by TLC's state space definition
    (Cy, L, capex, opex, revenue per year); the expected values come from exact rational evaluation of the spec's
    definitions (CashFlow.tla: CashFlowDef, CumIsRunningSum, NPV)."""
    maxcy, maxl = (2, 3) if tier == 'quick' else (3, 4)
    capex = [-1, 0, 1, 3] if tier == 'quick' else [-2, -1, 0, 1, 3]
    for cy in range(1, maxcy + 1):
        for L in range(1, maxl + 1):
            for cc in capex:
                for co in (0, 1, 2):
                    for rev in itertools.product((0, 1, 2, 3), repeat=L):
                        yield cy, L, cc, co, rev


def replay_m2(res: Result, tier: str):
    bind_repo()
    from geophires_x.Economics import CalculateFinancialPerformance, CalculateRevenue, calculate_npv

    def one(cy, L, cc, co, rev):
        N = cy + L
        # spec side (exact)
        cf = [Fraction(-cc, cy)] * cy + [Fraction(r - co) for r in rev]
        cum = list(itertools.accumulate(cf))
        # code side: product revenue from energy x price
        energy = [float(r) * 1e6 for r in rev]
        price = [1.0] * L
        r_cf, r_cum = CalculateRevenue(L, cy, energy, price)
        ok = [Fraction(x) for x in r_cf] == [Fraction(0)] * cy + [Fraction(r) for r in rev]
        ok = ok and [Fraction(x) for x in r_cum[cy:]] == list(itertools.accumulate(Fraction(r) for r in rev))
        detail = {}
        if not ok:
            detail['CalculateRevenue'] = [r_cf, r_cum]
        fcf = [float(x) for x in cf]
        fcum = [float(x) for x in cum]
        for rate_pct in (0.0, 25.0, 100.0):
            r = Fraction(rate_pct) / 100
            for excel in (False, True):
                want = sum(c / (1 + r) ** (k + (1 if excel else 0)) for k, c in enumerate(cf))
                got = calculate_npv(float(r), list(fcf), excel)
                scale = sum(abs(c / (1 + r) ** (k + (1 if excel else 0))) for k, c in enumerate(cf))
                if abs(Fraction(got) - want) > Fraction(1, 10 ** 12) * max(scale, 1):
                    ok = False
                    detail[f'npv r={rate_pct} excel={excel}'] = [got, str(want)]
                if cc != 0 and (cc + co * L) != 0:
                    npv, irr, vir, moic = CalculateFinancialPerformance(L, rate_pct, list(fcf), list(fcum), float(cc), float(co), excel)
                    w_vir = 1 + want / cc
                    w_moic = cum[-1] / (cc + co * L)
                    if abs(Fraction(vir) - w_vir) > Fraction(1, 10 ** 12) * max(abs(w_vir), 1) or \
                            abs(Fraction(moic) - w_moic) > Fraction(1, 10 ** 12) * max(abs(w_moic), 1) or \
                            abs(Fraction(npv) - want) > Fraction(1, 10 ** 12) * max(scale, 1):
                        ok = False
                        detail[f'perf r={rate_pct} excel={excel}'] = [npv, vir, moic, str(want), str(w_vir), str(w_moic)]
                    if irr != 0.0:
                        ir = Fraction(irr) / 100
                        if 1 + ir > 0:
                            terms = [c / (1 + ir) ** k for k, c in enumerate(cf)]
                            if abs(sum(terms)) > Fraction(1, 10 ** 6) * sum(abs(t) for t in terms):
                                ok = False
                                detail[f'irr r={rate_pct}'] = [irr, float(sum(terms))]
        return ok, detail

    n = bad = 0
    for cy, L, cc, co, rev in m2_vectors(tier):
        n += 1
        try:
            ok, detail = one(cy, L, cc, co, rev)
        except Exception as ex:  # noqa: BLE001  (raised inside the functions under test)
            ok, detail = False, {'raised': f'{type(ex).__name__}: {ex}'}
        if not ok:
            bad += 1
            if bad <= 30:
                key = {'clause': 'C04_m2', 'Cy': cy, 'L': L, 'capex': cc, 'opex': co, 'rev': list(rev)}
                res.violation(key, f'revenue/NPV/VIR/MOIC functions differ from CashFlow.tla definitions on {key}', {'vector': key, 'detail': detail})
    res.count('m2_vectors_replayed', n)
    res.count('m2_mismatches', bad)


# ------------------------------------------------------------------ M3 drivers

def build_jobs(tier: str) -> list:
    rng = random.Random(seed() * 104729 + 4)
    n = 150 if tier == 'quick' else 1500
    lifetimes = None if tier == 'quick' else list(range(1, 41)) + [50, 60, 75, 99, 100]
    jobs = []
    for tag, text, p in gen.grid(seed() * 31 + 4, n, lifetimes=lifetimes):
        q = dict(p)
        r = rng.random()
        if 'Do AddOn Calculations' not in q and r < 0.25:
            q['Construction Years'] = rng.randint(1, 14 if tier == 'thorough' else 6)
        jobs.append((tag, gen.to_text(q)))
    # sign-pattern drivers: grants exceeding cost (negative capital cost), zero prices, high O&M
    m = 40 if tier == 'quick' else 300
    for tag, text, p in gen.grid(seed() * 31 + 401, m, with_extras=False):
        q = dict(p)
        gen.add_prices(q, rng)
        kind = rng.choice(['grant', 'grant', 'zero_price', 'high_oam', 'cheap'])
        if kind == 'grant':
            q['Total Capital Cost'] = gen.fmt(rng.uniform(5, 60))
            q['One-time Grants Etc'] = gen.fmt(rng.uniform(60, 200))
            if rng.random() < 0.6:
                for prod in ('Electricity', 'Heat', 'Cooling'):
                    q[f'Starting {prod} Sale Price'] = 0
                    q[f'Ending {prod} Sale Price'] = 0
            q['Plant Lifetime'] = rng.choice([3, 10, 30, 60])
        elif kind == 'zero_price':
            for prod in ('Electricity', 'Heat', 'Cooling'):
                q[f'Starting {prod} Sale Price'] = 0
                q[f'Ending {prod} Sale Price'] = 0
        elif kind == 'high_oam':
            q['Total O&M Cost'] = gen.fmt(rng.uniform(20, 100))
        else:
            q['Total Capital Cost'] = gen.fmt(rng.uniform(0.5, 5))
            q['Total O&M Cost'] = gen.fmt(rng.uniform(0.0, 0.3))
        q['Fixed Internal Rate'] = gen.fmt(rng.uniform(0, 20))
        if rng.random() < 0.4:
            q['Discount Initial Year Cashflow'] = 'True'
        jobs.append((f'{tag}+{kind}', gen.to_text(q)))
    for name, text in sim.example_inputs().items():
        if name.startswith(('Beckers', 'example6', 'example7', 'MC_')):
            continue
        if tier == 'quick' and name.startswith(('example_SBT',)):
            continue
        jobs.append((f'example:{name}', text))
    return jobs


def crossing_jobs(tier: str):
    """Boundary-seeking driver: M1 visits a zero crossing of the cumulative series in every project year; to put the
    real code in the same states a base run is made first and the sale prices are then scaled (revenue is linear in
    price) so that the crossing falls in a chosen year, including the first and the very last one."""
    rng = random.Random(seed() * 7 + 404)
    n = 36 if tier == 'quick' else 300
    bases = []
    for tag, text, p in gen.grid(seed() * 31 + 404, n, with_extras=False, resmodels=(4,)):
        q = dict(p)
        q['Construction Years'] = rng.choice([1, 2, 2, 3, 4, 5, 6] if tier == 'quick' else list(range(1, 15)))
        if tier == 'thorough' and rng.random() < 0.3:
            q['Plant Lifetime'] = rng.choice([1, 2, 50, 100])
        for prod in ('Electricity', 'Heat', 'Cooling'):
            q[f'Starting {prod} Sale Price'] = 0.05
            q[f'Ending {prod} Sale Price'] = 0.05
        q['Total Capital Cost'] = gen.fmt(rng.uniform(20, 200))
        q['Total O&M Cost'] = gen.fmt(rng.uniform(0.2, 4))
        bases.append((tag, q))
    first = sim.run_many([(f'xbase:{t}', gen.to_text(q)) for t, q in bases], 'harness.c04:project')
    jobs = []
    for (tag, q), o in zip(bases, first):
        t = o.get('c04')
        if o['status'] != 'ok' or not t:
            continue
        L, Cy = t['L'], t['Cy']
        N = L + Cy
        rev = [sum(Fraction(t[k][i]) for k in ('elecR', 'heatR', 'coolR')) for i in range(N)]
        ccap, coam = Fraction(t['ccap']), Fraction(t['coam'])
        for y in sorted({Cy, N - 1, rng.randint(Cy, N - 1)} | ({N - 2} if N - 2 >= Cy else set())):
            theta = Fraction(rng.randint(5, 95), 100)
            S = sum(rev[Cy:y + 1])
            den = S - theta * rev[y]
            if den <= 0:
                continue
            f = (ccap + coam * (y - Cy + 1) - theta * coam) / den
            price = float(f * Fraction(5, 100))
            if not (0 < price < 100):
                continue
            q2 = dict(q)
            for prod in ('Electricity', 'Heat', 'Cooling'):
                q2[f'Starting {prod} Sale Price'] = repr(price)
                q2[f'Ending {prod} Sale Price'] = repr(price)
            jobs.append((f'cross@{y}of{N}:{tag}', gen.to_text(q2)))
    return jobs


def validate(res: Result, out: list):
    traces, meta = [], {}
    for k, o in enumerate(out):
        if o['status'] == 'machinery':
            raise MachineryFailure(o['error'] + '\n' + o.get('error_tb', ''))
        if o['status'] != 'ok' or 'c04' not in o or o['c04'].get('family') == 'SUTRAEconomics':
            res.count('unexplained_family' if ('c04_unexplained' in o or 'c04' in o) and o['status'] == 'ok' else 'rejected_inputs')
            continue
        t = dict(o['c04'])
        t['tid'] = k + 1
        t['shown'] = shown_payback(o.get('report'))
        traces.append(t)
        meta[t['tid']] = o
    verdicts, ds, gs = tlc.validate_traces('TraceCashFlow', 'TraceCashFlow.cfg', traces)
    res.states += ds
    res.transitions += gs
    res.traces += len(traces)
    counts = {}
    for t in traces:
        vd = verdicts[t['tid']]
        m = meta[t['tid']]
        res.case(m['tag'])
        for c in vd['e']:
            counts[c] = counts.get(c, 0) + 1
        for c in vd['s']:
            counts['skipped:' + c] = counts.get('skipped:' + c, 0) + 1
        for c in vd['f']:
            wit = [w for w in vd['w'] if w.get('clause') == c][:2]
            key = {'clause': c, 'input': m['tag']}
            if c in ('C04_payback',):
                # identify the wrap-around signature (cum[0] > 0 >= cum[last]) so it can be keyed precisely
                cum = [Fraction(x) for x in t['cum']]
                key['signature'] = 'scan_wraps_to_last_year' if cum and cum[0] > 0 >= cum[-1] else 'other'
            res.violation(key, f'{c} fails on {m["tag"]}: {json.dumps(wit)[:300]}',
                          {'input_text': m['input'], 'verdict': vd,
                           'trace': {k_: v_ for k_, v_ in t.items() if k_ in ('L', 'Cy', 'ccap', 'coam', 'cf', 'cum', 'payback', 'npv', 'irr')}})
    res.cov['clauses_evaluated_per_trace'] = counts
    if traces:
        t0 = traces[len(traces) // 3]
        res.sample({'m3_trace': {k_: (v_[:3] + ['...'] if isinstance(v_, list) and len(v_) > 3 else v_) for k_, v_ in t0.items()
                                 if k_ not in ('extra', 'addon')}, 'verdict': verdicts[t0['tid']]})
    return counts


def run(tier: str) -> int:
    res = Result('C04', tier)
    cfg = f'MC_CashFlow_{tier}.cfg'
    r = tlc.run_tlc('CashFlow', cfg, workers=16)
    tlc.check_mc(r, cfg, ['Revenue', 'Construction', 'OpexYear', 'Accumulate', 'Scan', 'ScanDone'])
    if r['violated']:
        raise MachineryFailure(f'CashFlow.tla violates {r["violated"]} (model of the repaired design is wrong)\n' + r['raw'][-2500:])
    res.add_mc(r, cfg)
    if tier == 'thorough':
        # the pinned design (scan from i = 0, reading cum[-1]) must violate the payback invariant: shows the invariant bites
        rp = tlc.run_tlc('CashFlow', 'MC_CashFlow_pinned.cfg', workers=16)
        if rp['violated'] != 'PaybackInCrossingYear':
            raise MachineryFailure('pinned-design cfg no longer violates PaybackInCrossingYear (vacuity guard)')
        res.cov['pinned_design_counterexample'] = [s['vars'] for s in rp['trace'][-1:]]
    replay_m2(res, tier)
    jobs_ = build_jobs(tier) + crossing_jobs(tier)
    # each of a seeded choice of the jobs once more, followed in the same process by neighbours that restate ONE of its figures
    chains = sim.neighbour_chains(jobs_, 10 if tier == 'quick' else 60, 3, seed() * 101 + 4,
                                  prefer=('Construction Years', 'Plant Lifetime', 'Discount Rate', 'Fixed Internal Rate', 'Inflation Rate', 'Starting Electricity Sale Price', 'Starting Heat Sale Price'))
    out = sim.run_many(jobs_, 'harness.c04:project', keep_report=True) + sim.run_chains(chains, 'harness.c04:project', keep_report=True)
    counts = validate(res, out)
    # how many traces cross in their very last / first operating year (the boundary states M1 visits)
    res.cov['traces_crossing_in_last_year'] = sum(1 for o in out if o.get('c04') and _cross_year(o['c04']) == o['c04']['L'] + o['c04']['Cy'] - 1)
    res.cov['traces_crossing_in_first_operating_year'] = sum(1 for o in out if o.get('c04') and _cross_year(o['c04']) == o['c04']['Cy'])
    for need in ('C04_cf', 'C04_cum', 'C04_npv', 'C04_irr', 'C04_payback', 'C04_payback_reported', 'C04_na', 'C04_rev_elec', 'C04_rev_heat',
                 'C04_rev_cool', 'C04_rev_carbon', 'C04_x_npv', 'C04_a_payback'):
        if not counts.get(need):
            raise MachineryFailure(f'C04: clause {need} never evaluated (vacuous run)')
    res.cov['rule'] = ('M1 exhaustive over small (Cy, L, capex, opex, revenue) series; M2 the same series through the real '
                       'revenue/NPV/performance functions; M3 seeded configurations over all end-uses x plants x economic '
                       'models, sign-pattern drivers (grants > cost, zero prices, high O&M), add-ons, carbon, examples; '
                       'distinct = distinct input tag')
    res.assumptions += ['IRR checked by residual |NPV(irr)| <= 1e-6 x sum|terms|', 'tolerance 1e-9 x sum of |terms| elsewhere',
                        'SUTRA family has its own cash-flow quantities: not covered (counted as unexplained_family)']
    return res.finish()


def replay(path: str) -> int:
    data = json.loads(open(path).read())
    res = Result('C04', 'quick')
    rp = data['replay']
    if 'input_text' in rp:
        out = sim.run_many([('replay', rp['input_text'])], 'harness.c04:project', keep_report=True)
        validate(res, out)
    return res.finish()
