"""C15 — pumping power and modelled pressures stay physical.

M1  Hydraulics.tla: the two pressure predictors as loop machines over every small (L, n, overpressure, depletion rate,
    inflation rate) incl. non-integer depletion periods and the zero-step crash.
M2  every dumped vector into the real ReservoirPressurePredictor / InjectionReservoirPressurePredictor.
M3  well-bore snapshots of real runs (impedance / index models, pumped / flash, overpressure examples and seeded
    variants) validated step by step by TraceHydraulics.tla; friction ladder: the real WellPressureDrop /
    InjectionWellPressureDrop called over increasing diameters on a calculated model (TLC only compares).
"""
from __future__ import annotations

import json
import random
from fractions import Fraction

from . import gen, sim, tlc
from .common import MachineryFailure, Result, bind_repo, rat, rats, seed


def _lst(x):
    try:
        return [float(v) for v in x]
    except TypeError:
        return []


def project(stage, model, ctx):
    if stage != 'wellbores_calculated':
        return
    fam = type(model.wellbores).__name__
    if fam != 'WellBores':
        ctx['c15_unexplained'] = fam
        return
    try:
        import zlib
        ctx['c15'] = snapshot(model, dense=zlib.crc32(ctx.get('tag', '').encode()) % 3 == 0)
    except Exception as ex:  # noqa: BLE001
        ctx['c15_unexplained'] = f'{type(ex).__name__}: {ex}'


def snapshot(model, dense: bool = False) -> dict:
    import numpy as np
    from geophires_x.WellBores import InjectionWellPressureDrop, WellPressureDrop

    w = model.wellbores
    n = int(model.economics.timestepsperyear.value)
    L = int(model.surfaceplant.plant_lifetime.value)
    index = not bool(w.impedancemodelused.value)
    pres = _lst(w.production_reservoir_pressure.value)
    over = bool(w.overpressure_percentage.Provided)
    split = over and (bool(w.injection_reservoir_depth.Provided) or bool(w.injection_reservoir_inflation_rate.Provided))
    t = {
        'n': n, 'L': L, 'index': index, 'pumped': bool(w.productionwellpumping.value), 'over': over, 'split': split,
        'pump': rats(_lst(w.PumpingPower.value)), 'pumpprod': rats(_lst(w.PumpingPowerProd.value)) if index else [],
        'pumpinj': rats(_lst(w.PumpingPowerInj.value)) if index else [],
        'ov': rat(w.overpressure_percentage.value), 'rate': rat(w.overpressure_depletion_rate.value),
        'pres': rats(pres) if over else [], 'p0': '0', 'q0': '0', 'infl': rat(w.injection_reservoir_inflation_rate.value),
        'qres': [], 'ladder': [],
    }
    if over and pres:
        ov = float(w.overpressure_percentage.value)
        # hydrostatic pressure is not stored separately: it is the level the series is floored at, = start / (ov / 100)
        t['p0'] = rat(Fraction(pres[0]) / (Fraction(ov) / 100)) if ov else '0'
    if split:
        t['q0'] = rat(w.injection_reservoir_initial_pressure.value)
        t['qres'] = rats(_lst(w.injection_reservoir_pressure.value))
    # friction ladder on the calculated model: only the diameter varies
    try:
        tavg = np.asarray(model.reserv.Tresoutput.value) - w.ProdTempDrop.value / 4.0
        base_d = float(w.prodwelldiam.value)
        lad = []
        # one run in three sweeps the diameter in steps of 1 % (231 rungs from 0.4 to 4 times the well's own): a frictional loss that
        # is monotone from rung to coarse rung can still rise between two neighbouring diameters where the flow regime changes
        factors = [0.4 * 1.01 ** j for j in range(232)] if dense else (0.4, 0.7, 1.0, 1.5, 2.5, 4.0)
        for f in factors:
            d = base_d * f
            dp, *_ = WellPressureDrop(model, tavg, float(w.prodwellflowrate.value), d, True, model.reserv.depth.value)  # True: return the frictional drop
            lad.append({'d': rat(d), 'dp': rat(float(np.max(dp)))})
        t['ladder'] = lad
        lad2 = []
        for f in factors:
            d = float(w.injwelldiam.value) * f
            dp, *_ = InjectionWellPressureDrop(model, w.Tinj.value, float(w.prodwellflowrate.value), d, True, model.reserv.depth.value,
                                               w.nprod.value, max(1, w.ninj.value), model.reserv.waterloss.value)
            lad2.append({'d': rat(d), 'dp': rat(float(np.max(dp)))})
        t['ladder_inj'] = lad2
    except Exception as ex:  # noqa: BLE001
        t['ladder_error'] = f'{type(ex).__name__}: {ex}'
    return t


def replay_vectors(res: Result, vectors: list):
    bind_repo()
    from geophires_x.WellBores import InjectionReservoirPressurePredictor, ReservoirPressurePredictor

    tol = Fraction(1, 10 ** 11)
    bad = 0
    for vec in vectors:
        f = lambda s_: float(Fraction(s_))  # noqa: E731
        res.count('m2_vectors_replayed')
        ok = True
        detail = {}
        if vec.get('crash'):
            try:
                ReservoirPressurePredictor(vec['L'], vec['n'], f(vec['p0']), f(vec['ov']), f(vec['rate']))
                ok = False
                detail['expected'] = 'ZeroDivisionError (zero depletion steps)'
            except ZeroDivisionError:
                res.count('m2_crash_vectors_confirmed')
        else:
            try:
                got = ReservoirPressurePredictor(vec['L'], vec['n'], f(vec['p0']), f(vec['ov']), f(vec['rate']))
                got2 = InjectionReservoirPressurePredictor(vec['L'], vec['n'], f(vec['p0']), f(vec['infl']))
            except Exception as ex:  # noqa: BLE001  (the model says these inputs give a profile)
                got = got2 = []
                detail['raised'] = f'{type(ex).__name__}: {ex}'
            want = [Fraction(x) for x in vec['p']]
            ok = len(got) == len(want) and all(abs(Fraction(float(g)) - w_) <= tol * 2000 for g, w_ in zip(got, want))
            want2 = [Fraction(x) for x in vec['q']]
            ok = ok and len(got2) == len(want2) and all(abs(Fraction(float(g)) - w_) <= tol * 2000 for g, w_ in zip(got2, want2))
            if not ok:
                detail.update({'got_p': [float(g) for g in got], 'got_q': [float(g) for g in got2]})
        if not ok:
            bad += 1
            if bad <= 20:
                key = {'clause': 'C15_predictor_m2', **{k: vec[k] for k in ('L', 'n', 'ov', 'rate', 'infl')}}
                res.violation(key, f'pressure predictors differ from Hydraulics.tla on {key}', {'vector': vec, **detail})
    res.count('m2_mismatches', bad)
    if vectors:
        res.sample({'m2_vector': vectors[len(vectors) // 2]})


def build_jobs(tier: str) -> list:
    rng = random.Random(seed() * 15 + 15)
    n = 140 if tier == 'quick' else 1200
    jobs = []
    for k, (tag, text, p) in enumerate(gen.grid(seed() * 31 + 15, n, with_extras=False)):
        q = dict(p)
        if k % 2 == 0:
            gen.add_overpressure(q, rng)
            if rng.random() < 0.5:
                q['Overpressure Depletion Rate'] = gen.fmt(rng.choice([7, 12, 3.3, 9.1, 15, 0.7]))
            q['Time steps per year'] = rng.choice([1, 2, 3, 4, 6, 12])
        if rng.random() < 0.3:
            q['Production Wellhead Pressure'] = gen.fmt(rng.uniform(100, 3000))
        elif k % 2 == 0 and rng.random() < 0.4:
            # an overpressured reservoir (pump setting depth negative) whose user-set wellhead pressure still makes the pumps work
            q['Production Wellhead Pressure'] = gen.fmt(rng.uniform(3000, 9000))
            q['Overpressure Percentage'] = gen.fmt(rng.choice([rng.uniform(100, 140), rng.uniform(100, 140), rng.uniform(140, 300)]))
        if rng.random() < 0.3:
            q['Plant Outlet Pressure'] = gen.fmt(rng.uniform(100, 3000))
        if rng.random() < 0.2:
            q['Productivity Index'] = gen.fmt(rng.uniform(0.5, 3))     # strong drawdown: pump powers near / below zero get clamped
            q['Injectivity Index'] = gen.fmt(rng.uniform(20, 200))
            q.pop('Reservoir Impedance', None)
        if 'Reservoir Impedance' in q and (k % 3 == 1 or rng.random() < 0.15):
            # buoyancy (thermosiphon) outweighing every loss, for part of the life or for all of it: the computed pump power is
            # negative there and must be reported as zero
            q['Reservoir Impedance'] = gen.fmt(rng.choice([0.0005, 0.001, 0.002, 0.005, 0.005, 0.01, 0.01, 0.02, 0.03]))
        jobs.append((tag, gen.to_text(q)))
    for name, text in sim.example_inputs().items():
        if name.startswith(('Beckers', 'example6', 'example7', 'MC_', 'SUTRA', 'example_SBT', 'Wanju')):
            continue
        jobs.append((f'example:{name}', text))
    return jobs


def validate(res: Result, out: list) -> dict:
    traces, meta = [], {}
    for k, o in enumerate(out):
        if o['status'] == 'machinery':
            raise MachineryFailure(o['error'] + '\n' + o.get('error_tb', ''))
        if 'c15' not in o:
            res.count('rejected_inputs' if o['status'] != 'ok' else 'unexplained_family')
            continue
        if o['status'] != 'ok':
            res.count('failed_after_wellbores')
        t = dict(o['c15'])
        t['tid'] = len(traces) + 1
        traces.append(t)
        meta[t['tid']] = o
        if t.get('ladder_inj'):
            t2 = dict(t, tid=len(traces) + 1, ladder=t['ladder_inj'], pump=[], pumpprod=[], pumpinj=[], pres=[], qres=[], over=False, split=False)
            traces.append(t2)
            meta[t2['tid']] = dict(o, tag=o['tag'] + '|injection-ladder')
    for t in traces:
        t.pop('ladder_inj', None)
        t.pop('ladder_error', None)
    verdicts, ds, gs = tlc.validate_traces('TraceHydraulics', 'TraceHydraulics.cfg', traces)
    res.states += ds
    res.transitions += gs
    res.traces += len(traces)
    counts = {}
    for t in traces:
        vd = verdicts[t['tid']]
        o = meta[t['tid']]
        res.case(o['tag'])
        cls = ('index' if t['index'] else 'impedance') + ('/pumped' if t['pumped'] else '/selfflowing') + ('/overpressure' if t['over'] else '')
        counts[cls] = counts.get(cls, 0) + 1
        for c in vd['e']:
            counts[c] = counts.get(c, 0) + 1
        for c in vd['f']:
            wit = [w for w in vd['w'] if w.get('clause') == c][:1]
            res.violation({'clause': c, 'input': o['tag']}, f'{c} fails on {o["tag"]}: {json.dumps(wit)[:300]}',
                          {'input_text': o['input'], 'verdict': {k_: v_ for k_, v_ in vd.items() if k_ != 'w'}, 'witness': wit})
    res.cov['classes_and_clauses'] = counts
    if traces:
        t0 = next((t for t in traces if t['over']), traces[0])
        res.sample({'m3_trace': {k_: (v_[:3] + ['...'] if isinstance(v_, list) and len(v_) > 3 else v_) for k_, v_ in t0.items()}})
    return counts


def run(tier: str) -> int:
    res = Result('C15', tier)
    cfg = f'MC_Hydraulics_{tier}.cfg'
    r = tlc.run_tlc('Hydraulics', cfg, workers=1, timeout=2400)
    tlc.check_mc(r, cfg, ['Crash', 'Deplete', 'DepleteDone', 'Inflate', 'InflateDone'])
    if r['violated']:
        raise MachineryFailure(f'Hydraulics.tla violates {r["violated"]}')
    res.add_mc(r, cfg)
    replay_vectors(res, [p for p in r['prints'] if isinstance(p, dict) and 'L' in p])
    jobs_ = build_jobs(tier)
    # each of a seeded choice of the jobs once more, followed in the same process by neighbours that restate ONE of its figures: a value
    # kept from one run for the next (a memo keyed by too few arguments, a mutated default) shows in the neighbour's own trace
    chains = sim.neighbour_chains(jobs_, 10 if tier == 'quick' else 60, 3, seed() * 101 + 15, prefer=('Production Flow Rate per Well', 'Production Well Diameter', 'Injection Well Diameter', 'Reservoir Impedance', 'Productivity Index', 'Injectivity Index', 'Reservoir Depth', 'Injection Temperature'))
    out = sim.run_many(jobs_, 'harness.c15:project') + sim.run_chains(chains, 'harness.c15:project')
    counts = validate(res, out)
    for need in ('C15_nonneg', 'C15_prod_nonneg', 'C15_inj_nonneg', 'C15_sum', 'C15_floor', 'C15_monotone', 'C15_start', 'C15_rate',
                 'C15_inj_rate', 'C15_friction', 'index/pumped/overpressure', 'impedance/pumped'):
        if not counts.get(need):
            raise MachineryFailure(f'C15: {need} never exercised')
    res.cov['rule'] = ('M1+M2: all (L, n, overpressure, rate, inflation) of the cfg; M3: seeded configurations (half with overpressure, '
                       'non-integer depletion periods), examples; friction ladders of 6 diameters per run; distinct = input tag')
    res.assumptions += ['hydrostatic pressure recovered as start / (overpressure/100)', 'the friction function itself stays in the code; TLC compares',
                        'depletion steps: floor of the exact value or of value + 1e-9 (the code floors a double)']
    return res.finish()


def replay(path: str) -> int:
    data = json.loads(open(path).read())
    res = Result('C15', 'quick')
    rp = data['replay']
    if 'vector' in rp:
        replay_vectors(res, [rp['vector']])
    elif 'input_text' in rp:
        validate(res, sim.run_many([('replay', rp['input_text'])], 'harness.c15:project'))
    return res.finish()
