"""C12 — input-file layout is irrelevant.

M1  InputFile.tla: the tokeniser on real strings over an alphabet of parameter / decoration lines (VIEW hides the
    file text); invariant dictionary = last-wins meaning.
M2  every file TLC dumps -> real read_input_file -> dictionary equality.
M3  for each base input, seeded layout variants (permutations, blank/comment lines, padding, trailing comments, CRLF,
    duplicates before the governing line, the client's params-override path with and without a final newline) are
    run for real; TraceHistory.tla checks that one abstract parameter set always yields one result digest.
"""
from __future__ import annotations

import hashlib
import json
import logging
import os
import random
import shutil
import sys
import re
import tempfile
from pathlib import Path

from . import gen, sim, tlc
from .common import Guard, MachineryFailure, Result, bind_repo, seed

META = re.compile(r'Simulation Date|Simulation Time|Calculation Time|GEOPHIRES Version|Run Date|Run Time|Simulation Metadata|^\s*Calculation')


def digest_report(report: str | None) -> str:
    if not report:
        return 'no-report'
    lines = [ln.rstrip() for ln in report.splitlines() if not META.search(ln)]
    return hashlib.sha256('\n'.join(lines).encode()).hexdigest()[:16]


def project(stage, model, ctx):
    return


def last_wins(text: str) -> list:
    """The parameter set of an input in first-appearance order with last-wins values (names, raw value+rest)."""
    order, val = [], {}
    for raw in text.splitlines():
        line = raw.strip()
        if not line or line.startswith(('#', '--', '*')):
            continue
        el = line.split(',')
        if len(el) < 2:
            continue
        name = el[0].strip()
        if name not in val:
            order.append(name)
        val[name] = ','.join(el[1:]).strip()
    return [(n, val[n]) for n in order]


def is_addon(name: str) -> bool:
    return name.startswith('AddOn ')


def permute(params: list, rng: random.Random) -> list:
    """Random permutation keeping the add-on lines in their own relative order (as the property allows)."""
    idx = list(range(len(params)))
    rng.shuffle(idx)
    addon_slots = sorted(i for i, k in enumerate(idx) if is_addon(params[k][0]))
    addon_items = [k for k in range(len(params)) if is_addon(params[k][0])]
    out = [params[k] for k in idx]
    for slot, k in zip(addon_slots, addon_items):
        out[slot] = params[k]
    return out


LIST_STYLE = {'Gradients', 'Thicknesses'}


def perturb(rest: str) -> str:
    """A different value text for a superseded earlier occurrence (scalar or list-style `a, b, c`)."""
    out = []
    for tok in rest.split(','):
        t = tok.strip()
        try:
            x = float(t)
            out.append(repr(x * 1.07 + 0.5) if '.' in t or 'e' in t.lower() else str(int(x) + 1))
        except ValueError:
            out.append(t)
    return ', '.join(out)


# free text after the value: whatever a user may jot down there (delimiters of other formats, quotes, signs, a second `--`)
TRAILS = ['a comment, with commas -- and dashes [unit]', '-- 200 degC at 8500 ft; 228.89 degC at 9824 ft', 'note: value = 3; see "ref" (p. 4) | 50% #1',
          "--- [kg/s]; default", 'x=1;y=2', "\t--- tab, then 'quoted' text", ': ; = | & ? !']


def render(params: list, rng: random.Random, style: str) -> str:
    lines = []
    eol = '\r\n' if style == 'crlf' else '\n'
    for name, rest in params:
        value = rest.split(',')[0].strip()
        tail = ','.join(rest.split(',')[1:])
        if name in LIST_STYLE:       # the whole comma-separated list is the value; a comment is introduced by `--`
            value, tail = rest.split('--')[0].strip().rstrip(','), ''
            if style == 'trail':
                lines.append(f'{name}, {value} -- a comment; with: signs')
                continue
        if style == 'plain' or style == 'crlf':
            lines.append(f'{name}, {rest}')
        elif style == 'pad':
            lines.append(f'  \t{name}   ,\t {value}  ' + (f',{tail}' if tail else ''))
        elif style == 'trail':
            lines.append(f'{name}, {value}, {TRAILS[1] if not lines else rng.choice(TRAILS)}')      # (the first line always carries the `;` one)
        elif style == 'decorate':
            if rng.random() < 0.3:
                lines.append(rng.choice(['', '   ', '# a comment, with, commas', '-- dashed comment', '* starred', '   # Reservoir Depth, 99',
                                         '*** Section ***', 'no comma on this line']))
            lines.append(f'{name}, {rest}')
        elif style == 'duplicate':
            x = rng.random()
            if x < 0.3 and not is_addon(name):
                if x < 0.1:
                    lines.append(f'{name}, {rest}')            # the governing line stands twice, with a different occurrence in between
                lines.append(f'{name}, {perturb(rest)}')       # an earlier, different occurrence: the last one governs
                if 0.1 <= x < 0.15:
                    lines.append(f'{name}, {perturb(perturb(rest))}')
            lines.append(f'{name}, {rest}')
        else:
            raise ValueError(style)
    return eol.join(lines) + eol


def client_override_variant(item):
    """Worker: base file (with or without trailing newline) + params overrides through GeophiresInputParameters."""
    tag, base_params, overrides, trailing_newline = item
    bind_repo()
    from geophires_x_client.geophires_input_parameters import GeophiresInputParameters

    d = tempfile.mkdtemp(prefix='vc12_', dir='/dev/shm' if os.path.isdir('/dev/shm') else None)
    base = Path(d, 'base.txt')
    text = '\n'.join(f'{n}, {r}' for n, r in base_params)
    base.write_text(text + ('\n' if trailing_newline else ''))
    p = GeophiresInputParameters(params=dict(overrides), from_file_path=base)
    out = p.as_text()
    try:
        os.unlink(p.as_file_path())
    except OSError:
        pass
    return tag, out


def client_session(item):
    """Worker: ONE default (caching) client serves a sequence of input files; returns the digest of each answer."""
    tag, texts = item
    bind_repo()
    import contextlib
    import io
    from geophires_x_client import GeophiresXClient
    from geophires_x_client.geophires_input_parameters import GeophiresInputParameters
    d = Path(tempfile.mkdtemp(prefix='vc12s_', dir='/dev/shm' if os.path.isdir('/dev/shm') else None))
    cwd0, argv0 = os.getcwd(), list(sys.argv)
    logging.disable(logging.CRITICAL)
    out = []
    try:
        client = GeophiresXClient()
        for k, (name, text) in enumerate(texts):
            f = d / f'in{k}.txt'
            f.write_text(text)
            try:
                with contextlib.redirect_stdout(io.StringIO()), contextlib.redirect_stderr(io.StringIO()):
                    r = client.get_geophires_result(GeophiresInputParameters(from_file_path=f))
                out.append((name, digest_report(Path(r.output_file_path).read_text())))
            except Exception as ex:  # noqa: BLE001
                out.append((name, f'failed:{type(ex).__name__}'))
    finally:
        os.chdir(cwd0)
        sys.argv = argv0
        logging.disable(logging.NOTSET)
        shutil.rmtree(d, ignore_errors=True)
    return tag, out


def replay_m2(res: Result, files: list):
    bind_repo()
    from geophires_x.GeoPHIRESUtils import read_input_file

    d = tempfile.mkdtemp(prefix='vc12m2_', dir='/dev/shm' if os.path.isdir('/dev/shm') else None)
    path = os.path.join(d, 'f.txt')
    bad = 0
    logging.disable(logging.CRITICAL)
    try:
        for f in files:
            with open(path, 'w', newline='') as fh:  # keep CRLF as written
                fh.write(''.join(f['file']))
            got = {}
            with Guard() as gd:
                read_input_file(got, input_file_name=path)
                got = {k: v.sValue for k, v in got.items()}
            if gd.err:
                got = {'<raised>': gd.err}
            want = f['dict'] if isinstance(f['dict'], dict) else {}
            res.count('m2_files_replayed')
            if got != want:
                bad += 1
                if bad <= 20:
                    res.violation({'clause': 'C12_tokeniser_m2', 'file': json.dumps(f['file'])},
                                  f'read_input_file differs from InputFile.tla on {f["file"]!r}: got {got}, expected {want}',
                                  {'file': f['file'], 'got': got, 'expected': want})
    finally:
        logging.disable(logging.NOTSET)
    res.count('m2_mismatches', bad)
    if files:
        res.sample({'m2_file': files[len(files) // 2]})


STYLES = ['plain', 'crlf', 'pad', 'trail', 'decorate', 'duplicate']


def run(tier: str) -> int:
    res = Result('C12', tier)
    r = tlc.run_tlc('InputFile', 'MC_InputFile.cfg', workers=8, timeout=2400)
    tlc.check_mc(r, 'MC_InputFile.cfg', ['AddParam', 'AddDecoration'])
    if r['violated']:
        raise MachineryFailure(f'InputFile.tla violates {r["violated"]}\n' + r['raw'][-2000:])
    res.add_mc(r, 'MC_InputFile.cfg')
    h = tlc.run_tlc('History', 'MC_History.cfg', workers=4, timeout=2400)
    tlc.check_mc(h, 'MC_History.cfg', ['Run'])
    if h['violated']:
        raise MachineryFailure('History.tla violated')
    res.add_mc(h, 'MC_History.cfg')
    d = tlc.run_tlc('InputFile', 'Dump_InputFile.cfg', workers=1, coverage=False, timeout=2400)
    tlc.check_mc(d, 'dump')
    files = [p for p in d['prints'] if isinstance(p, dict) and 'file' in p]
    if not files:
        raise MachineryFailure('no files dumped')
    res.add_mc(d, 'Dump_InputFile.cfg (M2 file generation)')
    replay_m2(res, files)

    # ---- M3
    rng = random.Random(seed() * 97 + 12)
    bases = []
    ex = sim.example_inputs()
    names = ['example1', 'example2', 'example3', 'example10_HP', 'example11_AC', 'example12_DH', 'example1_addons', 'example_ITC',
             'example_overpressure', 'example13', 'S-DAC-GT', 'example_multiple_gradients', 'SUTRAExample1']
    if tier == 'thorough':
        names += ['example4', 'example5', 'example8', 'example9', 'example_PTC', 'example_SHR-1', 'example_SBT_Lo_T',
                  'example_multiple_gradients-2', 'Fervo_Norbeck_Latimer_2023', 'example_overpressure2']
    for n in names:
        if n in ex:
            bases.append((f'example:{n}', last_wins(ex[n])))
    for tag, text, p in gen.grid(seed() * 31 + 12, 14 if tier == 'quick' else 80):
        bases.append((tag, last_wins(text)))
    # optional modules switched on implicitly (by the mere presence of `AddOn ...` / `S-DAC-GT ...` lines) next to explicit ones:
    # where those lines stand relative to each other must not matter
    if 'example1_addons' in ex:
        implicit = '\n'.join(ln for ln in ex['example1_addons'].splitlines() if not ln.strip().startswith('Do AddOn Calculations'))
        bases.append(('implicit:addons+sdacgt', last_wins(implicit + '\nDo S-DAC-GT Calculations, True\nS-DAC-GT CAPEX, 1400\nS-DAC-GT OPEX, 60\nS-DAC-GT CAPEX Multiplier, 1.1\n')))
        bases.append(('implicit:addons', last_wins(implicit + '\n')))
    # two parameters whose reading interferes (aliases, one writing the other: discovered through the real reader, see C08) given
    # conflicting values: which of them governs is fixed by the program, not by where the two lines stand
    from .c07 import FAMILIES as C07_FAMILIES
    from .c08 import cross_pairs
    xb = [(f, ex[n]) for f, n in C07_FAMILIES.items() if n in ex and f in ('standard', 'addons', 'district_heating', 'heatpump', 'overpressure', 'fervo')]
    for q in [x for x in cross_pairs(xb, 60) if x['writes'] and x['family'] in ('fervo', 'standard')][: (6 if tier == 'quick' else 24)]:
        bases.append((f"interfering:{q['family']}:{q['a']}+{q['b']}", last_wins(q['text'])))
    # list-style parameters (`Gradients, g1, g2, ...`, `Thicknesses, ...`) are parsed from the raw line, not from the value field
    for k in range(3 if tier == 'quick' else 12):
        p = gen.base(rng, 4, 1, rng.choice([1, 2]), rng.choice([1, 2, 3]))
        p.pop('Gradient 1', None)
        p['Number of Segments'] = 3
        p['Gradients'] = ', '.join(gen.fmt(rng.uniform(30, 80)) for _ in range(3))
        p['Thicknesses'] = ', '.join(gen.fmt(rng.uniform(0.5, 1.5)) for _ in range(2))
        bases.append((f'liststyle{k}', last_wins(gen.to_text(p))))
        if k % 2 == 0:      # both spellings at once, with different values: the enumerated entry governs wherever the two lines stand
            both = dict(p)
            both['Gradient 1'] = gen.fmt(rng.uniform(30, 80))
            both['Thickness 2'] = gen.fmt(rng.uniform(0.5, 1.5))
            bases.append((f'liststyle+enumerated{k}', last_wins(gen.to_text(both))))
    nperm = 3 if tier == 'quick' else 10
    jobs, groups, overrides = [], {}, []
    for tag, params in bases:
        base_text = render(params, rng, 'plain')
        groups[tag] = []
        jobs.append((f'{tag}|base', base_text))
        groups[tag].append(f'{tag}|base')
        for st in STYLES[1:] + ['duplicate']:
            vt = f'{tag}|{st}' if f'{tag}|{st}' not in groups[tag] else f'{tag}|{st}2'
            jobs.append((vt, render(params, rng, st)))
            groups[tag].append(vt)
        for k in range(nperm if not tag.startswith(('implicit:', 'liststyle+', 'interfering:')) else max(nperm, 8)):
            jobs.append((f'{tag}|perm{k}', render(permute(params, rng), rng, rng.choice(['plain', 'decorate', 'duplicate']))))
            groups[tag].append(f'{tag}|perm{k}')
        if tag.startswith('interfering:'):      # the two lines swapped, everything else in place
            a_, b_ = tag.split(':', 2)[2].split('+')
            ia = next((i for i, x in enumerate(params) if x[0] == a_), None)
            ib = next((i for i, x in enumerate(params) if x[0] == b_), None)
            if ia is not None and ib is not None:
                sw = list(params)
                sw[ia], sw[ib] = sw[ib], sw[ia]
                jobs.append((f'{tag}|swapped', render(sw, rng, 'plain')))
                groups[tag].append(f'{tag}|swapped')
        if tag.startswith('implicit:'):      # the optional-module lines first, then everything else
            front = [x for x in params if x[0].startswith(('S-DAC-GT', 'Do S-DAC-GT'))]
            jobs.append((f'{tag}|modules_first', render(front + [x for x in params if x not in front], rng, 'plain')))
            groups[tag].append(f'{tag}|modules_first')
        if len(params) > 3:
            cut = rng.randint(1, len(params) - 1)
            head, tail = params[:cut], params[cut:]
            ov = [(n, r.split('--')[0].strip().rstrip(',') if n in LIST_STYLE else r.split(',')[0].strip()) for n, r in tail]
            base_part = head + [(n, {'1': '2'}.get(v, v)) for n, v in ov[:2] if not is_addon(n)]  # overridden entries: params win
            for nl in (True, False):
                overrides.append((f'{tag}|client_params_{"nl" if nl else "no_nl"}', base_part, ov, nl))
    for tag, text in sim.call_in_pool('harness.c12:client_override_variant', overrides):
        base_tag = tag.split('|')[0]
        jobs.append((tag, text))
        groups[base_tag].append(tag)
    # files made of the SAME lines in which a duplicated parameter ends on a different value: the last occurrence governs each of them,
    # also when one caching client serves them one after the other (a cache key that forgets the order would mix them up)
    sessions = []
    for tag, params in bases[: (6 if tier == 'quick' else 30)]:
        cand = [(n, r.split(',')[0].split('--')[0].strip()) for n, r in params
                if n in ('Production Flow Rate per Well', 'Reservoir Depth', 'Plant Lifetime', 'Number of Production Wells')]
        cand = [(n, v) for n, v in cand if v and len(v.split()) == 1]
        if not cand:
            continue
        n0, r0 = cand[0]
        try:
            alt = repr(round(float(r0) * 1.07, 4)) if '.' in r0 else str(int(r0) + 1)
        except ValueError:
            continue
        rest = [(n, r) for n, r in params if n != n0]
        a = '\n'.join(f'{n}, {r}' for n, r in rest + [(n0, alt), (n0, r0)]) + '\n'      # ends on the original value
        b = '\n'.join(f'{n}, {r}' for n, r in rest + [(n0, r0), (n0, alt)]) + '\n'      # same lines, ends on the other value
        for nm, text in ((f'{tag}|sessA', a), (f'{tag}|sessB', b)):
            jobs.append((nm, text))
        sessions.append((tag, [(f'{tag}|sessA', a), (f'{tag}|sessB', b), (f'{tag}|sessA', a)]))
    sess_out = dict(sim.call_in_pool('harness.c12:client_session', sessions)) if sessions else {}
    out = sim.run_many(jobs, 'harness.c12:project', keep_report=True)
    by_tag = {o['tag']: o for o in out}
    for tag, answers in sess_out.items():
        for k, (nm, dg) in enumerate(answers):
            ref = by_tag.get(nm)
            want = digest_report(ref.get('report')) if ref and ref['status'] == 'ok' else None
            res.case(f'{nm}|client-session#{k}')
            if want is not None and dg != want:
                res.violation({'clause': 'C12_last_governs_client', 'base': tag, 'request': k},
                              f'one caching client, files made of the same lines: request {k} ({nm}) was answered with {dg}, the file itself gives {want}',
                              {'base_input': ref['input'], 'session': [t for _, t in next(x[1] for x in sessions if x[0] == tag) and []] or None,
                               'variant_input': ref['input'], 'status': 'session', 'error': None})
    res.cov['client_sessions'] = len(sess_out)
    traces, tid = [], 0
    for tag, members in groups.items():
        base = by_tag[f'{tag}|base']
        if base['status'] == 'machinery':
            raise MachineryFailure(base['error'])
        if base['status'] != 'ok':
            res.count('rejected_bases')
            continue
        tid += 1
        ev = []
        for mtag in members:
            o = by_tag[mtag]
            dg = digest_report(o.get('report')) if o['status'] == 'ok' else f"failed:{(o['error'] or '')[:60]}"
            ev.append({'input': tag, 'digest': dg, 'how': mtag.split('|')[1]})
            res.case(mtag)
        traces.append({'tid': tid, 'clause': 'C12_same', 'events': ev, 'base': tag})
    verdicts, ds, gs = tlc.validate_traces('TraceHistory', 'TraceHistory.cfg', traces)
    res.states += ds
    res.transitions += gs
    res.traces += len(traces)
    nvar = 0
    for t in traces:
        vd = verdicts[t['tid']]
        nvar += len(t['events'])
        for w in vd['w']:
            if w.get('clause') != 'C12_same':
                continue
            mtag = f"{t['base']}|{w['differs']}"
            o, b = by_tag[mtag], by_tag[f"{t['base']}|base"]
            diff = []
            if o['status'] == 'ok':
                for x, y in zip((b.get('report') or '').splitlines(), (o.get('report') or '').splitlines()):
                    if x != y and not META.search(x):
                        diff.append([x.strip(), y.strip()])
            kind = re.sub(r'\d+$', '', w['differs'])
            res.violation({'clause': 'C12_same', 'base': t['base'], 'variant': kind},
                          f"layout variant {w['differs']} of {t['base']} gives a different result ({o['status']}: {o.get('error')}); first differences {diff[:2]}",
                          {'base_input': b['input'], 'variant_input': o['input'], 'status': o['status'], 'error': o.get('error'), 'diff': diff[:10]})
    res.cov['variants_run'] = nvar
    res.cov['bases'] = len(traces)
    if traces:
        res.sample({'history': {'base': traces[0]['base'], 'events': traces[0]['events'][:6]}})
    if nvar < 50:
        raise MachineryFailure('C12: too few variants executed')
    res.cov['rule'] = ('M1: every file of <= 3 lines over the line alphabet (VIEW on the reader state); M2: every 2-line file; M3: bases = '
                       'examples of every family + seeded grid, variants = 5 decoration styles + permutations + client override path; '
                       'distinct = base|variant')
    res.assumptions += ['"trailing comment" is the documented `name, value, comment` form', 'add-on lines keep their relative order',
                        'duplicates are inserted only before the governing line (last occurrence governs)',
                        'results compared as report text without date/time/version lines']
    return res.finish()


def replay(path: str) -> int:
    data = json.loads(open(path).read())
    rp = data['replay']
    res = Result('C12', 'quick')
    if 'variant_input' in rp:
        out = sim.run_many([('base', rp['base_input']), ('variant', rp['variant_input'])], 'harness.c12:project', keep_report=True)
        a, b = (digest_report(o.get('report')) if o['status'] == 'ok' else 'failed' for o in out)
        res.case('replay')
        res.case('replay2')
        if a != b:
            res.violation({'clause': 'C12_same', 'replay': path}, 'variant still differs from base', rp)
    return res.finish()
