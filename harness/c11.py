"""C11 — economic results scale the way the definitions require.

M1  the algebra is in Levelized.tla (Homogeneous: every levelized cost is degree-1 homogeneous in all cost terms;
    prices do not occur in LevelizedDef at all) and CashFlow.tla.
M3  run pairs / ladders validated by TraceRelation.tla: costs x k, prices + delta, efficiency / 2, null add-on,
    zero-rate tax credit, zero grant.
"""
from __future__ import annotations

import random

from . import gen, tlc
from .common import MachineryFailure, Result, seed
from .rel import Ladders

LC = lambda r: [r['out']['lcoe'], r['out']['lcoh'], r['out']['lcoc']]  # noqa: E731
ALL = lambda r: [r['out'][k] for k in ('lcoe', 'lcoh', 'lcoc', 'npv', 'ccap', 'coam', 'irr', 'vir', 'moic', 'payback')] + r['cf']  # noqa: E731

COSTS_TO_SCALE = ['Total Capital Cost', 'Total O&M Cost', 'Well Drilling and Completion Capital Cost', 'Injection Well Drilling and Completion Capital Cost',
                  'Reservoir Stimulation Capital Cost', 'Electricity Rate', 'Peaking Fuel Cost Rate', 'One-time Flat License Fees Etc',
                  'Annual License Fees Etc', 'One-time Grants Etc', 'Other Incentives', 'Tax Relief Per Year']


def all_costs_as_inputs(rng, p: dict) -> dict:
    """Every cost that enters the run becomes an input (totals fixed; well/stimulation fixed because redrilling amortises them;
    electricity purchase rate and peaking fuel price for heat products; fees and grants)."""
    q = {k: v for k, v in p.items() if k not in dict(gen.FIXED_COMPONENTS) and k not in gen.ADJ_FACTORS}
    q['Total Capital Cost'] = gen.fmt(rng.uniform(20, 200))
    q['Total O&M Cost'] = gen.fmt(rng.uniform(0.5, 8))
    q['Well Drilling and Completion Capital Cost'] = gen.fmt(rng.uniform(2, 12))
    q['Injection Well Drilling and Completion Capital Cost'] = gen.fmt(rng.uniform(2, 12))
    q['Reservoir Stimulation Capital Cost'] = gen.fmt(rng.uniform(0, 10))
    q['Electricity Rate'] = gen.fmt(rng.uniform(0.03, 0.12))
    if q.get('Power Plant Type') == 7:
        q['Peaking Fuel Cost Rate'] = gen.fmt(rng.uniform(0.01, 0.05))
        q['Total District Heating Network Cost'] = 0
        q['District Heating O&M Cost'] = 0
    if rng.random() < 0.5:
        q['One-time Flat License Fees Etc'] = gen.fmt(rng.uniform(0, 5))
        q['Annual License Fees Etc'] = gen.fmt(rng.uniform(0, 0.5))
        q['One-time Grants Etc'] = gen.fmt(rng.uniform(0, 5))
    q.pop('Surface Piping Length', None)
    return q


COMPONENTS = [('Well Drilling and Completion Capital Cost', (2, 12)), ('Injection Well Drilling and Completion Capital Cost', (2, 12)),
              ('Reservoir Stimulation Capital Cost', (0.5, 10)), ('Surface Plant Capital Cost', (5, 80)), ('Field Gathering System Capital Cost', (0.5, 8)),
              ('Exploration Capital Cost', (0.5, 10)), ('Wellfield O&M Cost', (0.1, 2)), ('Surface Plant O&M Cost', (0.2, 4)), ('Water Cost', (0.01, 0.5))]
CAPEX_ADJ = {'Well Drilling and Completion Capital Cost': 'Well Drilling and Completion Capital Cost Adjustment Factor',
             'Injection Well Drilling and Completion Capital Cost': 'Injection Well Drilling and Completion Capital Cost Adjustment Factor',
             'Reservoir Stimulation Capital Cost': 'Reservoir Stimulation Capital Cost Adjustment Factor',
             'Surface Plant Capital Cost': 'Surface Plant Capital Cost Adjustment Factor',
             'Field Gathering System Capital Cost': 'Field Gathering System Capital Cost Adjustment Factor'}
EQUIPMENT = {5: [('Absorption Chiller Capital Cost', (1, 10)), ('Absorption Chiller O&M Cost', (0.05, 1))], 6: [('Heat Pump Capital Cost', (1, 10))],
             7: [('Peaking Fuel Cost Rate', (0.01, 0.05))]}
SCALED_B = [n for n, _ in COMPONENTS] + list(CAPEX_ADJ.values()) + ['Electricity Rate', 'Peaking Fuel Cost Rate', 'One-time Flat License Fees Etc',
            'Annual License Fees Etc', 'One-time Grants Etc', 'Other Incentives', 'Tax Relief Per Year', 'Absorption Chiller Capital Cost',
            'Absorption Chiller O&M Cost', 'Heat Pump Capital Cost', 'Total District Heating Network Cost', 'District Heating O&M Cost']
# (the per-metre drilling cost is scaled through the well factor)

PLANT_OWN = {'Absorption Chiller Capital Cost', 'Absorption Chiller O&M Cost', 'Heat Pump Capital Cost', 'Peaking Fuel Cost Rate',
             'Total District Heating Network Cost', 'District Heating O&M Cost'}
_DECLARED = None


def declared_positive_defaults() -> dict:
    """name -> declared default, for the scaled cost inputs whose declared default is a positive figure (read from the live objects)."""
    global _DECLARED
    if _DECLARED is None:
        _DECLARED = {}
        try:
            from .c07 import build, params_of
            m = build('End-Use Option, 2\nPower Plant Type, 7\nPrint Output to Console, 0\n', read=False)
            for mod, p_ in params_of(m):
                nm = p_.Name.strip() if hasattr(p_, 'Name') else None
                d = getattr(p_, 'DefaultValue', None)
                if nm in SCALED_B and isinstance(d, (int, float)) and not isinstance(d, bool) and d > 0:
                    _DECLARED[nm] = float(d)
        except BaseException:  # noqa: BLE001
            pass
    return _DECLARED


def land_on_default(rng, qc: dict, kc: list) -> str | None:
    """Choose one scaled input so that one rung of the ladder writes exactly its declared default (a figure like any other)."""
    ks = [k for k in kc if k in (0.5, 2.0, 0.25)]
    names = [n for n in declared_positive_defaults() if n in qc and float(qc[n]) > 0]
    if not ks or not names:
        return None
    own = [n for n in names if n in PLANT_OWN]       # inputs only one plant type has are met rarely: they go first
    n, k = rng.choice(sorted(own or names)), rng.choice(ks)
    qc[n] = repr(declared_positive_defaults()[n] / k)
    return f'{n} x {k}'


def component_costs_as_inputs(rng, p: dict, through_factors: bool) -> dict:
    """No user-fixed totals: every component of capital cost and O&M is an input.  With `through_factors` the four correlated capital
    components (wells, stimulation, plant, gathering) are left to their correlations and scaled through their adjustment factors
    instead (exploration and the O&M components stay direct inputs: their correlations are not linear in the other costs)."""
    q = {k: v for k, v in p.items() if k not in dict(gen.FIXED_COMPONENTS) and k not in gen.ADJ_FACTORS}
    for name, (lo, hi) in COMPONENTS:
        if through_factors and name in CAPEX_ADJ:
            q[CAPEX_ADJ[name]] = gen.fmt(rng.uniform(0.4, 2.0))
        else:
            q[name] = gen.fmt(rng.uniform(lo, hi))
    for name, (lo, hi) in EQUIPMENT.get(int(q.get('Power Plant Type', 0)), []):
        q[name] = gen.fmt(rng.uniform(lo, hi))
    q['Electricity Rate'] = gen.fmt(rng.uniform(0.03, 0.12))
    if q.get('Power Plant Type') == 7:
        if rng.random() < 0.5:
            q['Total District Heating Network Cost'] = 0
            q['District Heating O&M Cost'] = 0
        else:       # the network as a cost figure of its own
            q['Total District Heating Network Cost'] = gen.fmt(rng.uniform(2, 30))
            q['District Heating O&M Cost'] = gen.fmt(rng.uniform(0.1, 3))
    if through_factors:
        q['Well Drilling Cost Correlation'] = rng.choice([1, 2, 3, 4, 5, 5, 6, 10, 14, 17])
        if q['Well Drilling Cost Correlation'] == 5 or rng.random() < 0.3:
            q['All-in Vertical Drilling Costs'] = gen.fmt(rng.uniform(500, 3000))
        if rng.random() < 0.25:
            q['Reservoir Depth'] = gen.fmt(rng.uniform(0.35, 0.49))     # shallow wells: the per-metre cost is used whatever the correlation
            q['Gradient 1'] = gen.fmt(rng.uniform(150, 250))
    if rng.random() < 0.5:
        q['One-time Flat License Fees Etc'] = gen.fmt(rng.uniform(0, 5))
        q['Annual License Fees Etc'] = gen.fmt(rng.uniform(0, 0.5))
        q['One-time Grants Etc'] = gen.fmt(rng.uniform(0, 5))
    q.pop('Surface Piping Length', None)
    return q


def scale_named(q: dict, names: list, k: float) -> dict:
    s = dict(q)
    for name in names:
        if name in s:
            s[name] = repr(float(s[name]) * k)
    return s


def scale_costs(q: dict, k: float) -> dict:
    s = dict(q)
    for name in COSTS_TO_SCALE:
        if name in s:
            s[name] = repr(float(s[name]) * k)
    return s


def sold_energy_positive(r) -> bool:
    series = [s for s in r['energy'].values() if s and any(s)]
    return bool(series) and all(x >= 0 for s in series for x in s) and any(x > 0 for s in series for x in s)


def run(tier: str) -> int:
    res = Result('C11', tier)
    r = tlc.run_tlc('Levelized', f'MC_Levelized_{tier}.cfg', workers=16, timeout=1800)
    tlc.check_mc(r, 'Levelized', ['LevelizeFCR', 'LevelizeStd', 'LevelizeBicycle'])
    if r['violated']:
        raise MachineryFailure(f'Levelized.tla violates {r["violated"]}')
    res.add_mc(r, f'MC_Levelized_{tier}.cfg (Homogeneous / MonotoneInCost lemmas)')
    rng = random.Random(seed() * 11 + 11)
    rng_one = random.Random(seed() * 11 + 1101)
    nb = 60 if tier == 'quick' else 500
    L = Ladders()
    for k, (tag, text, p) in enumerate(gen.grid(seed() * 31 + 11, nb, resmodels=(4, 3), with_extras=False)):
        p = dict(p)
        gen.add_prices(p, rng)
        if rng.random() < 0.4:
            gen.add_ptc(p, rng)
        if rng.random() < 0.3:
            gen.add_redrill(p, rng)
        if rng.random() < 0.3:
            gen.add_carbon(p, rng)
        # --- homogeneity: all costs x k
        q = all_costs_as_inputs(rng, p)
        ks = [1.0] + sorted(rng.sample([0.5, 2.0, 3.7, 0.25], 2))
        ks = [x for x in ks if float(q['Total Capital Cost']) * x <= 1000 and float(q['Total O&M Cost']) * x <= 100 and float(q['Electricity Rate']) * x <= 1]
        L.add('C11_homog', 'scaled', LC, [(x, gen.to_text(scale_costs(q, x))) for x in ks], {'relation': 'costs x k', 'base': tag})
        # --- the same through the components (no user-fixed totals), directly or through the capital-cost adjustment factors
        for through in ((False, True) if k % 2 == 0 else (True,)):
            if through and int(p.get('Power Plant Type', 0)) == 7:
                continue        # the peaking boiler is costed by a correlation without an adjustment factor
            qc = component_costs_as_inputs(rng, p, through)
            kc = [1.0] + sorted(rng.sample([0.5, 2.0, 3.0, 0.25], 2))
            kc = [x for x in kc if all(float(qc[n_]) * x <= lim for n_, lim in (('Surface Plant Capital Cost', 1000), ('Electricity Rate', 1),
                                                                               ('Surface Plant Capital Cost Adjustment Factor', 10),
                                                                               ('Well Drilling and Completion Capital Cost Adjustment Factor', 10),
                                                                               ('Well Drilling and Completion Capital Cost', 200)) if n_ in qc)]
            landed = land_on_default(rng, qc, kc) if ((k + (1 if through else 0)) % 3 == 0 or any(n_ in qc for n_ in PLANT_OWN)) else None
            L.add('C11_homog', 'scaled', LC, [(x, gen.to_text(scale_named(qc, SCALED_B, x))) for x in kc],
                  {'relation': 'component costs x k' + (' (capital components through adjustment factors)' if through else '')
                   + (f' (declared default reached: {landed})' if landed else ''), 'base': tag})
        # --- prices: raise start and end price of every product together
        d = rng.choice([0.01, 0.03, 0.08])
        up = dict(p)
        for prod in ('Electricity', 'Heat', 'Cooling'):
            up[f'Starting {prod} Sale Price'] = repr(float(p[f'Starting {prod} Sale Price']) + d)
            up[f'Ending {prod} Sale Price'] = repr(float(p[f'Ending {prod} Sale Price']) + d)
        rungs = [(0.0, gen.to_text(p)), (d, gen.to_text(up))]
        L.add('C11_price_lc', 'equal', LC, rungs, {'relation': 'prices + delta', 'base': tag})
        L.add('C11_price_npv', 'same_direction', lambda r_: r_['out']['npv'], rungs, {'relation': 'prices + delta', 'base': tag},
              precondition=sold_energy_positive)
        # --- the price of ONE product that is sold, the others as they are (three rungs: the relation between two products' prices changes
        #     along the ladder, the direction of the value measures must not)
        eu_, pt_ = int(p.get('End-Use Option', 1)), int(p.get('Power Plant Type', 1))
        sold = ['Electricity'] if eu_ == 1 else (['Cooling'] if pt_ == 5 else ['Heat']) if eu_ == 2 else ['Electricity', 'Heat']
        prod = rng_one.choice(sold)      # (a stream of its own: the older ladders keep theirs)
        rungs1 = []
        for m_ in (0, 1, 3):
            one = dict(p)
            one[f'Starting {prod} Sale Price'] = repr(float(p[f'Starting {prod} Sale Price']) + m_ * d)
            one[f'Ending {prod} Sale Price'] = repr(float(p[f'Ending {prod} Sale Price']) + m_ * d)
            rungs1.append((m_ * d, gen.to_text(one)))
        L.add('C11_price_lc', 'equal', LC, rungs1, {'relation': f'{prod} price + delta (one product)', 'base': tag})
        key1 = {'Electricity': 'elec', 'Heat': 'heat', 'Cooling': 'cool'}[prod]
        L.add('C11_price_npv', 'same_direction', lambda r_: r_['out']['npv'], rungs1, {'relation': f'{prod} price + delta (one product)', 'base': tag},
              precondition=lambda r_, k_=key1: sold_energy_positive(r_) and bool(r_['energy'].get(k_)) and any(x > 0 for x in r_['energy'][k_]))
        # --- nulls: add-on with zero cost and zero gains, zero-rate tax credit, zero grant
        if int(p['Construction Years']) == 1:
            nul = dict(p)
            nul.update({'Do AddOn Calculations': 'True', 'AddOn Nickname 1': 'nothing', 'AddOn CAPEX 1': 0, 'AddOn OPEX 1': 0,
                        'AddOn Electricity Gained 1': 0, 'AddOn Heat Gained 1': 0, 'AddOn Profit Gained 1': 0})
            L.add('C11_null_addon', 'equal', ALL, [(0, gen.to_text(p)), (1, gen.to_text(nul))], {'relation': 'null add-on', 'base': tag})
        if 'Investment Tax Credit Rate' not in p:
            z = dict(p)
            z['Investment Tax Credit Rate'] = 0
            L.add('C11_zero_itc', 'equal', ALL, [(0, gen.to_text(p)), (1, gen.to_text(z))], {'relation': 'zero-rate tax credit', 'base': tag})
        z = dict(p)
        z['One-time Grants Etc'] = 0
        z['Other Incentives'] = 0
        L.add('C11_zero_grant', 'equal', ALL, [(0, gen.to_text(p)), (1, gen.to_text(z))], {'relation': 'zero grant', 'base': tag})
        # --- halving the end-use efficiency doubles the levelized cost of direct-use heat
        if p['End-Use Option'] == 2 and p['Power Plant Type'] == 9:
            e = float(p['End-Use Efficiency Factor'])
            if e / 2 >= 0.1:
                h = dict(p)
                h['End-Use Efficiency Factor'] = repr(e / 2)
                L.add('C11_eff', 'scaled', lambda r_: r_['out']['lcoh'], [(1.0, gen.to_text(p)), (2.0, gen.to_text(h))],
                      {'relation': 'efficiency / 2', 'base': tag})
    # more direct-use bases for the efficiency clause
    for k in range(10 if tier == 'quick' else 60):
        p = gen.base(rng, rng.choice([4, 3]), 2, 9, rng.choice([1, 2, 3]))
        e = rng.uniform(0.3, 1.0)
        p['End-Use Efficiency Factor'] = repr(e)
        h = dict(p)
        h['End-Use Efficiency Factor'] = repr(e / 2)
        L.add('C11_eff', 'scaled', lambda r_: r_['out']['lcoh'], [(1.0, gen.to_text(p)), (2.0, gen.to_text(h))], {'relation': 'efficiency / 2', 'base': f'heat{k}'})
    # an end-use option restated next to a plant type of another kind (both accepted; the end-use option decides what is sold):
    # prices must still reach the value measures of the product that is sold
    for k in range(8 if tier == 'quick' else 48):
        eu, pt = [(2, 1), (2, 2), (2, 3), (2, 4), (1, 9), (2, 1), (31, 9), (2, 4)][k % 8]
        p = gen.base(rng, rng.choice([4, 3]), eu, pt, (k % 3) + 1, lifetime=rng.choice([10, 20]), steps=2)
        gen.add_prices(p, rng)
        d = rng.choice([0.01, 0.03, 0.08])
        up = dict(p)
        for prod in ('Electricity', 'Heat', 'Cooling'):
            up[f'Starting {prod} Sale Price'] = repr(float(p[f'Starting {prod} Sale Price']) + d)
            up[f'Ending {prod} Sale Price'] = repr(float(p[f'Ending {prod} Sale Price']) + d)
        rungs = [(0.0, gen.to_text(p)), (d, gen.to_text(up))]
        meta = {'relation': 'prices + delta', 'base': f'mixed{k}:eu{eu}-pt{pt}'}
        L.add('C11_price_lc', 'equal', LC, rungs, dict(meta))
        L.add('C11_price_npv', 'same_direction', lambda r_: r_['out']['npv'], rungs, dict(meta), precondition=sold_energy_positive)
    counts = L.run(res)
    res.cov['clauses_and_skips'] = counts
    for need in ('C11_homog', 'C11_price_lc', 'C11_price_npv', 'C11_null_addon', 'C11_zero_itc', 'C11_zero_grant', 'C11_eff'):
        if not counts.get(need):
            raise MachineryFailure(f'C11: {need} never evaluated')
    res.cov['rule'] = ('pairs / short ladders on seeded bases over all economic models and end-uses (quick 60, thorough 500); k from '
                       '{0.25, 0.5, 2, 3.7} clipped to keep inputs in range; distinct = clause x base')
    res.assumptions += ['homogeneity pairs make every cost an input (totals, well and stimulation cost, electricity purchase rate, peaking fuel, fees, grants)',
                        'price -> NPV requires every yearly energy sold >= 0 and one > 0', 'relations hold to 1e-9 relative']
    return res.finish()


GETTERS = {'C11_homog': LC, 'C11_price_lc': LC, 'C11_price_npv': lambda r_: r_['out']['npv'], 'C11_null_addon': ALL, 'C11_zero_itc': ALL,
           'C11_zero_grant': ALL, 'C11_eff': lambda r_: r_['out']['lcoh']}


def replay(path: str) -> int:
    from .rel import replay_ladder
    return replay_ladder('C11', path, GETTERS)
