"""C09 — the case report states what was computed.  (see run() docstring)

Division of labour
  * this file only PROJECTS: (a) a generic snapshot of every Parameter / OutputParameter of the live Model taken at
    the `calculated` hook (scalars, and first/mean/max/min/last of every series; full series for the profile tables;
    the unit each value is expressed in), and (b) a purely lexical reading of the .out file (harness/report.py):
    every `label: token unit` line with the quantum of the printed token, every table with its header words,
    parenthesised unit tokens and rows.  Nothing here knows which label prints which quantity.
  * spec/Report.tla is the oracle: Field(label) / TableKind / Cell(kind, column, row) say which computed quantity
    a printed figure stands for, in which unit, and how many rows a table has; spec/TraceReport.tla evaluates the
    clauses on every projected report with exact rationals.
"""
from __future__ import annotations

import json
import math
from enum import Enum
import random
import re
from fractions import Fraction

from . import gen, report, sim, tlc
from .common import MachineryFailure, Result, rat, seed

OBJS = (('reserv', 'reserv'), ('wellbores', 'wellbores'), ('surfaceplant', 'surfaceplant'), ('economics', 'economics'),
        ('addeconomics', 'addeconomics'), ('sdacgteconomics', 'sdacgteconomics'))
MAX_SERIES = 1300        # points of a series handed to TLC (lifetime x time steps per year)
SHORT = 8                # list-valued inputs (gradients, thicknesses) are passed whole up to this length


def _unit(p, which='CurrentUnits'):
    u = getattr(p, which, None)
    v = getattr(u, 'value', u)
    return '' if v is None else str(v)


def _isnum(x):
    return isinstance(x, (int, float)) and not isinstance(x, bool)


def _f(x):
    try:
        x = float(x)
    except (TypeError, ValueError):
        return None
    return x if math.isfinite(x) else None


def _name(x):
    return getattr(x, 'name', str(x))


def snapshot(model) -> dict:
    """name -> {'k': kind, ...}; names are '<object>.<attribute>' of the live model, nothing is selected by meaning."""
    Q, S, U = {}, {}, {}
    for prefix, attr in OBJS:
        obj = getattr(model, attr, None)
        if obj is None:
            continue
        for name, p in vars(obj).items():
            if not hasattr(p, 'value') or not hasattr(p, 'Name'):
                continue
            key = f'{prefix}.{name}'
            v = p.value
            U[key] = {'cur': _unit(p), 'pref': _unit(p, 'PreferredUnits')}
            if isinstance(v, Enum):   # option enums (str subclasses whose text is in .value)
                Q[key] = {'k': 's', 's': str(v.value), 'name': v.name}
            elif isinstance(v, bool):
                Q[key] = {'k': 'b', 'b': bool(v)}
            elif isinstance(v, str):
                Q[key] = {'k': 's', 's': v, 'name': ''}
            elif _isnum(v) or (hasattr(v, 'dtype') and getattr(v, 'ndim', 1) == 0):
                fv = _f(v)
                Q[key] = {'k': 'v', 'v': rat(fv) if fv is not None else 'undef'}
            elif hasattr(v, '__len__'):
                try:
                    arr = [float(x) for x in v]
                except (TypeError, ValueError):
                    continue
                if not arr:
                    Q[key] = {'k': 'n', 'n': 0}
                    continue
                if not all(math.isfinite(x) for x in arr):
                    Q[key] = {'k': 'n', 'n': len(arr), 'first': 'undef', 'mean': 'undef', 'max': 'undef', 'min': 'undef', 'last': 'undef',
                              'sum': 'undef', 'absmean': 'undef'}
                    if len(arr) <= MAX_SERIES:
                        S[key] = [rat(Fraction(x)) if math.isfinite(x) else 'undef' for x in arr]
                    continue
                fr = [Fraction(x) for x in arr]
                tot = sum(fr)
                Q[key] = {'k': 'n', 'n': len(arr), 'first': rat(fr[0]), 'last': rat(fr[-1]), 'mean': rat(tot / len(fr)), 'sum': rat(tot),
                          'max': rat(max(fr)), 'min': rat(min(fr)), 'absmean': rat(sum(abs(x) for x in fr) / len(fr))}
                if len(arr) <= SHORT:
                    Q[key]['l'] = [rat(x) for x in fr]
                if len(arr) <= MAX_SERIES:
                    S[key] = [rat(x) for x in fr]
            if getattr(p, 'Provided', None) is not None and key in Q:
                Q[key]['provided'] = bool(p.Provided)
            if getattr(p, 'Valid', None) is not None and key in Q:
                Q[key]['valid'] = bool(p.Valid)
    return {'Q': Q, 'S': S, 'U': U}


def project(stage, model, ctx):
    if stage == 'params_read':
        ctx['dh'] = _name(model.surfaceplant.plant_type.value) == 'DISTRICT_HEATING'
    if stage == 'calculated':
        ctx['family'] = [type(getattr(model, a)).__name__ for a in ('reserv', 'wellbores', 'surfaceplant', 'economics', 'outputs')]
        snap = snapshot(model)
        ctx['snap'] = snap
        sp, e = model.surfaceplant, model.economics
        ctx['cfg'] = {'L': int(sp.plant_lifetime.value), 'Cy': int(sp.construction_years.value), 'tsy': int(e.timestepsperyear.value),
                      'enduse': _name(sp.enduse_option.value), 'plant': _name(sp.plant_type.value),
                      'econ': _name(e.econmodel.value), 'resmodel': _name(model.reserv.resoption.value),
                      'ags': bool(model.wellbores.IsAGS.value), 'addons': bool(e.DoAddOnCalculations.value),
                      'sdacgt': bool(e.DoSDACGTCalculations.value), 'carbon': bool(e.DoCarbonCalculations.value),
                      'overpressure': bool(getattr(getattr(model.wellbores, 'overpressure_percentage', None), 'Provided', False))}
    elif stage == 'printed':
        # the unit every quantity is expressed in once the pre-print unit pass has run (attribute objects)
        U1 = {}
        for prefix, attr in OBJS:
            obj = getattr(model, attr, None)
            if obj is None:
                continue
            for name, p in vars(obj).items():
                if hasattr(p, 'value') and hasattr(p, 'Name'):
                    U1[f'{prefix}.{name}'] = _unit(p)
        ctx['units_printed'] = U1


# ---------------------------------------------------------------- lexical side

FIELD = re.compile(r'^(\s*)(\S.*?):\s*(\S+)(?:\s+(\S.*?))?\s*$')
EQFIELD = re.compile(r'^\s*(\S.*?)\s=\s(.*?)\s*$')
PAREN = re.compile(r'\(([^()]*)\)')


def quantum(tok: str):
    """Size of one unit in the last printed place of a numeric token (exact), e.g. '12.30' -> 1/100, '1.5E-03' -> 1/10000."""
    t = tok.replace(',', '')
    m = re.match(r'^[-+]?(\d*)\.?(\d*)(?:[eE]([-+]?\d+))?$', t)
    if not m:
        return None
    frac = len(m.group(2) or '')
    exp = int(m.group(3) or 0)
    return Fraction(10) ** (exp - frac)


def lex_fields(rep: report.Report) -> list:
    out = []
    for sname, a, b, kind in rep.sections:
        if kind != 'banner':
            continue
        seen = {}
        for ln in rep.lines[a + 1:b]:
            s = ln.rstrip()
            if not s.strip():
                continue
            m = FIELD.match(s)
            if m:
                # a label may itself contain colons: offer the split at the LAST colon that is followed by the value
                lab, tok, rest = m.group(2), m.group(3), (m.group(4) or '')
                # prefer the longest label such that what follows is `token [unit]`
                k = s.rfind(': ')
                if k >= 0:
                    lab2 = s[:k].strip()
                    tail = s[k + 1:].split()
                    if tail and (report.is_number(tail[0]) or tail[0] == 'N/A') and len(tail) <= 3:
                        lab, tok, rest = lab2, tail[0], ' '.join(tail[1:])
                # labels glued to their value ("...Drop:      3.0" vs "...Drop:3.0")
                labn = re.sub(r'\s+', ' ', lab)
                n = seen[labn] = seen.get(labn, 0) + 1
                v = report.number(tok)
                st, _, wh = labn.partition(' ')
                f = {'sec': sname, 'label': labn, 'stat': st, 'what': wh, 'occ': n, 'raw': (tok + ' ' + rest).strip(), 'line': s.strip()}
                if v is not None and quantum(tok) is not None:
                    f.update({'num': True, 'tok': rat(v), 'q': rat(quantum(tok)), 'unit': rest.strip(), 'text': ''})
                else:
                    f.update({'num': False, 'tok': 'undef', 'q': 'undef', 'unit': '', 'text': (tok + (' ' + rest if rest else '')).strip()})
                out.append(f)
                continue
            m = EQFIELD.match(s)
            if m:
                out.append({'sec': sname, 'label': re.sub(r'\s+', ' ', m.group(1)) + ' =', 'stat': '', 'what': '', 'occ': 1, 'raw': m.group(2),
                            'line': s.strip(), 'num': False, 'tok': 'undef', 'q': 'undef', 'unit': '', 'text': m.group(2)})
    return out


def lex_tables(rep: report.Report) -> list:
    out = []
    for title, t in rep.tables.items():
        hdr = [re.sub(r'\s+', ' ', h.strip()) for h in t['header'] if not set(h.strip()) <= {'_', '-', '*'}]
        units = []
        for h in t['header']:
            units += [u.replace(' ', '') for u in PAREN.findall(h)]
        rows = []
        for r in t['rows']:
            row = []
            for tok in r:
                v = report.number(tok)
                if v is None or quantum(tok) is None:
                    row.append({'tok': 'undef', 'q': 'undef', 'raw': tok})
                else:
                    row.append({'tok': rat(v), 'q': rat(quantum(tok)), 'raw': tok})
            rows.append(row)
        out.append({'title': title, 'head': hdr[:2], 'units': units, 'rows': rows})
    return out


def build_trace(o: dict) -> dict | None:
    if 'snap' not in o or 'report' not in o:
        return None
    rep = report.Report(o['report'])
    snap = o['snap']
    U = {k: {'cur': v['cur'], 'pref': v['pref'], 'printed': o.get('units_printed', {}).get(k, v['cur'])} for k, v in snap['U'].items()}
    main = o['family'][4] == 'Outputs' and not o['cfg']['ags']
    return {'cfg': o['cfg'], 'mainwriter': main, 'maxseries': MAX_SERIES, 'Q': snap['Q'], 'S': snap['S'], 'U': U, 'fields': lex_fields(rep), 'tables': lex_tables(rep)}


# ---------------------------------------------------------------- driving

UNIT_VARIANTS = [('Reservoir Depth', 'meter', 1000.0), ('Reservoir Depth', 'ft', 3280.839895), ('Injection Temperature', 'degF', None),
                 ('Maximum Temperature', 'degF', None), ('Production Well Diameter', 'meter', 0.0254), ('Reservoir Density', 'lbs/ft**3', 0.06242796),
                 ('Surface Temperature', 'degF', None)]


def _with_units(p: dict, rng: random.Random) -> dict:
    """The same configuration with one or two inputs written in another unit of the same dimension."""
    q = dict(p)
    for name, unit, k in rng.sample(UNIT_VARIANTS, 2):
        if name not in q:
            continue
        try:
            x = float(q[name])
        except ValueError:
            continue
        y = x * k if k is not None else x * 9.0 / 5.0 + 32.0
        q[name] = f'{y!r} {unit}'
    return q


def build_jobs(tier: str) -> list:
    rng = random.Random(seed() * 7368787 + 9)
    rng_units = random.Random(seed() * 7368787 + 909)      # (a stream of its own: the older job classes keep theirs)
    n = 230 if tier == 'quick' else 2600
    lifetimes = [1, 2, 3, 5, 8, 13, 20, 25, 30, 35, 40] if tier == 'quick' else list(range(1, 41)) + [50, 60, 75, 99, 100]
    jobs = []
    k = 0
    for tag, text, p in gen.grid(seed() * 53 + 9, n, resmodels=(4, 3, 1, 2, 5), lifetimes=lifetimes):
        q = dict(p)
        k += 1
        if 'Do AddOn Calculations' not in q:
            q['Construction Years'] = rng.choice([1, 1, 2, 3, 4, 5, 7, 10, 14])
        L = int(q['Plant Lifetime'])
        steps = rng.choice([1, 2, 3, 4, 6, 12])
        if L * steps > 1200:
            steps = max(1, 1200 // L)
        if L == 1 and steps == 1:
            steps = 2
        q['Time steps per year'] = steps
        if 'Reservoir Output File Name' in q:
            q['Reservoir Output File Name'] = gen.profile_file(rng, L, steps)     # the profile must have L * steps + 1 lines
        if k % 9 == 0:
            q = _with_units(q, rng)
            tag += '+units'
        if k % 11 == 0:
            q['Do S-DAC-GT Calculations'] = 'True'
            tag += '+sdac'
        if k % 4 == 1:
            gen.add_restated_sentinels(q, rng)
            tag += '+sentinel'
        if k % 6 == 2:
            # a unit requested for a column of the revenue table: the figures are converted and the column heading names that unit
            for col in rng_units.sample(['Electricity Sale Price Model', 'Heat Sale Price Model', 'Cooling Sale Price Model'], 2):
                q[f'Units:{col}'] = rng_units.choice(['USD/kWh', 'USD/MWh'])
            tag += '+price-units'
        jobs.append((tag, gen.to_text(q)))
    for name, text in sim.example_inputs().items():
        if name.startswith(('Beckers', 'example6', 'example7', 'MC_')):
            continue
        if tier == 'quick' and name.startswith(('example_SBT',)):
            continue
        jobs.append((f'example:{name}', text))
    return jobs


def _vkey(clause: str, item: dict, t: dict) -> dict:
    key = {'clause': clause}
    if 'label' in item:
        key['label'] = item['label']
    if 'column' in item:
        key['column'] = item['column']
    return key


def lifecycle(res: Result, out: list):
    """Beyond C09: every run of the corpus, accepted or refused, is a behaviour of Lifecycle.tla (stage order, district-heating second
    pass, report / JSON on disk exactly when their stage was reached).  Not a listed property: deviations are reported as model fit."""
    lt = [{'tid': k + 1, 'stages': o.get('stages', []), 'dh': bool(o.get('dh', False)), 'status': o['status'],
           'report': bool(o.get('report_exists')), 'json': bool(o.get('json_exists'))} for k, o in enumerate(out) if o['status'] in ('ok', 'rejected')
          and 'timeout' not in (o.get('error') or '')]
    if not lt:
        return
    vd, ds, gs = tlc.validate_traces('TraceLifecycle', 'TraceLifecycle.cfg', lt)
    res.states += ds
    res.transitions += gs
    cnt = {}
    for t in lt:
        for c in vd[t['tid']]['e']:
            cnt[c] = cnt.get(c, 0) + 1
        for c in vd[t['tid']]['f']:
            cnt['failed:' + c] = cnt.get('failed:' + c, 0) + 1
            sm = res.cov.setdefault('lifecycle_deviations', [])
            if len(sm) < 5:
                sm.append({'clause': c, 'stages': t['stages'], 'status': t['status'], 'dh': t['dh']})
    res.cov['lifecycle'] = cnt


def validate(res: Result, out: list) -> dict:
    traces, meta = [], {}
    lifecycle(res, out)
    for o in out:
        if o['status'] == 'machinery':
            raise MachineryFailure(o['error'] + '\n' + o.get('error_tb', ''))
        if o['status'] != 'ok':
            res.count('rejected_inputs')
            continue
        t = build_trace(o)
        if t is None:
            res.count('no_report')
            continue
        t['tid'] = len(traces) + 1
        traces.append(t)
        meta[t['tid']] = o
    verdicts, ds, gs = tlc.validate_traces('TraceReport', 'TraceReport.cfg', traces)
    res.states += ds
    res.transitions += gs
    res.traces += len(traces)
    counts, unexplained = {}, {}
    for t in traces:
        vd = verdicts[t['tid']]
        o = meta[t['tid']]
        c = t['cfg']
        res.case(o['tag'])
        bkey = f"writer:{o['family'][4]}/{c['enduse']}/{c['plant']}"
        counts[bkey] = counts.get(bkey, 0) + 1
        counts['resmodel:' + c['resmodel']] = counts.get('resmodel:' + c['resmodel'], 0) + 1
        counts['figures_explained'] = counts.get('figures_explained', 0) + vd.get('explained', 0)
        counts['table_cells'] = counts.get('table_cells', 0) + sum(len(r) for tb in t['tables'] for r in tb['rows'])
        for tb in t['tables']:
            counts['table:' + tb['title'][:40]] = counts.get('table:' + tb['title'][:40], 0) + 1
        for lab in vd.get('unexplained', []):
            unexplained[lab] = unexplained.get(lab, 0) + 1
        for cl in vd['e']:
            counts[cl] = counts.get(cl, 0) + 1
        for cl in vd['s']:
            counts['skipped:' + cl] = counts.get('skipped:' + cl, 0) + 1
        for cl in vd['f']:
            wits = [w for w in vd['w'] if w.get('clause') == cl]
            items = []
            for w in wits:
                if isinstance(w.get('bad'), list) and w['bad']:
                    items += [dict(b, **({'table': w['kind']} if 'kind' in w else {})) for b in w['bad']]
                else:
                    items.append({k_: v_ for k_, v_ in w.items() if k_ != 'clause'})
            if not items:
                items = [{}]
            for it in items:
                key = {'clause': cl}
                for k_ in ('label', 'table', 'column'):
                    if k_ in it:
                        key[k_] = it[k_]
                if cl.startswith('fit_'):
                    res.count('modelfit:' + cl)     # the specification's picture of the writer drifted: reported, not alarmed
                    drift = res.cov.setdefault('modelfit_samples', [])
                    if len(drift) < 8:
                        drift.append({'clause': cl, 'input': o['tag'], 'witness': json.dumps(it)[:240]})
                    continue
                res.violation(key, f'{cl} fails on {o["tag"]}: {json.dumps(it)[:330]}',
                              {'input_text': o['input'], 'verdict': {k_: v_ for k_, v_ in vd.items() if k_ != 'w'}, 'witness': it, 'cfg': c})
    res.cov['branches_and_clauses'] = counts
    res.cov['unexplained_labels'] = unexplained
    if traces:
        t0 = traces[len(traces) // 2]
        res.sample({'cfg': t0['cfg'], 'fields': [{k_: f[k_] for k_ in ('sec', 'label', 'raw')} for f in t0['fields'][5:9]],
                    'table_row': {'title': t0['tables'][0]['title'], 'row': [c_['raw'] for c_ in t0['tables'][0]['rows'][0]]} if t0['tables'] and t0['tables'][0]['rows'] else None,
                    'verdict': {k_: v_ for k_, v_ in verdicts[t0['tid']].items() if k_ != 'w'}})
    return counts


def run(tier: str) -> int:
    """M1: Report.tla (the writer as a state machine over every accepted configuration) model-checked: one row per year,
    consecutive years, no cell reads past its series, the three profiles always present, termination.
    M3: real runs over every branch of the report writer; the Model snapshot taken before the writer runs is compared,
    by TraceReport.tla with ReportDef.tla as the oracle, with every figure the writer then printed."""
    res = Result('C09', tier)
    cfg = f'MC_Report_{tier}.cfg'
    r = tlc.run_tlc('Report', cfg, workers=16)
    tlc.check_mc(r, cfg, ['WriteSection', 'StartTables', 'SkipTable', 'WriteRow', 'CloseTable', 'Finish'])
    if r['violated']:
        raise MachineryFailure(f'Report.tla violates {r["violated"]}\n' + r['raw'][-2500:])
    res.add_mc(r, cfg)
    g = tlc.run_tlc('Report', 'MC_Report_missing.cfg', workers=4, coverage=False)
    if g['violated'] != 'NeverCrashes':     # vacuity guard: withholding a series a table reads must be noticed
        raise MachineryFailure('MC_Report_missing.cfg: NeverCrashes was expected to fail when a series is withheld\n' + g['raw'][-1500:])
    res.add_mc(g, 'MC_Report_missing.cfg (self-test: violation expected and found)')
    lc = tlc.run_tlc('Lifecycle', 'MC_Lifecycle.cfg', workers=2)
    tlc.check_mc(lc, 'MC_Lifecycle.cfg', ['Step', 'Fail'])
    if lc['violated']:
        raise MachineryFailure(f'Lifecycle.tla violates {lc["violated"]}')
    res.add_mc(lc, 'MC_Lifecycle.cfg (run life cycle, beyond the listed properties)')
    out = sim.run_many(build_jobs(tier), 'harness.c09:project', keep_report=True)
    counts = validate(res, out)
    kinds = ['ELECTRICITY/SUB_CRITICAL_ORC', 'ELECTRICITY/SUPER_CRITICAL_ORC', 'ELECTRICITY/SINGLE_FLASH', 'ELECTRICITY/DOUBLE_FLASH',
             'HEAT/INDUSTRIAL', 'HEAT/ABSORPTION_CHILLER', 'HEAT/HEAT_PUMP', 'HEAT/DISTRICT_HEATING']
    missing = [k for k in kinds if not counts.get('writer:Outputs/' + k)]
    if not any(k.startswith('writer:Outputs/COGENERATION') for k in counts):
        missing.append('COGENERATION_*')
    for tb in ('REVENUE & CASHFLOW PROFILE', 'EXTENDED ECONOMIC PROFILE', 'S-DAC-GT PROFILE', 'RESERVOIR POWER REQUIRED PROFILES'):
        if not counts.get('table:' + tb[:40]):
            missing.append(tb)
    for cl in ('C09_value', 'C09_unit', 'C09_cell', 'C09_rows', 'C09_year_order', 'C09_table_unit', 'C09_text', 'C09_payback_na'):
        if not counts.get(cl):
            missing.append(cl)
    if missing:
        raise MachineryFailure(f'C09: never exercised by a real run: {missing}')
    res.cov['rule'] = ('M1: every accepted (end-use, plant, add-ons, S-DAC-GT, overpressure, L, Cy, tsy) up to the cfg bounds; '
                       'M3: seeded configurations over all reservoir models x end-uses x plants x economic models, lifetimes, 1..14 '
                       'construction years, 1..12 time steps per year, inputs in foreign units, add-ons, S-DAC-GT, overpressure, examples; '
                       'distinct = input tag; every labelled figure ReportDef.tla knows and every cell of every profile table is compared')
    res.assumptions += ['the lexical reader harness/report.py + c09.lex_* is trusted', 'precision is read from the printed token',
                        'tolerance: half a unit in the last printed place + 1e-9 relative',
                        'lines ReportDef.tla does not know (SUTRA / AGS specific, Calculation Time) are counted as unexplained, not judged',
                        '"Adjusted Project LCOE/LCOH (after ... AddOns)" is compared with the main economics value it prints (see DESIGN.md)']
    return res.finish()


def replay(path: str) -> int:
    data = json.loads(open(path).read())
    res = Result('C09', 'quick')
    rp = data['replay']
    validate(res, sim.run_many([('replay', rp['input_text'])], 'harness.c09:project', keep_report=True))
    return res.finish()
