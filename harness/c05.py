"""C05 — resource temperature and thermal drawdown obey the model definition.

M1  Resource.tla: (a) the layer walk of Reservoir.Calculate as a loop machine against the integral definition (all
    orderings of depth, layer boundaries and the Tmax crossing for 1..3/4 segments), (b) redrilling by tiling.
M2  every layout TLC dumps is run through the real reader + Reservoir.Calculate (values written in the units the
    reader expects) and Trock / capped depth compared.
M3  reservoir / well-bore snapshots of real runs (models 1-4, 1..4 segments, drawdown limits down to 0.5 %) validated
    by TraceResource.tla (bht, depth cap, tmax, start, limit, restart; upper/monotone for models 3 and 4).
"""
from __future__ import annotations

import json
import random
from fractions import Fraction

from . import gen, sim, tlc
from .common import MachineryFailure, Result, rat, rats, seed

MODELS = {'MULTIPLE_PARALLEL_FRACTURES': 'MPF', 'LINEAR_HEAT_SWEEP': 'LHS', 'SINGLE_FRACTURE': 'SF', 'ANNUAL_PERCENTAGE': 'TDP'}


def _lst(x):
    try:
        return [float(v) for v in x]
    except TypeError:
        return []


COLD = None      # declared segment defaults read from a Model built before this process (or its parent) ran anything


def cold_defaults():
    global COLD
    if COLD is None:
        from .c07 import build
        m = build('Print Output to Console, 0\n', read=False)
        COLD = {'g': [float(x) for x in m.reserv.gradient.DefaultValue], 'th': [float(x) for x in m.reserv.layerthickness.DefaultValue]}
    return COLD


def project(stage, model, ctx):
    r = model.reserv
    if stage == 'params_read':
        ctx['depth0'] = float(r.depth.quantity().to('m').magnitude)
        # segment slots the input leaves to the declared defaults (list-style `Gradients, ...` / `Thicknesses, ...` lines set them all)
        given = set(model.InputParameters.keys())
        ctx['omitted'] = {'g': [] if 'Gradients' in given else [k for k in range(1, 5) if f'Gradient {k}' not in given],
                          'th': [] if 'Thicknesses' in given else [k for k in range(1, 5) if f'Thickness {k}' not in given]}
        return
    if stage == 'reservoir_calculated':
        fam = type(r).__name__
        if fam in ('SUTRAReservoir', 'SBTReservoir', 'CylindricalReservoir', 'UPPReservoir', 'TOUGH2Reservoir'):
            ctx['c05_unexplained'] = fam
            return
        n = int(r.numseg.value)
        g = [float(x) for x in list(r.gradient.value)[:n]]
        th = [float(x) for x in list(r.layerthickness.value)[:n]]
        ctx['c05'] = {'n': n, 'g': rats(g), 'th': rats(th), 'ts': rat(r.Tsurf.value), 'tmax': rat(r.Tmax.value),
                      'depth0': rat(ctx.get('depth0')), 'depth': rat(float(r.depth.quantity().to('m').magnitude)),
                      'trock': rat(r.Trock.value), 'tinj': rat(model.wellbores.Tinj.value),
                      'model': MODELS.get(getattr(r.resoption.value, 'name', ''), str(getattr(r.resoption.value, 'name', 'other')))}
        # a slot the input leaves alone holds the declared default (whatever this process ran before)
        cold, om = COLD or {}, ctx.get('omitted', {})
        dflt = []
        if cold:
            for k in om.get('g', []):
                if k <= n and k <= len(cold['g']):
                    dflt.append({'slot': f'Gradient {k}', 'got': rat(g[k - 1]), 'want': rat(max(cold['g'][k - 1], 1e-6))})      # (the reader floors a gradient at 1e-6 degC/m)
            # (thicknesses are rescaled km -> m by the reader, also the defaults: only the gradients are compared as declared)
        ctx['c05']['dflt'] = dflt
    if stage == 'wellbores_calculated' and 'c05' in ctx:
        w = model.wellbores
        ctx['c05'].update(tres=rats(_lst(r.Tresoutput.value)), tprod=rats(_lst(w.ProducedTemperature.value)),
                          dd=rat(w.maxdrawdown.value), redrill=int(w.redrill.value))


def m2_jobs(vectors: list, tier: str) -> list:
    """TLC layouts (abstract units) -> concrete inputs: gradient unit = 10 degC/km, thickness/depth unit = 1 km, temperatures x 10."""
    rng = random.Random(seed() + 5)
    if tier == 'quick':
        rng.shuffle(vectors)
        vectors = vectors[:400]
    jobs = []
    for k, vec in enumerate(vectors):
        p = {'Reservoir Model': 4, 'Drawdown Parameter': 0.003, 'Number of Segments': vec['n'], 'End-Use Option': 2, 'Power Plant Type': 9,
             'Plant Lifetime': 3, 'Time steps per year': 2, 'Print Output to Console': 0, 'Injection Temperature': 20,
             'Reservoir Depth': float(Fraction(vec['depth0'])), 'Maximum Temperature': float(Fraction(vec['tmax'])) * 10,
             'Surface Temperature': float(Fraction(vec['ts'])) * 10 - 90}   # ts = 10 -> 10 degC
        # abstract T = 10 + sum(g*dz); concrete: Tsurf 10, gradient g*10 degC/km => T_concrete = 10 + 10*(T_abs - 10)
        for j in range(vec['n']):
            p[f'Gradient {j + 1}'] = float(Fraction(vec['g'][j])) * 10
            if j < vec['n'] - 1:
                p[f'Thickness {j + 1}'] = float(Fraction(vec['th'][j]))
        p['Maximum Temperature'] = 10 + 10 * (float(Fraction(vec['tmax'])) - 10)
        jobs.append((f'm2#{k}', gen.to_text(p), vec))
    return jobs


def build_jobs(tier: str) -> list:
    rng = random.Random(seed() * 5 + 55)
    n = 160 if tier == 'quick' else 1400
    jobs = []
    models = (4, 3, 4, 3, 4, 3, 4, 3, 1, 2) if tier == 'quick' else (4, 3, 4, 3, 1, 2)
    for k, (tag, text, p) in enumerate(gen.grid(seed() * 31 + 5, n, resmodels=models, with_extras=False, enduses=[1, 2, 31, 52])):
        q = dict(p)
        if rng.random() < 0.6:
            nseg = rng.choice([2, 3, 4])
            gen.add_segments(q, rng, nseg)
            if rng.random() < 0.5:   # make the cap bind, possibly in a deeper segment
                q['Maximum Temperature'] = gen.fmt(rng.uniform(120, 260))
                q['Reservoir Depth'] = gen.fmt(rng.uniform(3, 9))
        elif rng.random() < 0.4:
            q['Maximum Temperature'] = gen.fmt(rng.uniform(100, 250))
        if rng.random() < 0.5:
            q['Maximum Drawdown'] = gen.fmt(rng.choice([0.005, 0.01, 0.03, 0.1, 0.3]))
            if q['Reservoir Model'] == 4:
                q['Drawdown Parameter'] = gen.fmt(rng.uniform(0.003, 0.05))
            elif q['Reservoir Model'] == 3:
                q['Drawdown Parameter'] = gen.fmt(rng.uniform(1e-4, 5e-4))
        q['Plant Lifetime'] = rng.choice([3, 10, 20, 30, 40])
        if k % 8 == 3 and q['Reservoir Model'] in (4, 3):
            # drawdown strong enough to pass the injection temperature before the end of the life, and no redrilling allowed:
            # the history must keep falling (nothing resets it)
            L = rng.choice([10, 20, 30, 40])
            q['Plant Lifetime'] = L
            q['Maximum Drawdown'] = 1
            q['Drawdown Parameter'] = gen.fmt(min(0.2, rng.uniform(1.05, 2.5) / L)) if q['Reservoir Model'] == 4 else gen.fmt(rng.uniform(2e-3, 8e-3))
            tag += '+overdrawn'
        jobs.append((tag, gen.to_text(q)))
    for name, text in sim.example_inputs().items():
        if name.startswith(('Beckers', 'example6', 'example7', 'MC_', 'SUTRA', 'example_SBT', 'Wanju')):
            continue
        jobs.append((f'example:{name}', text))
    # the accepted regime "bottom-hole temperature at or below the injection temperature" (known finding)
    for k in range(4 if tier == 'quick' else 20):
        p = gen.base(rng, rng.choice([4, 3]), 2, 9, 2, lifetime=10, steps=2)
        p.update({'Reservoir Depth': gen.fmt(rng.uniform(1.0, 1.8)), 'Gradient 1': gen.fmt(rng.uniform(20, 28)), 'Injection Temperature': 70,
                  'Surface Temperature': 10, 'Maximum Drawdown': 1})
        jobs.append((f'cold{k}:rm{p["Reservoir Model"]}', gen.to_text(p)))
    # inputs that leave segment slots to the declared defaults; they come last, so every worker has run other inputs before them
    for k in range(12 if tier == 'quick' else 60):
        p = gen.base(rng, 4, 2, 9, 2, lifetime=3, steps=2)
        mode = k % 3
        if mode == 0:
            p.pop('Gradient 1', None)
        elif mode == 1:
            p['Number of Segments'] = 2
            p['Thickness 1'] = gen.fmt(rng.uniform(0.5, 1.5))
        else:
            p['Number of Segments'] = 3
            p['Gradient 2'] = gen.fmt(rng.uniform(30, 60))
            p['Gradient 3'] = gen.fmt(rng.uniform(30, 60))
            p['Thickness 1'] = gen.fmt(rng.uniform(0.5, 1.0))
        jobs.append((f'declared-defaults#{k}', gen.to_text(p)))
    return jobs


def validate(res: Result, out: list) -> dict:
    traces, meta = [], {}
    for o in out:
        if o['status'] == 'machinery':
            raise MachineryFailure(o['error'] + '\n' + o.get('error_tb', ''))
        t = o.get('c05')
        if not t or 'tprod' not in t:
            res.count('rejected_inputs' if o['status'] != 'ok' else 'unexplained_family')
            continue
        t = dict(t)
        t['tid'] = len(traces) + 1
        traces.append(t)
        meta[t['tid']] = o
    verdicts, ds, gs = tlc.validate_traces('TraceResource', 'TraceResource.cfg', traces)
    res.states += ds
    res.transitions += gs
    res.traces += len(traces)
    counts = {}
    for t in traces:
        vd = verdicts[t['tid']]
        o = meta[t['tid']]
        res.case(o['tag'])
        counts[f"model:{t['model']}"] = counts.get(f"model:{t['model']}", 0) + 1
        counts[f"segments:{t['n']}"] = counts.get(f"segments:{t['n']}", 0) + 1
        if t['redrill'] > 0:
            counts['redrilled'] = counts.get('redrilled', 0) + 1
        if Fraction(t['depth']) < Fraction(t['depth0']):
            counts['depth_capped'] = counts.get('depth_capped', 0) + 1
        cold = Fraction(t['trock']) <= Fraction(t['tinj'])
        for c in vd['e']:
            counts[c] = counts.get(c, 0) + 1
        for c in vd['f']:
            wit = [w for w in vd['w'] if w.get('clause') == c][:1]
            key = {'clause': c, 'input': o['tag']}
            if c in ('C05_upper', 'C05_monotone'):
                key = {'clause': c, 'regime': 'Trock<=Tinj' if cold else 'Trock>Tinj', 'input': o['tag']}
            res.violation(key, f'{c} fails on {o["tag"]} (model {t["model"]}, {t["n"]} segments): {json.dumps(wit)[:300]}',
                          {'input_text': o['input'], 'verdict': {k_: v_ for k_, v_ in vd.items() if k_ != 'w'}, 'witness': wit,
                           'trock': t['trock'], 'tinj': t['tinj']})
    res.cov['classes_and_clauses'] = counts
    if traces:
        t0 = traces[len(traces) // 2]
        res.sample({'m3_trace': {k_: (v_[:3] + ['...'] if isinstance(v_, list) and len(v_) > 3 else v_) for k_, v_ in t0.items()}})
    return counts


def run(tier: str) -> int:
    res = Result('C05', tier)
    cold_defaults()      # in the parent, before anything ran: the forked workers inherit the cold values
    cfg = f'MC_Resource_walk_{tier}.cfg'
    r = tlc.run_tlc('Resource', cfg, workers=1, timeout=1800)
    tlc.check_mc(r, cfg, ['IntersectLayer', 'FindLayer', 'CapDepth', 'BottomHole', 'FindDrawdown'])
    if r['violated']:
        raise MachineryFailure(f'Resource.tla violates {r["violated"]}')
    res.add_mc(r, cfg)
    rt = tlc.run_tlc('Resource', 'MC_Resource_tile.cfg', workers=4, timeout=2400)
    tlc.check_mc(rt, 'MC_Resource_tile.cfg', ['FindDrawdown'])
    if rt['violated']:
        raise MachineryFailure(f'Resource.tla (tiling) violates {rt["violated"]}')
    res.add_mc(rt, 'MC_Resource_tile.cfg')
    vectors = [p for p in r['prints'] if isinstance(p, dict) and 'trock' in p]
    m2 = m2_jobs(vectors, tier)
    out2 = sim.run_many([(t, x) for t, x, _ in m2], 'harness.c05:project')
    bad = 0
    for (tag, text, vec), o in zip(m2, out2):
        res.count('m2_layouts_replayed')
        t = o.get('c05')
        if not t:
            res.count('m2_layouts_rejected')
            continue
        want_t = 10 + 10 * (Fraction(vec['trock']) - 10)
        want_d = Fraction(vec['depth']) * 1000
        got_t, got_d = Fraction(t['trock']), Fraction(t['depth'])
        if abs(got_t - want_t) > Fraction(1, 10 ** 7) * max(abs(want_t), 1) or abs(got_d - want_d) > Fraction(1, 10 ** 7) * max(want_d, 1):
            bad += 1
            if bad <= 15:
                res.violation({'clause': 'C05_bht_m2', 'layout': json.dumps({k: vec[k] for k in ('n', 'g', 'th', 'depth0', 'tmax')})},
                              f'Reservoir.Calculate differs from Resource.tla on layout {vec}: Trock {float(got_t)} vs {float(want_t)}, depth {float(got_d)} vs {float(want_d)}',
                              {'input_text': text, 'vector': vec})
    res.count('m2_mismatches', bad)
    if m2:
        res.sample({'m2_layout': m2[0][2], 'as_input': m2[0][1]})
    jobs_ = build_jobs(tier)
    # each of a seeded choice of the jobs once more, followed in the same process by neighbours that restate ONE of its figures: a value
    # kept from one run for the next (a memo keyed by too few arguments, a mutated default) shows in the neighbour's own trace
    chains = sim.neighbour_chains(jobs_, 10 if tier == 'quick' else 60, 3, seed() * 101 + 5, prefer=('Reservoir Depth', 'Gradient 1', 'Maximum Temperature', 'Drawdown Parameter', 'Maximum Drawdown', 'Surface Temperature', 'Injection Temperature', 'Production Flow Rate per Well'))
    out = sim.run_many(jobs_, 'harness.c05:project') + sim.run_chains(chains, 'harness.c05:project')
    counts = validate(res, out)
    for need in ('C05_bht', 'C05_depth_cap', 'C05_tmax', 'C05_start', 'C05_limit', 'C05_restart', 'C05_upper', 'C05_monotone', 'model:MPF',
                 'model:LHS', 'model:SF', 'model:TDP', 'segments:2', 'segments:3', 'segments:4', 'redrilled', 'depth_capped'):
        if not counts.get(need):
            raise MachineryFailure(f'C05: {need} never exercised')
    res.cov['rule'] = ('M1: all layouts of the cfg (walk) and all profiles x limits (tiling); M2: TLC layouts through the real reader and '
                       'Reservoir.Calculate (quick 400 sampled); M3: seeded runs over models 1-4, 1-4 segments, binding caps, drawdown limits; '
                       'distinct = input tag')
    res.assumptions += ['clauses compare in the units the model holds after reading (degC/m, m)', 'upper/monotone clauses only for models 3 and 4',
                        'the analytical drawdown solutions themselves (Laplace inversion, erf) are not recomputed']
    return res.finish()


def replay(path: str) -> int:
    data = json.loads(open(path).read())
    res = Result('C05', 'quick')
    rp = data['replay']
    if 'input_text' in rp:
        validate(res, sim.run_many([('replay', rp['input_text'])], 'harness.c05:project'))
    return res.finish()
