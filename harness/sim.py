"""Driving the real simulator in-process through GEOPHIRESv3.main() with the verification hooks on.

`run_input` executes one input text exactly the way the CLI does (main() with sys.argv = ['', in, out]) and calls
`projector(stage, model, ctx)` at every hook stage plus after each module's Calculate (the observer wraps the four
instance Calculate methods at 'params_read', so the unmodified Model.Calculate drives them).
`run_many` fans a list of jobs out over a process pool.
"""
from __future__ import annotations

import contextlib
import importlib
import json
import io
import logging
import multiprocessing as mp
import os
import shutil
import sys
import tempfile
import traceback
from pathlib import Path

from .common import REPO, bind_repo

MODULE_STAGES = (('reserv', 'reservoir_calculated'), ('wellbores', 'wellbores_calculated'),
                 ('surfaceplant', 'surfaceplant_calculated'), ('economics', 'economics_calculated'))


def _wrap_calculates(model, fire):
    for attr, stage in MODULE_STAGES:
        obj = getattr(model, attr, None)
        if obj is None:
            continue
        orig = obj.Calculate  # bound method

        def wrapped(m, _orig=orig, _stage=stage):
            r = _orig(m)
            fire(_stage, m)
            return r

        obj.Calculate = wrapped  # instance attribute shadows the class method


def run_input(text: str, projector, tag: str = '', keep_report: bool = True, workdir: str | None = None) -> dict:
    """Run one input through main(); returns ctx with 'status' in {'ok', 'rejected'}, 'error', 'stages', 'report'."""
    bind_repo()
    from geophires_x import _verif_hook
    import geophires_x.GEOPHIRESv3 as g3

    tmp = Path(workdir or tempfile.mkdtemp(prefix='vrun_', dir=os.environ.get('VERIF_TMP', '/dev/shm' if os.path.isdir('/dev/shm') else None)))
    inp = tmp / 'in.txt'
    out = tmp / 'out.out'
    inp.write_text(text)
    ctx = {'tag': tag, 'stages': [], 'status': 'ok', 'error': None}
    counts = {}

    def fire(stage, model, **kw):
        counts[stage] = counts.get(stage, 0) + 1
        ctx['stages'].append(stage)
        if stage == 'params_read':
            _wrap_calculates(model, fire)
        if projector is not None:
            projector(stage, model, ctx)

    cwd0 = os.getcwd()
    argv0 = list(sys.argv)
    _verif_hook.register(fire)
    logging.disable(logging.CRITICAL)
    sink = io.StringIO()
    try:
        sys.argv = ['', str(inp), str(out)]
        with contextlib.redirect_stdout(sink), contextlib.redirect_stderr(sink):
            g3.main(enable_geophires_logging_config=False)
        if keep_report and out.exists():
            ctx['report'] = out.read_text()
        js = tmp / 'out.json'
        if js.exists():
            ctx['json_path_exists'] = True
            if keep_report:
                ctx['json_text'] = js.read_text()
    except SystemExit as e:  # the simulator refuses some inputs with sys.exit()
        ctx['status'] = 'rejected'
        ctx['error'] = f'SystemExit({e.code})'
    except BaseException as e:  # noqa: BLE001  (the code under test may raise anything)
        ctx['status'] = 'rejected'
        ctx['error'] = f'{type(e).__name__}: {e}'
        ctx['error_tb'] = traceback.format_exc()[-1500:]
    finally:
        _verif_hook.unregister(fire)
        sys.argv = argv0
        os.chdir(cwd0)
        logging.disable(logging.NOTSET)
        ctx['stdout_tail'] = sink.getvalue()[-300:]
        ctx['report_exists'] = out.exists() and out.stat().st_size > 0
        ctx['json_exists'] = (tmp / 'out.json').exists()
        if workdir is None:
            shutil.rmtree(tmp, ignore_errors=True)
    return ctx


class _Timeout(BaseException):
    pass


def _alarm(signum, frame):
    raise _Timeout()


JOB_TIMEOUT_S = int(os.environ.get('VERIF_JOB_TIMEOUT', '240'))


def _job(args):
    import signal
    text, projector_ref, tag = args
    modname, fn = projector_ref.split(':')
    projector = getattr(importlib.import_module(modname), fn)
    signal.signal(signal.SIGALRM, _alarm)
    signal.alarm(JOB_TIMEOUT_S)      # a generated input may send the simulator into a very long loop: treated as rejected
    try:
        ctx = run_input(text, projector, tag)
    except _Timeout:
        ctx = {'tag': tag, 'status': 'rejected', 'error': f'timeout after {JOB_TIMEOUT_S}s', 'stages': []}
    except BaseException as e:  # noqa: BLE001
        ctx = {'tag': tag, 'status': 'machinery', 'error': f'{type(e).__name__}: {e}', 'error_tb': traceback.format_exc()[-3000:],
               'stages': []}
    finally:
        signal.alarm(0)
    ctx['input'] = text
    return ctx


_STATE = None      # shared per-item state (0 waiting, 1 running, 2 finished); inherited by the forked workers


def _tracked(arg):
    fn, i, item = arg
    _STATE[i] = 1
    r = fn(item)
    _STATE[i] = 2
    return r


def _robust_map(fn, items: list, procs: int) -> list:
    """pool.map that survives a worker dying under it (a segfault or the OOM killer inside the code under test): multiprocessing.Pool
    would then wait for the lost task for ever.  Each worker marks the item it is working on in shared memory; when the pool breaks, the
    items that were running are re-tried one by one in a process of their own (an item that kills that process too yields None: the
    caller records the run as refused) and the rest goes to a fresh pool."""
    global _STATE
    import concurrent.futures as cf
    from concurrent.futures.process import BrokenProcessPool
    ctxm = mp.get_context('fork')
    results = [None] * len(items)
    done = set()
    pending = list(range(len(items)))
    while pending:
        _STATE = ctxm.Array('b', len(items), lock=False)
        ex = cf.ProcessPoolExecutor(max_workers=max(1, min(procs, len(pending))), mp_context=ctxm)
        futs = {ex.submit(_tracked, (fn, i, items[i])): i for i in pending}
        broke = False
        try:
            for f in cf.as_completed(futs):
                i = futs[f]
                try:
                    results[i] = f.result()
                    done.add(i)
                except BrokenProcessPool:
                    broke = True
                    break
        finally:
            ex.shutdown(wait=False, cancel_futures=True)
        if broke:
            for f, i in futs.items():       # results that arrived before the break
                if i not in done and f.done() and not f.cancelled() and f.exception() is None:
                    results[i] = f.result()
                    done.add(i)
            suspects = [i for i in pending if i not in done and _STATE[i] == 1]
            for i in suspects:
                one = cf.ProcessPoolExecutor(max_workers=1, mp_context=ctxm)
                try:
                    results[i] = one.submit(_tracked, (fn, i, items[i])).result()
                except BrokenProcessPool:
                    results[i] = None
                finally:
                    one.shutdown(wait=False, cancel_futures=True)
                done.add(i)
            if not suspects:      # nothing was marked as running: make progress anyway
                i = next(k for k in pending if k not in done)
                results[i] = None
                done.add(i)
        pending = [i for i in pending if i not in done]
    return results


def run_many(jobs: list, projector_ref: str, procs: int = 16, keep_report: bool = False) -> list:
    """jobs: list of (tag, input text).  projector_ref: 'package.module:function' importable in the workers."""
    if not jobs:
        return []
    rf = os.environ.get('VERIF_REPLAY_FILE')
    if rf and len(jobs) == 1 and jobs[0][0] == 'replay':
        # a replay of a run that was judged after its neighbours in one process: the same history again, the last member is the case
        try:
            hist = (json.loads(open(rf).read()).get('replay') or {}).get('history')
        except Exception:  # noqa: BLE001
            hist = None
        if hist and isinstance(hist, list) and all(isinstance(h, list) and len(h) == 2 for h in hist):
            return run_chains([[tuple(h) for h in hist] + [jobs[0]]], projector_ref, procs, keep_report)[-1:]
    args = [(text, projector_ref, tag) for tag, text in jobs]
    res = _robust_map(_job, args, procs)
    for k, r in enumerate(res):
        if r is None:      # the run killed its worker process twice: a crash of the code under test on this input
            res[k] = {'tag': args[k][2], 'status': 'rejected', 'error': 'worker process died (crash inside the simulator)', 'stages': [], 'input': args[k][0]}
    if not keep_report:
        for r in res:
            r.pop('report', None)
            r.pop('json_text', None)
    return res


def _job_chain(args):
    jobs, projector_ref = args
    return [_job((text, projector_ref, tag)) for tag, text in jobs]


def run_chains(chains: list, projector_ref: str, procs: int = 16, keep_report: bool = False) -> list:
    """chains: list of lists of (tag, input text).  The members of a chain run one after the other in ONE process (a pool worker that
    has typically served other chains before): whatever a run leaves behind in the process - a memo keyed by too few of its arguments,
    a mutated default, a module-level table - is there for the next member, whose trace is then judged against its own input like any
    other.  Returns the flat list of results in chain order."""
    if not chains:
        return []
    for c in chains:
        for k, (tg, tx) in enumerate(c):
            if k:
                HISTORY[tx] = [list(x) for x in c[:k]]
    res = _robust_map(_job_chain, [(list(c), projector_ref) for c in chains], procs)
    flat = []
    for c, r in zip(chains, res):
        if r is None:
            r = [{'tag': tag, 'status': 'rejected', 'error': 'worker process died (crash inside the simulator)', 'stages': [], 'input': text}
                 for tag, text in c]
        flat.extend(r)
    if not keep_report:
        for r in flat:
            r.pop('report', None)
            r.pop('json_text', None)
    return flat


HISTORY = {}       # input text -> the (tag, text) members that ran before it in its chain (parent process; read by Result.violation)

STRUCTURAL = ('Reservoir Model', 'End-Use Option', 'Power Plant Type', 'Economic Model', 'Number of Segments', 'Well Drilling Cost Correlation',
              'Injection Well Drilling Cost Correlation', 'Reservoir Volume Option', 'Fracture Shape', 'Print Output to Console', 'Time steps per year',
              'Do ', 'Is ', 'AddOn', 'District Heating Demand', 'Wellbore', 'Plant Outlet Pressure', 'Production Wellhead Pressure',
              'Number of Multilateral', 'Well Geometry', 'Cylindrical', 'SBT', 'Total Nonvertical Length', 'Units:')


def neighbour_chains(jobs: list, nbases: int, k: int, seed_: int, prefer: tuple = ()) -> list:
    """For a seeded choice of `nbases` of the jobs (tag, text): a chain [the job, k neighbours], each neighbour being the job's text with
    ONE figure it states itself restated 10 % lower or higher (a later line governs).  `prefer`: names varied first when stated."""
    import random
    rng = random.Random(seed_)
    pool = [j for j in jobs if '\n' in j[1] and not j[0].startswith('example')]      # (generated configurations: an example can take a minute, a chain runs it four times)
    chains = []
    for tag, text in rng.sample(pool, min(nbases, len(pool))):
        stated = []
        for ln in text.splitlines():
            parts = [x.strip() for x in ln.split(',')]
            if len(parts) < 2 or not parts[0] or parts[0].startswith(('#', '-', '*')) or any(parts[0].startswith(x) for x in STRUCTURAL):
                continue
            try:
                x = float(parts[1])
            except ValueError:
                continue
            if x != 0 and x != -1 and parts[0] not in [n for n, _ in stated]:
                stated.append((parts[0], x))
        first = [nv for nv in stated if nv[0] in prefer]
        rest = [nv for nv in stated if nv[0] not in prefer]
        rng.shuffle(first)
        rng.shuffle(rest)
        chain = [(f'chain:{tag}', text)]
        for name, x in (first + rest)[:k]:
            new = repr(x * rng.choice([0.9, 1.1])) if not float(x).is_integer() or abs(x) > 50 else repr(x * rng.choice([0.9, 1.1]))
            if name in ('Plant Lifetime', 'Construction Years') or name.startswith('Number of'):
                new = str(int(x) + 1)
            chain.append((f'chain:{tag}~{name}', text.rstrip('\n') + f'\n{name}, {new}\n'))
        if len(chain) > 1:
            chains.append(chain)
    return chains


def call_in_pool(fn_ref: str, items: list, procs: int = 16, fresh: bool = False) -> list:
    """Generic fan-out: fn_ref = 'module:function' applied to each item in worker processes.  With `fresh` every item runs in a
    process of its own (forked from a worker that never runs an item itself): nothing an earlier item left behind can show."""
    if not items:
        return []
    res = _robust_map(_call_fresh if fresh else _call, [(fn_ref, it) for it in items], procs)
    if any(r is None for r in res):
        from .common import MachineryFailure
        raise MachineryFailure(f'{fn_ref}: a worker process died twice on the same item')
    return res


def _call(a):
    fn_ref, item = a
    modname, fn = fn_ref.split(':')
    return getattr(importlib.import_module(modname), fn)(item)


def _call_fresh(a):
    import pickle
    r, w = os.pipe()
    pid = os.fork()
    if pid == 0:
        status = 1
        try:
            os.close(r)
            try:
                res = ('ok', _call(a))
            except BaseException as ex:  # noqa: BLE001
                res = ('err', f'{type(ex).__name__}: {ex}\n{traceback.format_exc()[-1500:]}')
            with os.fdopen(w, 'wb') as f:
                pickle.dump(res, f)
            status = 0
        finally:
            os._exit(status)
    os.close(w)
    with os.fdopen(r, 'rb') as f:
        data = f.read()
    os.waitpid(pid, 0)
    if not data:
        raise RuntimeError(f'{a[0]}: the process running the item died without a result')
    kind, val = pickle.loads(data)
    if kind == 'err':
        raise RuntimeError(val)
    return val


def example_inputs() -> dict:
    """All tests/examples/*.txt of the tree under test (name -> text)."""
    d = REPO / 'tests' / 'examples'
    return {p.stem: p.read_text() for p in sorted(d.glob('*.txt'))}
