"""C07 — out-of-range and invalid inputs are rejected, never silently altered.

M1  ReadParam.tla: the ReadParameter decision table over every small (kind, min, max, default, working value, input).
M3  exhaustive and finite: for every float/int parameter of every configuration family x {just below min, min, max,
    just above max, non-member option, unit-suffixed value converting out of range}: the real Model() +
    read_parameters is run on the family's base input plus that one line; (declared domain, input, outcome,
    resulting value, error text) is validated against the spec by TraceReadParam.tla.  A seeded subset is also pushed
    end-to-end through the client (RuntimeError naming the parameter, no report written).
"""
from __future__ import annotations

import contextlib
import io
import json
import logging
import math
import os
import random
import shutil
import sys
import tempfile
from fractions import Fraction
from pathlib import Path

from . import sim, tlc
from .common import REPO, MachineryFailure, Result, bind_repo, rat, seed

FAMILIES = {
    'standard': 'example1', 'cogen': 'example3', 'heat': 'example2', 'heatpump': 'example10_HP', 'chiller': 'example11_AC',
    'district_heating': 'example12_DH', 'addons': 'example1_addons', 'sdacgt': 'S-DAC-GT', 'sbt': 'example_SBT_Lo_T',
    'sutra': 'SUTRAExample1', 'overpressure': 'example_overpressure', 'ags': 'Wanju_Yuan_Closed-Loop_Geothermal_Energy_Recovery',
    'fervo': 'Fervo_Norbeck_Latimer_2023',
}
# documented internal rescalings applied by the module readers after ReadParameter (value stored = value written x factor)
RESCALE = {'Reservoir Depth': 1000, 'Reservoir Impedance': 1000}
# ... which the SBT reservoir reader and HIP-RA-X (own readers, depth kept as written) do not apply
NO_RESCALE_FAMILIES = {('sbt', 'Reservoir Depth'), ('hip_ra_x', 'Reservoir Depth')}


def factor_of(family: str, name: str) -> int:
    return 1 if (family, name) in NO_RESCALE_FAMILIES else RESCALE.get(name, 1)

MODULES = ('reserv', 'wellbores', 'surfaceplant', 'economics', 'outputs', 'addeconomics', 'sdacgteconomics', 'addoutputs', 'sdacgtoutputs')
# (preferred unit text, alternative unit, preferred units per one alternative unit)
UNIT_ALT = {'kilometer': ('m', Fraction(1, 1000)), 'meter': ('km', Fraction(1000)), 'kPa': ('MPa', Fraction(1000)), 'degC': None}

_TMP = None


def _tmpdir():
    global _TMP
    if _TMP is None:
        _TMP = tempfile.mkdtemp(prefix='vc07_', dir='/dev/shm' if os.path.isdir('/dev/shm') else None)
    return _TMP


def fix_paths(text: str) -> str:
    """Relative data files of the shipped examples resolve against src/geophires_x (main() chdirs there): keep them."""
    return text


def build(text: str, read: bool = True):
    """Model() [+ read_parameters] exactly as main() does it, without Calculate."""
    bind_repo()
    import geophires_x.Model as M

    d = _tmpdir()
    inp = os.path.join(d, f'in_{os.getpid()}.txt')
    with open(inp, 'w') as f:
        f.write(text)
    cwd0, argv0 = os.getcwd(), list(sys.argv)
    logging.disable(logging.CRITICAL)
    sink = io.StringIO()
    try:
        sys.argv = ['', inp, os.path.join(d, f'out_{os.getpid()}.out')]
        os.chdir(str(REPO / 'src' / 'geophires_x'))
        with contextlib.redirect_stdout(sink), contextlib.redirect_stderr(sink):
            m = M.Model(enable_geophires_logging_config=False)
            if read:
                m.read_parameters(default_output_path=Path(d))
        return m
    finally:
        sys.argv = argv0
        os.chdir(cwd0)
        logging.disable(logging.NOTSET)


def build_hip(text: str, read: bool = True):
    bind_repo()
    from hip_ra_x.hip_ra_x import HIP_RA_X

    d = _tmpdir()
    inp = os.path.join(d, f'hip_{os.getpid()}.txt')
    with open(inp, 'w') as f:
        f.write(text)
    argv0 = list(sys.argv)
    logging.disable(logging.CRITICAL)
    sink = io.StringIO()
    try:
        sys.argv = ['', inp, os.path.join(d, f'hipout_{os.getpid()}.out')]
        with contextlib.redirect_stdout(sink), contextlib.redirect_stderr(sink):
            m = HIP_RA_X(enable_hip_ra_logging_config=False)
            if read:
                m.read_parameters()
        return m
    finally:
        sys.argv = argv0
        logging.disable(logging.NOTSET)


def params_of(model) -> list:
    if hasattr(model, 'ParameterDict') and not hasattr(model, 'reserv'):
        return [('hip_ra_x', p) for p in model.ParameterDict.values()]
    out = []
    for mod in MODULES:
        o = getattr(model, mod, None)
        if o is not None and hasattr(o, 'ParameterDict'):
            out += [(mod, p) for p in o.ParameterDict.values()]
    return out


def num(v):
    if isinstance(v, bool):
        return int(v)
    if hasattr(v, 'int_value'):
        return v.int_value
    if hasattr(v, 'value') and not isinstance(v, (int, float)):
        try:
            return float(v.value)
        except (TypeError, ValueError):
            return None
    if isinstance(v, (int, float)):
        return v
    try:
        return float(v)
    except (TypeError, ValueError):
        return None


def declared(p) -> dict | None:
    kind = type(p).__name__
    if kind == 'floatParameter':
        return {'kind': 'float', 'lo': rat(float(p.Min)), 'hi': rat(float(p.Max)), 'allow': [], 'def': rat(float(p.DefaultValue)),
                'cur': rat(num(p.value))}
    if kind == 'intParameter':
        allow = [int(a) for a in p.AllowableRange]
        d = num(p.DefaultValue)
        return {'kind': 'int', 'lo': str(min(allow)) if allow else '0', 'hi': str(max(allow)) if allow else '0', 'allow': allow,
                'def': rat(d), 'cur': rat(num(p.value))}
    return None


def cases_for(p, decl) -> list:
    """(label, text written, value denoted in preferred units)"""
    out = []
    if decl['kind'] == 'float':
        lo, hi = float(p.Min), float(p.Max)
        pts = [('below_min', math.nextafter(lo, -math.inf)), ('min', lo), ('max', hi), ('above_max', math.nextafter(hi, math.inf))]
        for label, x in pts:
            if math.isinf(x) or math.isnan(x):
                continue
            out.append((label, repr(float(x)), rat(float(x))))
        # -1 and 0 are favourite 'not provided' markers: unless the declaration itself makes one of them the default (the documented
        # sentinel) they are ordinary out-of-range values
        dflt = float(p.DefaultValue) if isinstance(p.DefaultValue, (int, float)) else None
        if dflt is not None and lo <= dflt <= hi and math.isfinite(dflt):
            out.append(('declared_default', repr(float(dflt)), rat(float(dflt))))      # a figure equal to the default is a figure: accepted and used
        for label, x in (('minus_one', -1.0), ('zero', 0.0)):
            if x < lo and dflt != x and num(p.value) != x:      # (declared default or initial working value = the documented sentinel)
                out.append((label, repr(x) if label == 'zero' else '-1', rat(x)))
        pu = getattr(p.PreferredUnits, 'value', None)
        alt = UNIT_ALT.get(pu)
        if alt and abs(hi) < 1e12 and hi > 0:
            unit, per = alt
            written = float((Fraction(hi) * 2) / per)  # twice the maximum, expressed in the alternative unit
            out.append(('unit_above_max', f'{written!r} {unit}', rat(float(Fraction(written) * per))))
    else:
        allow = decl['allow']
        if not allow:
            return out
        lo, hi = min(allow), max(allow)
        out += [('below_min', str(lo - 1), str(lo - 1)), ('min', str(lo), str(lo)), ('max', str(hi), str(hi)),
                ('above_max', str(hi + 1), str(hi + 1))]
        sa = sorted(set(allow))
        hole = next((a + 1 for a, b in zip(sa, sa[1:]) if b - a > 1), None)  # first gap inside [min, max]
        if hole is not None:
            out.append(('non_member', str(hole), str(hole)))
    return out


def consulted_names() -> list:
    """Every literal input name the readers look up in `InputParameters` themselves (`'X' in model.InputParameters`,
    `model.InputParameters['X']`, through a local name bound to a literal as well): the candidates for names that reach a
    parameter without being its declared name."""
    import ast

    found = set()
    for f in sorted((REPO / 'src' / 'geophires_x').glob('*.py')) + sorted((REPO / 'src' / 'hip_ra_x').glob('*.py')):
        try:
            tree = ast.parse(f.read_text())
        except (OSError, SyntaxError):
            continue
        lits = {}
        for n in ast.walk(tree):
            if isinstance(n, ast.Assign) and isinstance(n.value, ast.Constant) and isinstance(n.value.value, str):
                for t in n.targets:
                    if isinstance(t, ast.Name):
                        lits[t.id] = n.value.value

        def text(e):
            if isinstance(e, ast.Constant) and isinstance(e.value, str):
                return e.value
            if isinstance(e, ast.Name):
                return lits.get(e.id)
            return None

        def is_inputs(e):
            return isinstance(e, ast.Attribute) and e.attr == 'InputParameters'

        for n in ast.walk(tree):
            if isinstance(n, ast.Compare) and len(n.ops) == 1 and isinstance(n.ops[0], (ast.In, ast.NotIn)) and is_inputs(n.comparators[0]):
                t = text(n.left)
                if t:
                    found.add(t)
            if isinstance(n, ast.Subscript) and is_inputs(n.value):
                t = text(n.slice)
                if t:
                    found.add(t)
    return sorted(found)


def _values(m) -> dict:
    return {(mod, p.Name.strip()): num(p.value) for mod, p in params_of(m) if declared(p) is not None}


def other_names(fam: str, base: str, m0, declared_names: set) -> dict:
    """{undeclared name the readers consult: (module, parameter it sets)} - found by reading `base + name, v` through the real
    reader for a few v and looking at which declared parameter took the value."""
    out = {}
    if fam == 'hip_ra_x':
        return out
    try:
        before = _values(build(base))
    except BaseException:  # noqa: BLE001
        return out
    for alias in consulted_names():
        if alias in declared_names:
            continue
        for v in ('1000', '100', '10', '1', '0.5'):
            try:
                after = _values(build(base.rstrip('\n') + f'\n{alias}, {v}\n'))
            except BaseException:  # noqa: BLE001
                continue
            hit = [k for k in after if after[k] != before.get(k) and after[k] is not None and abs(after[k] - float(v)) <= 1e-9 * abs(float(v))]
            if len(hit) == 1:
                out[alias] = hit[0]
                break
    return out


def enumerate_family(item):
    """Worker: list every (parameter, case) of one family."""
    fam, base = item
    m = build_hip(base, read=False) if fam == 'hip_ra_x' else build(base, read=False)
    seen, jobs = set(), []
    for mod, p in params_of(m):
        name = p.Name.strip()
        if name in seen:
            continue
        seen.add(name)
        decl = declared(p)
        if decl is None:
            continue
        for label, text, val in cases_for(p, decl):
            jobs.append({'family': fam, 'module': mod, 'name': name, 'label': label, 'text': text, 'v': val, 'p': decl, 'base': base})
    # the same cases under every other name the readers accept for a parameter (deprecated spellings): the declaration is the parameter's
    byname = {(mod, p.Name.strip()): p for mod, p in params_of(m)}
    for alias, (mod, name) in sorted(other_names(fam, base, m, seen).items()):
        p = byname.get((mod, name))
        decl = declared(p) if p is not None else None
        if decl is None:
            continue
        for label, text, val in cases_for(p, decl):
            jobs.append({'family': fam, 'module': mod, 'name': name, 'written': alias, 'label': f'as[{alias}]:{label}', 'text': text, 'v': val,
                         'p': decl, 'base': base})
    return jobs


def run_case(job):
    """Worker: the real read of base + one line."""
    fam, name = job['family'], job['name']
    written = job.get('written', name)
    text = job['base'].rstrip('\n') + f'\n{written}, {job["text"]}\n'
    res = {k: job[k] for k in ('family', 'module', 'name', 'label', 'text', 'v', 'p')}
    res['written'] = written
    try:
        m = build_hip(text) if fam == 'hip_ra_x' else build(text)
    except ValueError as ex:
        res.update(outcome='rejected', named=(name in str(ex) or written in str(ex)), after='undef', error=str(ex)[:200])
        return res
    except BaseException as ex:  # noqa: BLE001
        res.update(outcome='other', named=False, after='undef', error=f'{type(ex).__name__}: {str(ex)[:160]}')
        return res
    after = None
    for mod, p in params_of(m):
        if p.Name.strip() == name and mod == job['module']:
            after = num(p.value)
            break
    res.update(outcome='accepted', named=False, after=rat(after) if after is not None else 'undef', error=None)
    return res


def end_to_end(job):
    """Worker: the same case through the real client; returns (raised, names parameter, report written)."""
    bind_repo()
    from geophires_x_client import GeophiresXClient
    from geophires_x_client.geophires_input_parameters import GeophiresInputParameters

    d = tempfile.mkdtemp(prefix='vc07e_', dir='/dev/shm' if os.path.isdir('/dev/shm') else None)
    cwd0, argv0 = os.getcwd(), list(sys.argv)
    inp = Path(d, 'in.txt')
    inp.write_text(job['base'].rstrip('\n') + f'\n{job.get("written", job["name"])}, {job["text"]}\n')
    logging.disable(logging.CRITICAL)
    sink = io.StringIO()
    out = {'raised': None, 'named': False, 'report': False}
    try:
        with contextlib.redirect_stdout(sink), contextlib.redirect_stderr(sink):
            params = GeophiresInputParameters(from_file_path=inp)
            try:
                r = GeophiresXClient(enable_caching=False).get_geophires_result(params)
                out['report'] = Path(r.output_file_path).exists() and Path(r.output_file_path).stat().st_size > 0
            except RuntimeError as ex:
                out['raised'] = 'RuntimeError'
                out['named'] = any(n in str(ex) or n in sink.getvalue() for n in (job['name'], job.get('written', job['name'])))
                op = getattr(params, '_output_file_path', None) or getattr(params, 'get_output_file_path', lambda: None)()
                out['report'] = bool(op) and Path(op).exists() and Path(op).stat().st_size > 0
            except BaseException as ex:  # noqa: BLE001
                out['raised'] = type(ex).__name__
    finally:
        os.chdir(cwd0)
        sys.argv = argv0
        logging.disable(logging.NOTSET)
        shutil.rmtree(d, ignore_errors=True)
    return {**{k: job[k] for k in ('family', 'name', 'label', 'text')}, **out}


def family_bases() -> list:
    ex = sim.example_inputs()
    bases = [(fam, ex[name]) for fam, name in FAMILIES.items() if name in ex]
    hip = REPO / 'tests' / 'examples' / 'HIPexample1.txt'
    hips = sorted((REPO / 'tests').rglob('*HIP*example*.txt')) + sorted((REPO / 'tests').rglob('hip*/**/*.txt'))
    for h in [hip] + hips:
        if h.exists():
            bases.append(('hip_ra_x', h.read_text()))
            break
    return bases


def run(tier: str, only: dict | None = None) -> int:
    """`only` (replay): {'family', 'parameter', 'case', 'clause'} - judge that one enumerated case again."""
    res = Result('C07', tier)
    r = tlc.run_tlc('ReadParam', 'MC_ReadParam.cfg', workers=4)
    tlc.check_mc(r, 'MC_ReadParam.cfg', ['ReadStep'])
    if r['violated']:
        raise MachineryFailure(f'ReadParam.tla violates {r["violated"]}\n' + r['raw'][-2000:])
    res.add_mc(r, 'MC_ReadParam.cfg')
    rp = tlc.run_tlc('ReadParam', 'MC_ReadParam_pinned.cfg', workers=4)
    if rp['violated'] != 'C07_accept':
        raise MachineryFailure('pinned-design cfg (int early return on default) no longer violates C07_accept: vacuity guard')
    res.cov['pinned_design_counterexample'] = [s['vars'] for s in rp['trace'][:1]]

    bases = family_bases()
    res.cov['families'] = [b[0] for b in bases]
    jobs = [j for lst in sim.call_in_pool('harness.c07:enumerate_family', bases) for j in lst]
    if only is not None:
        jobs = [j for j in jobs if (j['family'], j['name'], j['label']) == (only['family'], only['parameter'], only['case'])]
        if not jobs:
            raise MachineryFailure(f'replay: the recorded case {only} is no longer enumerated')
    outcomes = sim.call_in_pool('harness.c07:run_case', jobs)
    traces = []
    for k, o in enumerate(outcomes):
        traces.append({'tid': k + 1, 'name': o['name'], 'text': o['text'], 'p': o['p'], 'v': o['v'], 'outcome': o['outcome'],
                       'named': bool(o['named']), 'after': o['after'], 'factor': factor_of(o['family'], o['name'])})
    verdicts, ds, gs = tlc.validate_traces('TraceReadParam', 'TraceReadParam.cfg', traces)
    res.states += ds
    res.transitions += gs
    res.traces += len(traces)
    counts, drift = {}, {}
    for t, o in zip(traces, outcomes):
        vd = verdicts[t['tid']]
        ident = f"{o['family']}:{o['name']}:{o['label']}"
        res.case(ident)
        counts[f"outcome:{o['outcome']}"] = counts.get(f"outcome:{o['outcome']}", 0) + 1
        counts[f"family:{o['family']}"] = counts.get(f"family:{o['family']}", 0) + 1
        for c in vd['e']:
            counts[c] = counts.get(c, 0) + 1
        for c in vd['f']:
            if c.startswith('fit_'):
                drift.setdefault(c, []).append(ident)
                continue
            key = {'clause': c, 'family': o['family'], 'parameter': o['name'], 'case': o['label']}
            res.violation(key, f"{c}: {o['family']} '{o['written']}, {o['text']}' -> {o['outcome']} (after={o['after']}, error={o['error']})",
                          {'family': o['family'], 'line': f"{o['written']}, {o['text']}", 'parameter': o['name'], 'declared': o['p'], 'outcome': o['outcome'],
                           'after': o['after'], 'error': o['error']})
    res.cov['clauses_and_outcomes'] = counts
    res.cov['model_drift'] = {k: v[:8] + ([f'... {len(v) - 8} more'] if len(v) > 8 else []) for k, v in drift.items()}
    res.cov['other_names_probed'] = sorted({f"{o['written']} -> {o['name']}" for o in outcomes if o['written'] != o['name']})
    res.cov['other_reason_failures'] = [f"{o['family']}:{o['name']}:{o['label']}: {o['error']}" for o in outcomes if o['outcome'] == 'other'][:30]
    # end-to-end subset through the client
    rng = random.Random(seed() + 7)
    cand = [j for j, o in zip(jobs, outcomes) if o['outcome'] == 'rejected' and j['family'] != 'hip_ra_x']
    rng.shuffle(cand)
    sub = cand[: (48 if tier == 'quick' else 600)]
    if only is not None:
        sub = [j for j in jobs if j['family'] != 'hip_ra_x'] if only.get('clause') == 'C07_no_result' else []
    e2e = sim.call_in_pool('harness.c07:end_to_end', sub)
    for o in e2e:
        res.count('end_to_end_cases')
        ident = f"e2e:{o['family']}:{o['name']}:{o['label']}"
        res.case(ident)
        if o['raised'] != 'RuntimeError' or o['report']:
            res.violation({'clause': 'C07_no_result', 'family': o['family'], 'parameter': o['name'], 'case': o['label']},
                          f"client did not refuse '{o['name']}, {o['text']}' cleanly: raised={o['raised']} report_written={o['report']}", o)
    if only is not None:
        return res.finish()
    res.sample({'case': {k: outcomes[0][k] for k in ('family', 'name', 'label', 'text', 'outcome', 'after', 'error')}, 'declared': outcomes[0]['p']})
    mid = outcomes[len(outcomes) // 2]
    res.sample({'case': {k: mid[k] for k in ('family', 'name', 'label', 'text', 'outcome', 'after', 'error')}, 'declared': mid['p']})
    if not counts.get('C07_reject') or not counts.get('C07_accept'):
        raise MachineryFailure('C07: clauses never evaluated')
    res.exhaustive = True
    res.cov['rule'] = ('every float/int parameter of every family x {below min, min, max, above max, non-member, unit-suffixed above max}; '
                       'enumerated completely in both tiers (finite); end-to-end client subset sampled by seed; distinct = family:parameter:case')
    res.assumptions += ['list parameters are out of scope ("scalar")', 'documented internal rescalings: ' + json.dumps(RESCALE),
                        'a run that fails for another reason after the reader accepted the value is counted, not judged']
    if _TMP:
        shutil.rmtree(_TMP, ignore_errors=True)
    return res.finish()


def replay(path: str) -> int:
    """Read the recorded `parameter, value` line again through the real reader (and the client for C07_no_result) and judge it."""
    key = json.loads(open(path).read())['key']
    return run('quick', {k: key.get(k) for k in ('family', 'parameter', 'case', 'clause')})
