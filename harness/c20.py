"""C20 — all entry points give the same answer.

M1  Entry.tla: entries x output-argument kinds x start directories x {ok, fail at read, fail at calculate}; OutPath
    resolution; the reachable matrix is dumped and is the test plan.
M2/M3  every cell is executed for real: `python -m geophires_x` sub-processes (guard off, as a user would run it),
    the in-process client, the run embedded in a Monte Carlo work package (1 iteration, degenerate distribution), and
    the direct pipeline; file-system delta, exit status / exception and report text are validated by TraceEntry.tla.
"""
from __future__ import annotations

import contextlib
import hashlib
import io
import json
import logging
import os
import random
import shutil
import subprocess
import sys
import tempfile
from pathlib import Path

from . import gen, mc, sim, tlc
from .c12 import digest_report
from .common import MachineryFailure, Result, bind_repo, seed, subprocess_env

FAIL_READ = 'Reservoir Depth, 9999\n'
FAIL_CALC = 'Reservoir Model, 5\nReservoir Output File Name, /nonexistent/profile.txt\n'


def json_digest(text: str | None) -> str:
    if not text:
        return 'none'
    try:
        return hashlib.sha256(json.dumps(json.loads(text), sort_keys=True).encode()).hexdigest()[:16]
    except ValueError:
        return 'unparsable'


def listing(root: Path) -> set:
    return {tuple(p.relative_to(root).parts) for p in root.rglob('*') if p.is_file()}


def cli_cell(item):
    cell, text = item
    root = Path(tempfile.mkdtemp(prefix='vc20_', dir='/dev/shm' if os.path.isdir('/dev/shm') else None))
    for d in ('d1', 'd2', 'abs', 'inp', 'd1/rel', 'd2/rel'):
        (root / d).mkdir(parents=True, exist_ok=True)
    inp = root / 'inp' / 'case.txt'
    inp.write_text(text)
    before = listing(root)
    args = [sys.executable, '-m', 'geophires_x', str(inp)]
    if cell['arg'] == 'relative':
        args.append('rel/case.out')
    elif cell['arg'] == 'absolute':
        args.append(str(root / 'abs' / 'case.out'))
    env = subprocess_env()
    env.pop('GEOPHIRES_X_VERIF', None)
    env['TMPDIR'] = str(root / 'inp')
    p = subprocess.run(args, cwd=str(root / cell['dir']), env=env, capture_output=True, text=True, timeout=900)
    created = sorted(listing(root) - before)
    # rich / HTML side outputs are not part of the property: keep report and JSON candidates only
    created = [list(c) for c in created if c[-1].endswith(('.out', '.json'))]
    out_file = next((root.joinpath(*c) for c in created if c[-1].endswith('.out')), None)
    js_file = next((root.joinpath(*c) for c in created if c[-1].endswith('.json')), None)
    rec = dict(cell, signal='ok' if p.returncode == 0 else 'exit-nonzero', created=created,
               digest=digest_report(out_file.read_text()) if out_file else 'none', json=json_digest(js_file.read_text()) if js_file else 'none',
               stderr=p.stderr[-300:])
    shutil.rmtree(root, ignore_errors=True)
    return rec


def client_cell(item):
    cell, text = item
    bind_repo()
    from geophires_x_client import GeophiresXClient
    from geophires_x_client.geophires_input_parameters import GeophiresInputParameters

    root = Path(tempfile.mkdtemp(prefix='vc20c_', dir='/dev/shm' if os.path.isdir('/dev/shm') else None))
    inp = root / 'case.txt'
    inp.write_text(text)
    cwd0, argv0 = os.getcwd(), list(sys.argv)
    logging.disable(logging.CRITICAL)
    sink = io.StringIO()
    rec = dict(cell, created=[], json='n/a')
    try:
        os.chdir(root)
        params = GeophiresInputParameters(from_file_path=inp)
        try:
            os.unlink(params.get_output_file_path())
        except OSError:
            pass
        try:
            with contextlib.redirect_stdout(sink), contextlib.redirect_stderr(sink):
                r = GeophiresXClient(enable_caching=False).get_geophires_result(params)
            rec['signal'] = 'ok'
            rec['digest'] = digest_report(Path(r.output_file_path).read_text())
            jp = Path(str(r.output_file_path).replace('.out', '.json'))
            rec['json'] = json_digest(jp.read_text()) if jp.exists() else 'none'
        except RuntimeError:
            rec['signal'] = 'raised'
            rec['digest'] = 'none'
            op = Path(params.get_output_file_path())
            if op.exists() and op.stat().st_size > 0:
                rec['created'] = [['tmp', op.name]]
    finally:
        os.chdir(cwd0)
        sys.argv = argv0
        logging.disable(logging.NOTSET)
        shutil.rmtree(root, ignore_errors=True)
    return rec


MC_OUTPUTS = ['Average Net Electricity Production', 'Electricity breakeven price', 'Total capital costs', 'Average Direct-Use Heat Production',
              'Direct-Use heat breakeven price (LCOH)', 'Project NPV', 'Average Production Temperature', 'Total operating and maintenance costs']


def mc_tokens(report: str) -> list:
    toks = []
    for o in MC_OUTPUTS:
        m = [ln for ln in report.splitlines() if f'  {o}: ' in ln]
        toks.append(m[0].split(':')[1].strip().split(' ')[0].strip() if len(m) == 1 else None)
    return toks


def mc_cell(item):
    """The embedded run: 1 iteration, degenerate uniform distribution (a, a) on a parameter the input already sets."""
    cell, text, value = item
    r = mc.run_mc('geophires', text, [('Production Flow Rate per Well', 'uniform', value, value, None)], MC_OUTPUTS, 1, 1)
    rec = dict(cell, created=[], json='n/a')
    rows = mc.parse_file(r['file'], MC_OUTPUTS)[1] if r['file'] else []
    if rows:
        rec['signal'] = 'ok'
        rec['mc_row'] = mc.parse_row(rows[0])[0]
    else:
        rec['signal'] = 'raised'
        rec['mc_row'] = []
    return rec


def run(tier: str) -> int:
    res = Result('C20', tier)
    r = tlc.run_tlc('Entry', 'MC_Entry.cfg', workers=1, coverage=True, timeout=300)
    tlc.check_mc(r, 'MC_Entry.cfg', ['RunOk', 'RunFail', 'Emit'])
    if r['violated']:
        raise MachineryFailure(f'Entry.tla violates {r["violated"]}')
    res.add_mc(r, 'MC_Entry.cfg')
    cells = [p for p in r['prints'] if isinstance(p, dict) and 'entry' in p]
    if len(cells) < 40:
        raise MachineryFailure('Entry.tla dumped too few cells')
    rng = random.Random(seed() * 20 + 20)
    ninputs = 2 if tier == 'quick' else 10
    items_cli, items_client, items_mc, direct_jobs = [], [], [], []
    texts = {}
    ex = sim.example_inputs()
    pools = [(1, 1, 4), (2, 9, 4), (31, 2, 3), (2, 6, 4), (42, 4, 4), (2, 5, 4), (1, 3, 3), (52, 1, 4), (2, 7, 4), (1, 2, 4)]
    for k in range(ninputs):
        eu, pt, rm = pools[k % len(pools)]
        p = gen.base(rng, rm, eu, pt, (k % 3) + 1, lifetime=rng.choice([5, 10, 20]), steps=2)
        gen.add_prices(p, rng)
        p['Production Flow Rate per Well'] = 47.5
        base = gen.to_text(p)
        texts[f'ok{k}'] = base
        texts[f'failread{k}'] = base + FAIL_READ
        texts[f'failcalc{k}'] = base + FAIL_CALC
    for name in (['example1'] if tier == 'quick' else ['example1', 'example2', 'example3', 'example10_HP', 'example_ITC', 'example13']):
        texts[f'ex:{name}'] = ex[name]
    idents = list(texts)
    failing = {i for i in idents if i.startswith('fail')}
    for ident in idents:
        direct_jobs.append((ident, texts[ident]))
        for c in cells:
            abstract_fail = c['input'].startswith('fail')
            if abstract_fail != (ident in failing):
                continue
            # map the model's two ok / two failing inputs onto the concrete ones
            if c['input'] in ('ok2',) and not ident.startswith('ok'):
                continue
            if c['input'] == 'fail_read' and not ident.startswith('failread'):
                continue
            if c['input'] == 'fail_calc' and not ident.startswith('failcalc'):
                continue
            cell = {'entry': c['entry'], 'arg': c['arg'], 'dir': c['dir'], 'input': ident, 'failing': ident in failing,
                    'expect_files': c['expect_files']}
            if c['entry'] == 'cli':
                items_cli.append((cell, texts[ident]))
            elif c['entry'] == 'client' and c['dir'] == 'd1':
                items_client.append((cell, texts[ident]))
            elif c['entry'] == 'mc' and c['dir'] == 'd1' and c['input'] in ('ok1', 'fail_read') and (tier == 'thorough' or ident in ('ok0', 'failread0', 'ex:example1')):
                items_mc.append((cell, texts[ident], 47.5 if not ident.startswith('ex:') else 55.0))
    direct = {o['tag']: o for o in sim.run_many(direct_jobs, 'harness.c12:project', keep_report=True)}
    refs = {}
    for ident, o in direct.items():
        if o['status'] == 'machinery':
            raise MachineryFailure(o['error'])
        refs[ident] = (digest_report(o.get('report')) if o['status'] == 'ok' else 'none', json_digest(o.get('json_text')), o)
    recs = sim.call_in_pool('harness.c20:cli_cell', items_cli) + sim.call_in_pool('harness.c20:client_cell', items_client)
    mc_recs = sim.call_in_pool('harness.c20:mc_cell', items_mc, procs=3)
    traces = []
    for ident, (dg, jd, o) in refs.items():  # the direct pipeline is itself a cell
        recs.append({'entry': 'direct', 'arg': 'none', 'dir': 'd1', 'input': ident, 'failing': ident in failing, 'expect_files': [],
                     'signal': 'ok' if o['status'] == 'ok' else 'raised', 'created': [], 'digest': dg, 'json': jd})
    for rec in mc_recs:
        # the embedded run is compared through the tokens the driver extracts (it keeps no report): same tokens as in the
        # direct pipeline's report for base + the degenerate sample
        ident = rec['input']
        want = mc_tokens(refs[ident][2].get('report') or '') if not rec['failing'] else []
        want = [t for t in want if t is not None]
        rec['digest'] = 'tokens:' + ','.join(rec['mc_row'])
        rec['ref_override'] = 'tokens:' + ','.join(want)
        recs.append(rec)
    for k, rec in enumerate(recs):
        ident = rec['input']
        t = {'tid': k + 1, 'entry': rec['entry'], 'arg': rec['arg'], 'dir': rec['dir'], 'input': ident, 'failing': bool(rec['failing']),
             'signal': rec['signal'], 'created': rec['created'], 'expect_files': rec['expect_files'], 'digest': rec['digest'],
             'json': rec['json'], 'ref': rec.get('ref_override', refs[ident][0]), 'refjson': refs[ident][1]}
        traces.append(t)
    verdicts, ds, gs = tlc.validate_traces('TraceEntry', 'TraceEntry.cfg', traces)
    res.states += ds
    res.transitions += gs
    res.traces += len(traces)
    counts = {}
    for t, rec in zip(traces, recs):
        vd = verdicts[t['tid']]
        res.case(f"{t['entry']}/{t['arg']}/{t['dir']}/{t['input']}")
        counts['entry:' + t['entry']] = counts.get('entry:' + t['entry'], 0) + 1
        for c in vd['e']:
            counts[c] = counts.get(c, 0) + 1
        for c in vd['f']:
            wit = [w for w in vd['w'] if w.get('clause') == c][:1]
            res.violation({'clause': c, 'entry': t['entry'], 'arg': t['arg'], 'input': t['input']},
                          f"{c} fails for {t['entry']}/{t['arg']}/{t['dir']} on {t['input']}: {json.dumps(wit)[:300]} {rec.get('stderr', '')[-120:]}",
                          {'cell': t, 'input_text': texts[t['input']]})
    res.cov['cells_and_clauses'] = counts
    res.sample({'cell': traces[0], 'verdict': verdicts[1]})
    res.sample({'cell': traces[len(traces) // 2]})
    for need in ('C20_same', 'C20_json_same', 'C20_where', 'C20_fail', 'entry:cli', 'entry:client', 'entry:mc', 'entry:direct'):
        if not counts.get(need):
            raise MachineryFailure(f'C20: {need} never exercised')
    res.exhaustive = False
    res.cov['rule'] = ('every cell of Entry.tla (4 entries x 3 output arguments x 2 start directories x ok / fail-at-read / fail-at-calculate) '
                       'executed for each concrete input; inputs seeded (quick 2 families + example1, thorough 10 + 6 examples); distinct = cell x input')
    res.assumptions += ['HTML / rich side outputs are ignored', 'the Monte Carlo embedded run is compared through the output tokens the driver '
                        'extracts (it does not keep the report)', 'failing inputs fail while reading or calculating (a failing report writer is not covered)']
    return res.finish()


def replay(path: str) -> int:
    print(open(path).read()[:3000])
    return 0
