"""C20 — all entry points give the same answer.

M1  Entry.tla: entries x output-argument kinds x start directories x {ok, fail at read, fail at calculate}; OutPath
    resolution; the reachable matrix is dumped and is the test plan.
M2/M3  every cell is executed for real: `python -m geophires_x` sub-processes (guard off, as a user would run it),
    the in-process client, the run embedded in a Monte Carlo work package (1 iteration, degenerate distribution), and
    the direct pipeline; file-system delta, exit status / exception and report text are validated by TraceEntry.tla.
"""
from __future__ import annotations

import contextlib
import hashlib
import io
import json
import logging
import os
import random
import shutil
import subprocess
import sys
import tempfile
from pathlib import Path

from . import gen, mc, sim, tlc
from .c12 import digest_report
from .common import REPO, MachineryFailure, Result, bind_repo, seed, subprocess_env

FAIL_READ = 'Reservoir Depth, 9999\n'
FAIL_CALC = 'Reservoir Model, 5\nReservoir Output File Name, /nonexistent/profile.txt\n'


def json_digest(text: str | None) -> str:
    if not text:
        return 'none'
    try:
        return hashlib.sha256(json.dumps(json.loads(text), sort_keys=True).encode()).hexdigest()[:16]
    except ValueError:
        return 'unparsable'


def listing(root: Path) -> set:
    return {tuple(p.relative_to(root).parts) for p in root.rglob('*') if p.is_file()}


def plant_siblings(folder: Path, text: str):
    """For every auxiliary file the input names by a relative path (`... File Name, Examples/x.txt`, resolved inside the package): put a
    file of the same relative name, with different figures, next to the input file.  No entry point may pick it up - or all must."""
    for ln in text.splitlines():
        parts = [x.strip() for x in ln.split(',')]
        if len(parts) < 2 or 'File Name' not in parts[0] or not parts[1] or os.path.isabs(parts[1]):
            continue
        packaged = REPO / 'src' / 'geophires_x' / parts[1]
        if not packaged.is_file():
            continue
        out = []
        for row in packaged.read_text().splitlines():
            cols = row.split(',')
            try:
                cols[-1] = f' {float(cols[-1]) - 19.0!r}'
            except ValueError:
                pass
            out.append(','.join(cols))
        dest = folder / parts[1]
        dest.parent.mkdir(parents=True, exist_ok=True)
        dest.write_text('\n'.join(out) + '\n')


def cli_cell(item):
    cell, text = item
    root = Path(tempfile.mkdtemp(prefix='vc20_', dir='/dev/shm' if os.path.isdir('/dev/shm') else None))
    for d in ('d1', 'd2', 'abs', 'abs.d', 'inp', 'd1/rel', 'd2/rel', 'd1/rel.v2', 'd2/rel.v2'):
        (root / d).mkdir(parents=True, exist_ok=True)
    inp = root / 'inp' / 'case.txt'
    inp.write_text(text)
    plant_siblings(inp.parent, text)
    before = listing(root)
    args = [sys.executable, '-m', 'geophires_x', str(inp)]
    if cell['arg'] == 'relative':
        args.append('rel/case.out')
    elif cell['arg'] == 'absolute':
        args.append(str(root / 'abs' / 'case.out'))
    elif cell['arg'] == 'relative_plain':
        args.append('rel.v2/case')
    elif cell['arg'] == 'absolute_plain':
        args.append(str(root / 'abs.d' / 'case'))
    elif cell['arg'] == 'relative_tilde':
        args.append('~case.out')
    elif cell['arg'] == 'relative_link':
        (root / 'kept').mkdir()
        os.symlink(os.path.join('..', '..', 'kept', 'run_0001.out'), root / cell['dir'] / 'rel' / 'latest.out')
        args.append('rel/latest.out')
    env = subprocess_env()
    env.pop('GEOPHIRES_X_VERIF', None)
    env['TMPDIR'] = str(root / 'inp')
    p = subprocess.run(args, cwd=str(root / cell['dir']), env=env, capture_output=True, text=True, timeout=2400)
    created = sorted(listing(root) - before)
    link = root / cell['dir'] / 'rel' / 'latest.out'
    if cell['arg'] == 'relative_link' and link.is_symlink() and link.exists():
        # what was written through the link is one file, reached by the requested name
        created = [c for c in created if root.joinpath(*c) == link or root.joinpath(*c).resolve() != link.resolve()]
    # rich / HTML side outputs are not part of the property: keep report and JSON candidates only
    created = [list(c) for c in created if c[-1].endswith(('.out', '.json')) or '.' not in c[-1]]
    out_file = next((root.joinpath(*c) for c in created if not c[-1].endswith('.json')), None)
    js_file = next((root.joinpath(*c) for c in created if c[-1].endswith('.json')), None)
    rec = dict(cell, signal='ok' if p.returncode == 0 else 'exit-nonzero', created=created,
               digest=digest_report(out_file.read_text()) if out_file else 'none', json=json_digest(js_file.read_text()) if js_file else 'none',
               stderr=p.stderr[-300:])
    shutil.rmtree(root, ignore_errors=True)
    return rec


SPARSE = ('Reservoir Model, 4\nReservoir Depth, 3\nEnd-Use Option, 1\nPower Plant Type, 1\nPlant Lifetime, 10\n'
          'Time steps per year, 2\nPrint Output to Console, 0\n')   # everything else is left to the declared defaults


def explicit_text(base: str) -> str:
    """Worker: `base` plus one line `name, default` for every float parameter it does not mention whose declared default lies inside
    its declared range - an input that leans on nothing implicit (whether a parameter counts as provided must not depend on the
    entry point)."""
    from .c07 import build, params_of
    import math
    m = build(base, read=False)
    named = {ln.split(',')[0].strip() for ln in base.splitlines() if ',' in ln}
    out, seen = [], set()
    for mod, p in params_of(m):
        if type(p).__name__ != 'floatParameter' or not hasattr(p, 'Name'):
            continue
        nm = p.Name.strip()
        if nm in named or nm in seen or nm.startswith(('Overpressure', 'Injection Reservoir')):
            continue        # (writing the overpressure inputs switches that whole feature on; with an impedance model the writer then dies)
        seen.add(nm)
        try:
            d, lo, hi = float(p.DefaultValue), float(p.Min), float(p.Max)
        except (TypeError, ValueError):
            continue
        if math.isfinite(d) and lo <= d <= hi:
            out.append(f'{nm}, {d!r}')
    return base.rstrip('\n') + '\n' + '\n'.join(out) + '\n'


def _prelude(texts: list):
    """A process that has already served other inputs (client calls; failures ignored)."""
    from geophires_x_client import GeophiresXClient
    from geophires_x_client.geophires_input_parameters import GeophiresInputParameters
    for k, t in enumerate(texts):
        root = Path(tempfile.mkdtemp(prefix='vc20p_', dir='/dev/shm' if os.path.isdir('/dev/shm') else None))
        cwd0, argv0 = os.getcwd(), list(sys.argv)
        try:
            (root / 'p.txt').write_text(t)
            os.chdir(root)
            with contextlib.redirect_stdout(io.StringIO()), contextlib.redirect_stderr(io.StringIO()):
                GeophiresXClient(enable_caching=False).get_geophires_result(GeophiresInputParameters(from_file_path=root / 'p.txt'))
        except BaseException:  # noqa: BLE001
            pass
        finally:
            os.chdir(cwd0)
            sys.argv = argv0
            shutil.rmtree(root, ignore_errors=True)


def direct_warm_cell(item):
    """The direct pipeline in a process that has already run the prelude inputs through the same pipeline."""
    cell, text, prelude = item
    bind_repo()
    from .c12 import project
    for t in prelude:
        sim.run_input(t, None)
    o = sim.run_input(text, project)
    return dict(cell, created=[], signal='ok' if o['status'] == 'ok' else 'raised', prelude=prelude,
                digest=digest_report(o.get('report')) if o['status'] == 'ok' else 'none', json=json_digest(o.get('json_text')))


def client_cell(item):
    cell, text = item[0], item[1]
    bind_repo()
    before = item[3] if len(item) > 3 else None        # hist = "rewritten": the same file path served this content first
    if len(item) > 2 and item[2]:
        logging.disable(logging.CRITICAL)
        _prelude(item[2])
    from geophires_x_client import GeophiresXClient
    from geophires_x_client.geophires_input_parameters import GeophiresInputParameters

    root = Path(tempfile.mkdtemp(prefix='vc20c_', dir='/dev/shm' if os.path.isdir('/dev/shm') else None))
    inp = root / 'case.txt'
    inp.write_text(text)
    plant_siblings(inp.parent, text)
    cwd0, argv0 = os.getcwd(), list(sys.argv)
    logging.disable(logging.CRITICAL)
    sink = io.StringIO()
    rec = dict(cell, created=[], json='n/a', prelude=list(item[2]) if len(item) > 2 else [], before=before)
    try:
        os.chdir(root)
        params = GeophiresInputParameters(from_file_path=inp)
        try:
            os.unlink(params.get_output_file_path())
        except OSError:
            pass
        left = None
        if before is not None:
            inp.write_text(before)
            try:
                with contextlib.redirect_stdout(sink), contextlib.redirect_stderr(sink):
                    GeophiresXClient(enable_caching=False).get_geophires_result(GeophiresInputParameters(from_file_path=inp))
            except Exception:  # noqa: BLE001
                pass
            inp.write_text(text)
            params = GeophiresInputParameters(from_file_path=inp)
            op = Path(params.get_output_file_path())
            left = op.read_bytes() if op.exists() else None      # what the earlier request left at the result path
        try:
            with contextlib.redirect_stdout(sink), contextlib.redirect_stderr(sink):
                r = GeophiresXClient(enable_caching=False).get_geophires_result(params)
            rec['signal'] = 'ok'
            rec['digest'] = digest_report(Path(r.output_file_path).read_text())
            jp = Path(str(r.output_file_path).replace('.out', '.json'))
            rec['json'] = json_digest(jp.read_text()) if jp.exists() else 'none'
        except Exception as ex:  # noqa: BLE001  (any exception is a refusal; the type is kept for the record)
            rec['exception'] = type(ex).__name__
            rec['signal'] = 'raised'
            rec['digest'] = 'none'
            op = Path(params.get_output_file_path())
            if op.exists() and op.stat().st_size > 0 and op.read_bytes() != left:
                rec['created'] = [['tmp', op.name]]
    finally:
        os.chdir(cwd0)
        sys.argv = argv0
        logging.disable(logging.NOTSET)
        shutil.rmtree(root, ignore_errors=True)
    return rec


MC_OUTPUTS = ['Average Net Electricity Production', 'Electricity breakeven price', 'Total capital costs', 'Average Direct-Use Heat Production',
              'Direct-Use heat breakeven price (LCOH)', 'Project NPV', 'Average Production Temperature', 'Total operating and maintenance costs']


def own_value(text: str, name: str):
    """The last plain number the input gives for `name` (None when it does not mention it or writes it with a unit)."""
    got = None
    for ln in text.splitlines():
        parts = [x.strip() for x in ln.split(',')]
        if len(parts) >= 2 and parts[0] == name:
            try:
                got = float(parts[1])
            except ValueError:
                got = None
    return got


def mc_tokens(report: str) -> list:
    toks = []
    for o in MC_OUTPUTS:
        m = [ln for ln in report.splitlines() if f'  {o}: ' in ln]
        toks.append(m[0].split(':')[1].strip().split(' ')[0].strip() if len(m) == 1 else None)
    return toks


def mc_cell(item):
    """The embedded run: 1 iteration, degenerate uniform distribution (a, a) on a parameter the input already sets."""
    cell, text, value = item
    r = mc.run_mc('geophires', text, [('Production Flow Rate per Well', 'uniform', value, value, None)], MC_OUTPUTS, 1, 1)
    rec = dict(cell, created=[], json='n/a')
    rows = mc.parse_file(r['file'], MC_OUTPUTS)[1] if r['file'] else []
    if rows:
        rec['signal'] = 'ok'
        rec['mc_row'] = mc.parse_row(rows[0])[0]
    else:
        rec['signal'] = 'raised'
        rec['mc_row'] = []
    return rec


def judge(res: Result, direct: dict, recs: list, mc_recs: list, texts: dict, failing: set):
    """Reference digests from the direct pipeline, one TraceEntry trace per executed cell, verdicts -> violations."""
    refs = {}
    for ident, o in direct.items():
        if o['status'] == 'machinery':
            raise MachineryFailure(o['error'])
        refs[ident] = (digest_report(o.get('report')) if o['status'] == 'ok' else 'none', json_digest(o.get('json_text')), o)
    traces = []
    for ident, (dg, jd, o) in refs.items():  # the direct pipeline is itself a cell
        recs.append({'entry': 'direct', 'arg': 'none', 'dir': 'd1', 'input': ident, 'hist': 'cold', 'failing': ident in failing, 'expect_files': [],
                     'signal': 'ok' if o['status'] == 'ok' else 'raised', 'created': [], 'digest': dg, 'json': jd})
    for rec in mc_recs:
        # the embedded run is compared through the tokens the driver extracts (it keeps no report): same tokens as in the
        # direct pipeline's report for base + the degenerate sample
        ident = rec['input']
        want = mc_tokens(refs[ident][2].get('report') or '') if not rec['failing'] else []
        want = [t for t in want if t is not None]
        rec['digest'] = 'tokens:' + ','.join(rec['mc_row'])
        rec['ref_override'] = 'tokens:' + ','.join(want)
        recs.append(rec)
    for k, rec in enumerate(recs):
        ident = rec['input']
        t = {'tid': k + 1, 'entry': rec['entry'], 'arg': rec['arg'], 'dir': rec['dir'], 'input': ident, 'hist': rec.get('hist', 'cold'), 'failing': bool(rec['failing']),
             'signal': rec['signal'], 'created': rec['created'], 'expect_files': rec['expect_files'], 'digest': rec['digest'],
             'json': rec['json'], 'ref': rec.get('ref_override', refs[ident][0]), 'refjson': refs[ident][1]}
        traces.append(t)
    verdicts, ds, gs = tlc.validate_traces('TraceEntry', 'TraceEntry.cfg', traces)
    res.states += ds
    res.transitions += gs
    res.traces += len(traces)
    counts = {}
    for t, rec in zip(traces, recs):
        vd = verdicts[t['tid']]
        res.case(f"{t['entry']}/{t['arg']}/{t['dir']}/{t['hist']}/{t['input']}")
        counts['hist:' + t['hist']] = counts.get('hist:' + t['hist'], 0) + 1
        counts['entry:' + t['entry']] = counts.get('entry:' + t['entry'], 0) + 1
        for c in vd['e']:
            counts[c] = counts.get(c, 0) + 1
        for c in vd['f']:
            wit = [w for w in vd['w'] if w.get('clause') == c][:1]
            res.violation({'clause': c, 'entry': t['entry'], 'arg': t['arg'], 'hist': t['hist'], 'input': t['input']},
                          f"{c} fails for {t['entry']}/{t['arg']}/{t['dir']}/{t['hist']} on {t['input']}: {json.dumps(wit)[:300]} {rec.get('stderr', '')[-120:]}",
                          {'cell': t, 'input_text': texts[t['input']], 'prelude': rec.get('prelude', []), 'before': rec.get('before')})
    return counts, traces, verdicts


def run(tier: str) -> int:
    res = Result('C20', tier)
    r = tlc.run_tlc('Entry', 'MC_Entry.cfg', workers=1, coverage=True, timeout=2400)
    tlc.check_mc(r, 'MC_Entry.cfg', ['RunOk', 'RunFail', 'Emit'])
    if r['violated']:
        raise MachineryFailure(f'Entry.tla violates {r["violated"]}')
    res.add_mc(r, 'MC_Entry.cfg')
    cells = [p for p in r['prints'] if isinstance(p, dict) and 'entry' in p]
    if len(cells) < 40:
        raise MachineryFailure('Entry.tla dumped too few cells')
    rng = random.Random(seed() * 20 + 20)
    ninputs = 2 if tier == 'quick' else 10
    items_cli, items_client, items_mc, items_warm, direct_jobs = [], [], [], [], []
    texts = {}
    ex = sim.example_inputs()
    pools = [(1, 1, 4), (2, 9, 4), (31, 2, 3), (2, 6, 4), (42, 4, 4), (2, 5, 4), (1, 3, 3), (52, 1, 4), (2, 7, 4), (1, 2, 4)]
    for k in range(ninputs):
        eu, pt, rm = pools[k % len(pools)]
        p = gen.base(rng, rm, eu, pt, (k % 3) + 1, lifetime=rng.choice([5, 10, 20]), steps=2)
        gen.add_prices(p, rng)
        p['Production Flow Rate per Well'] = 47.5
        base = gen.to_text(p)
        texts[f'ok{k}'] = base
        texts[f'failread{k}'] = base + FAIL_READ
        texts[f'failcalc{k}'] = base + FAIL_CALC
    # (example5 names its temperature profile by a path relative to the package)
    for name in (['example1', 'example5'] if tier == 'quick' else ['example1', 'example5', 'example2', 'example3', 'example10_HP', 'example_ITC', 'example13']):
        texts[f'ex:{name}'] = ex[name]
    # inputs that lean on the declared defaults, and the heterogeneous inputs a warmed-up process has served before them
    texts['sparse0'] = SPARSE
    texts['sparse1'] = SPARSE.replace('End-Use Option, 1', 'End-Use Option, 2').replace('Power Plant Type, 1', 'Power Plant Type, 9') + 'Reservoir Volume Option, 3\n'
    pr = gen.base(rng, 1, 31, 2, 3, lifetime=7, steps=3)
    gen.add_prices(pr, rng); gen.add_segments(pr, rng, 4); gen.add_cost_flags(pr, rng); gen.add_carbon(pr, rng); gen.add_incentives(pr, rng)
    pr.update({'Surface Temperature': 4.0, 'Ambient Temperature': 3.0, 'Utilization Factor': 0.71, 'Water Loss Fraction': 0.09,
               'Number of Production Wells': 4, 'Number of Injection Wells': 3, 'Maximum Temperature': 310})
    rich = [gen.to_text(pr), ex['example_multiple_gradients'], ex['example3'], texts['failread0']]
    # inputs that spell out every in-range default (kept only if the simulator accepts them)
    cand = {f'explicit{k}': t for k, t in enumerate(sim.call_in_pool('harness.c20:explicit_text', [texts['ok0'], texts['sparse1']], procs=2))}
    for o in sim.run_many(list(cand.items()), 'harness.c12:project'):
        if o['status'] == 'ok':
            texts[o['tag']] = cand[o['tag']]
        else:
            res.count('explicit_default_inputs_refused')
    idents = list(texts)
    failing = {i for i in idents if i.startswith('fail')}
    for ident in idents:
        direct_jobs.append((ident, texts[ident]))
        for c in cells:
            abstract_fail = c['input'].startswith('fail')
            if abstract_fail != (ident in failing):
                continue
            # map the model's two ok / two failing inputs onto the concrete ones
            if c['input'] in ('ok2',) and not ident.startswith('ok'):
                continue
            if c['input'] == 'fail_read' and not ident.startswith('failread'):
                continue
            if c['input'] == 'fail_calc' and not ident.startswith('failcalc'):
                continue
            if c['hist'] == 'rewritten' and (c['dir'] != 'd1' or ident.startswith(('sparse', 'explicit', 'ex:'))):
                continue        # the generated families and their failing variants do
            if c['hist'] == 'warm' and (not ident.startswith('sparse') or c['dir'] != 'd1'):
                continue        # a warmed-up process matters for inputs that lean on defaults; the others name their values
            if c['arg'] in ('relative_tilde', 'relative_link') and (c['dir'] != 'd1' or ident.startswith(('sparse', 'explicit'))):
                continue        # unusual requested names: what matters is the name, one start directory and the plain inputs do
            cell = {'entry': c['entry'], 'arg': c['arg'], 'dir': c['dir'], 'input': ident, 'hist': c['hist'], 'failing': ident in failing,
                    'expect_files': c['expect_files']}
            if c['entry'] == 'cli':
                items_cli.append((cell, texts[ident]))
            elif c['entry'] == 'client' and c['dir'] == 'd1':
                if c['hist'] == 'rewritten':
                    items_client.append((cell, texts[ident], [], texts['ok1' if ident != 'ok1' else 'ok0']))
                else:
                    items_client.append((cell, texts[ident]) if c['hist'] == 'cold' else (cell, texts[ident], rich))
            elif c['entry'] == 'direct' and c['hist'] == 'warm':
                items_warm.append((cell, texts[ident], rich))
            elif c['entry'] == 'mc' and c['dir'] == 'd1' and c['input'] in ('ok1', 'fail_read') and (tier == 'thorough' or ident in ('ok0', 'failread0', 'ex:example1')):
                own = own_value(texts[ident], 'Production Flow Rate per Well')     # the degenerate sample restates the input's own figure
                if own is not None:
                    items_mc.append((cell, texts[ident], own))
    direct = {o['tag']: o for o in sim.run_many(direct_jobs, 'harness.c12:project', keep_report=True)}
    recs = (sim.call_in_pool('harness.c20:cli_cell', items_cli) + sim.call_in_pool('harness.c20:client_cell', items_client)
            + sim.call_in_pool('harness.c20:direct_warm_cell', items_warm))
    mc_recs = sim.call_in_pool('harness.c20:mc_cell', items_mc, procs=3)
    counts, traces, verdicts = judge(res, direct, recs, mc_recs, texts, failing)
    res.cov['cells_and_clauses'] = counts
    res.sample({'cell': traces[0], 'verdict': verdicts[1]})
    res.sample({'cell': traces[len(traces) // 2]})
    for need in ('C20_same', 'C20_json_same', 'C20_where', 'C20_fail', 'entry:cli', 'entry:client', 'entry:mc', 'entry:direct', 'hist:warm', 'hist:rewritten'):
        if not counts.get(need):
            raise MachineryFailure(f'C20: {need} never exercised')
    res.exhaustive = False
    res.cov['rule'] = ('every cell of Entry.tla (4 entries x 7 output arguments x 2 start directories x ok / fail-at-read / fail-at-calculate) '
                       'executed for each concrete input; inputs seeded (quick 2 families + example1, thorough 10 + 6 examples); distinct = cell x input')
    res.assumptions += ['HTML / rich side outputs are ignored', 'the Monte Carlo embedded run is compared through the output tokens the driver '
                        'extracts (it does not keep the report)', 'failing inputs fail while reading or calculating (a failing report writer is not covered)']
    return res.finish()


def replay(path: str) -> int:
    """Execute the recorded cell (entry point x output argument x start directory x input) again and judge it."""
    rp = json.loads(open(path).read())['replay']
    res = Result('C20', 'quick')
    t, text = rp['cell'], rp['input_text']
    ident = t['input']
    cell = {'entry': t['entry'], 'arg': t['arg'], 'dir': t['dir'], 'input': ident, 'hist': t.get('hist', 'cold'), 'failing': t['failing'],
            'expect_files': t['expect_files']}
    direct = {o['tag']: o for o in sim.run_many([(ident, text)], 'harness.c12:project', keep_report=True)}
    recs, mc_recs = [], []
    if t['entry'] == 'cli':
        recs = [cli_cell((cell, text))]
    elif t['entry'] == 'client':
        item = (cell, text, rp.get('prelude') or [], rp['before']) if rp.get('before') else (cell, text, rp['prelude']) if rp.get('prelude') else (cell, text)
        recs = sim.call_in_pool('harness.c20:client_cell', [item], procs=1)
    elif t['entry'] == 'direct' and t.get('hist') == 'warm':
        recs = sim.call_in_pool('harness.c20:direct_warm_cell', [(cell, text, rp.get('prelude', []))], procs=1)
    elif t['entry'] == 'mc':
        mc_recs = [mc_cell((cell, text, 47.5 if not ident.startswith('ex:') else 55.0))]
    judge(res, direct, recs, mc_recs, {ident: text}, {ident} if t['failing'] else set())
    return res.finish()
