"""C17 — heat-in-place assessment adds up and scales with reservoir size.

M1  HipRa.tla: the volumetric cascade over small rationals: volume fractions, stored = rock + fluid, available <= stored,
    producible <= available, exact proportionality of every extensive result to area and to thickness.
M3  the real HIP_RA_X driven directly (no hook needed) on seeded inputs over the declared ranges, provided vs derived
    depth / pressure / density / heat capacity: single-run clauses by TraceHipRa.tla; area and thickness ladders and
    unit variants by TraceRelation.tla.
"""
from __future__ import annotations

import json
import random

from . import sim, tlc
from .c07 import build_hip
from .common import MachineryFailure, Result, bind_repo, rat, rats, seed

OUT = {'volume': 'reservoir_volume', 'volume_rock': 'volume_rock', 'volume_fluid': 'volume_recoverable_fluid', 'mass_rock': 'mass_rock',
       'stored_rock': 'stored_heat_rock', 'stored_fluid': 'stored_heat_fluid', 'stored': 'reservoir_stored_heat',
       'available': 'reservoir_available_heat', 'producible': 'reservoir_producible_heat', 'electricity': 'reservoir_producible_electricity',
       'recovery': 'reservoir_recovery_factor', 'enthalpy_rock': 'enthalpy_rock', 'enthalpy_fluid': 'enthalpy_fluid',
       'heat_per_area': 'producible_heat_per_unit_area', 'heat_per_volume': 'heat_per_unit_volume_reservoir',
       'elec_per_area': 'producible_electricity_per_unit_area', 'elec_per_volume': 'electricity_per_unit_volume_reservoir'}
EXTENSIVE = ['volume', 'volume_rock', 'volume_fluid', 'mass_rock', 'stored_rock', 'stored_fluid', 'stored', 'available', 'producible', 'electricity']
INT_AREA = ['recovery', 'enthalpy_rock', 'enthalpy_fluid', 'heat_per_area', 'heat_per_volume', 'elec_per_area', 'elec_per_volume']
INT_THICK = ['recovery', 'enthalpy_rock', 'enthalpy_fluid', 'heat_per_volume', 'elec_per_volume']


def run_hip(text: str):
    """Worker: read + Calculate on the real class; returns inputs (as held) and outputs."""
    import contextlib
    import io
    import logging
    logging.disable(logging.CRITICAL)
    try:
        with contextlib.redirect_stdout(io.StringIO()), contextlib.redirect_stderr(io.StringIO()):
            m = build_hip(text)
            m.Calculate()
    except BaseException as ex:  # noqa: BLE001
        return {'status': 'rejected', 'error': f'{type(ex).__name__}: {ex}'[:200]}
    finally:
        logging.disable(logging.NOTSET)
    o = {k: float(getattr(m, attr).value) for k, attr in OUT.items()}
    h = {'area': float(m.reservoir_area.value), 'thick': float(m.reservoir_thickness.value), 'por': float(m.reservoir_porosity.value),
         'fluidfactor': float(m.recoverable_fluid_factor.value)}
    return {'status': 'ok', 'o': o, 'h': h}


def gen_input(rng: random.Random) -> dict:
    p = {'Reservoir Temperature': round(rng.uniform(90, 350), 3), 'Rejection Temperature': round(rng.uniform(10, 80), 3),
         'Reservoir Porosity': round(rng.choice([rng.uniform(1, 40), rng.uniform(1, 40), rng.uniform(0.01, 1.0), rng.uniform(40, 100)]), 3), 'Reservoir Area': round(rng.uniform(1, 500), 3),
         'Reservoir Thickness': round(rng.uniform(0.05, 2), 4), 'Reservoir Life Cycle': rng.randint(5, 60),
         'Recoverable Fluid Factor': round(rng.uniform(0.1, 1), 3), 'Recoverable Heat from Rock': round(rng.uniform(0.2, 1), 3)}
    # a declared range end as an ordinary figure (one fraction at a time: both at 0 is 0/0 in the model)
    x = rng.random()
    if x < 0.08:
        p['Recoverable Fluid Factor'] = rng.choice([0, 1])
    elif x < 0.16:
        p['Recoverable Heat from Rock'] = rng.choice([0, 1])
    elif x < 0.2:
        p['Reservoir Porosity'] = 100
    if rng.random() < 0.5:
        p['Reservoir Depth'] = round(rng.uniform(0.5, 6), 3)
    if rng.random() < 0.4:
        p['Reservoir Pressure'] = round(rng.uniform(5, 80), 3)
    if rng.random() < 0.4:
        p['Density Of Reservoir Fluid'] = rng.uniform(7e11, 1e12)
    if rng.random() < 0.4:
        p['Fluid Specific Heat Capacity'] = round(rng.uniform(3.5, 5.5), 3)
    if rng.random() < 0.5:
        p['Density Of Reservoir Rock'] = rng.uniform(2.2e12, 3.2e12)
        p['Rock Heat Capacity'] = rng.uniform(1.5e12, 3.5e12)
    return p


def text_of(p: dict, units: dict | None = None) -> str:
    units = units or {}
    return ''.join(f'{k}, {v}{(" " + units[k]) if k in units else ""}\n' for k, v in p.items())


def evaluate(res: Result, bases: list, rng: random.Random, full: bool = False):
    """Run every base with its area / thickness / unit variants through the real HIP-RA-X and judge them (TraceHipRa, TraceRelation)."""
    jobs, plan = [], []
    for k, p in enumerate(bases):
        plan.append(('base', k, None))
        jobs.append(text_of(p))
        for kind, key in (('area', 'Reservoir Area'), ('thick', 'Reservoir Thickness')):
            for f in ([0.5, 2.0, 10.0, 0.1] if full else rng.sample([0.5, 2.0, 10.0, 0.1], 2)):
                q = dict(p)
                q[key] = p[key] * f
                if q[key] > 9000:
                    continue
                plan.append((kind, k, f))
                jobs.append(text_of(q))
        # the two recoverable fractions: what they multiply is proportional to them, down to the range end 0
        for kind, key in (('fluidfrac', 'Recoverable Fluid Factor'), ('rockfrac', 'Recoverable Heat from Rock')):
            if p[key] == 0 or p['Recoverable Fluid Factor'] == 0 or p['Recoverable Heat from Rock'] == 0:
                continue
            for f in ([0.0, 0.5] if full or rng.random() < 0.5 else [rng.choice([0.0, 0.5])]):
                q = dict(p)
                q[key] = p[key] * f
                plan.append((kind, k, f))
                jobs.append(text_of(q))
        # unit variants: the same inputs written in other catalogue units
        u = dict(p)
        units = {}
        if full or rng.random() < 0.7:
            u['Reservoir Thickness'] = p['Reservoir Thickness'] * 1000
            units['Reservoir Thickness'] = 'm'
        if full or rng.random() < 0.5:
            u['Reservoir Temperature'] = p['Reservoir Temperature'] * 9 / 5 + 32
            units['Reservoir Temperature'] = 'degF'
        if full or rng.random() < 0.5:
            if rng.random() < 0.5:
                u['Rejection Temperature'] = p['Rejection Temperature'] * 9 / 5 + 32
                units['Rejection Temperature'] = 'degF'
            else:
                u['Rejection Temperature'] = p['Rejection Temperature'] + 273.15
                units['Rejection Temperature'] = 'degK'
        if 'Reservoir Depth' in p and (full or rng.random() < 0.6):
            u['Reservoir Depth'] = p['Reservoir Depth'] * 1000
            units['Reservoir Depth'] = 'm'
        if units:
            plan.append(('units:' + '+'.join(sorted(v for v in units.values())), k, None))
            jobs.append(text_of(u, units))
    outs = sim.call_in_pool('harness.c17:run_hip', jobs)
    by = {}
    for (kind, k, f), o in zip(plan, outs):
        by.setdefault(k, []).append((kind, f, o))
    traces, rel, meta = [], [], {}
    counts = {}
    for k, lst in by.items():
        base = next(o for kind, f, o in lst if kind == 'base')
        if base['status'] != 'ok':
            res.count('rejected_bases')
            continue
        t = {'tid': len(traces) + 1, 'h': {kk: rat(vv) for kk, vv in base['h'].items()}, 'o': {kk: rat(vv) for kk, vv in base['o'].items()}}
        traces.append(t)
        meta[t['tid']] = bases[k]
        for kind, f, o in lst:
            if kind == 'base' or o['status'] != 'ok':
                continue
            if kind in ('fluidfrac', 'rockfrac'):
                names = ['volume_fluid', 'stored_fluid'] if kind == 'fluidfrac' else ['stored_rock']
                ext = {'tid': 0, 'clause': f'C17_{kind}_homog', 'kind': 'scaled', 'tol': '1e-9',
                       'rungs': [{'x': '1', 'ys': rats([base['o'][n_] for n_ in names])}, {'x': rat(f), 'ys': rats([o['o'][n_] for n_ in names])}]}
                rel.append((ext, k, kind, f, names))
            elif kind in ('area', 'thick'):
                ext = {'tid': 0, 'clause': f'C17_{kind}_homog', 'kind': 'scaled', 'tol': '1e-9',
                       'rungs': [{'x': '1', 'ys': rats([base['o'][n_] for n_ in EXTENSIVE])}, {'x': rat(f), 'ys': rats([o['o'][n_] for n_ in EXTENSIVE])}]}
                names = INT_AREA if kind == 'area' else INT_THICK
                inten = {'tid': 0, 'clause': f'C17_{kind}_intensive_unchanged', 'kind': 'equal', 'tol': '1e-9',
                         'rungs': [{'x': '1', 'ys': rats([base['o'][n_] for n_ in names])}, {'x': rat(f), 'ys': rats([o['o'][n_] for n_ in names])}]}
                rel += [(ext, k, kind, f, EXTENSIVE), (inten, k, kind, f, names)]
            else:
                un = {'tid': 0, 'clause': 'C17_units', 'kind': 'equal', 'tol': '1e-9',
                      'rungs': [{'x': '0', 'ys': rats([base['o'][n_] for n_ in OUT])}, {'x': '1', 'ys': rats([o['o'][n_] for n_ in OUT])}]}
                rel.append((un, k, kind, None, list(OUT)))
    verdicts, ds, gs = tlc.validate_traces('TraceHipRa', 'TraceHipRa.cfg', traces)
    res.states += ds
    res.transitions += gs
    res.traces += len(traces)
    for t in traces:
        vd = verdicts[t['tid']]
        res.case(f'hip#{t["tid"]}')
        for c in vd['e']:
            counts[c] = counts.get(c, 0) + 1
        for c in vd['f']:
            wit = [w for w in vd['w'] if w.get('clause') == c][:1]
            res.violation({'clause': c, 'input': json.dumps(meta[t['tid']], sort_keys=True)}, f'{c} fails on HIP-RA-X input {meta[t["tid"]]}: {wit}',
                          {'input_text': text_of(meta[t['tid']]), 'witness': wit})
    for n_, (tr, *_rest) in enumerate(rel):
        tr['tid'] = n_ + 1
    rv, ds, gs = tlc.validate_traces('TraceRelation', 'TraceRelation.cfg', [x[0] for x in rel])
    res.states += ds
    res.transitions += gs
    res.traces += len(rel)
    for tr, k, kind, f, names in rel:
        vd = rv[tr['tid']]
        res.case(f'{tr["clause"]}#{k}:{kind}:{f}')
        for c in vd['e']:
            counts[c] = counts.get(c, 0) + 1
        for c in vd['f']:
            wit = [w for w in vd['w'] if w.get('clause') == c][:1]
            comp = names[wit[0]['component'] - 1] if wit and wit[0].get('component') else '?'
            res.violation({'clause': c, 'variant': kind, 'output': comp, 'input': json.dumps(bases[k], sort_keys=True)},
                          f'{c} fails: {kind} x {f} on {bases[k]}: output {comp}: {wit}', {'input_text': text_of(bases[k]), 'variant': kind, 'factor': f, 'witness': wit})
    return counts, traces


def run(tier: str) -> int:
    res = Result('C17', tier)
    r = tlc.run_tlc('HipRa', 'MC_HipRa.cfg', workers=8, timeout=2400)
    tlc.check_mc(r, 'MC_HipRa.cfg', ['Calc'])
    if r['violated']:
        raise MachineryFailure(f'HipRa.tla violates {r["violated"]}')
    res.add_mc(r, 'MC_HipRa.cfg')
    rng = random.Random(seed() * 17 + 17)
    n = 150 if tier == 'quick' else 1500
    bases = [gen_input(rng) for _ in range(n)]
    counts, traces = evaluate(res, bases, rng)
    res.cov['clauses'] = counts
    res.sample({'hip_trace': traces[0]})
    for need in ('C17_vol_rock', 'C17_stored_sum', 'C17_avail_le_stored', 'C17_prod_le_avail', 'C17_area_homog', 'C17_thick_homog',
                 'C17_area_intensive_unchanged', 'C17_thick_intensive_unchanged', 'C17_units'):
        if not counts.get(need):
            raise MachineryFailure(f'C17: {need} never evaluated')
    res.cov['rule'] = 'seeded inputs over the declared ranges (provided / derived depth, pressure, density, heat capacity) x area and thickness factors {0.1, 0.5, 2, 10} x unit variants; distinct = clause x input'
    res.assumptions += ['water-property look-ups stay in the code; scaling and ordering relations are checked between reported quantities', 'relations to 1e-9 relative']
    return res.finish()


def replay(path: str) -> int:
    data = json.loads(open(path).read())
    res = Result('C17', 'quick')
    base = json.loads(data['key']['input'])     # the generated input (parameter -> value) the violation was observed on
    evaluate(res, [base], random.Random(0), full=True)
    return res.finish()
