"""Running TLC (model checking, simulation, trace validation) and parsing what it says."""
from __future__ import annotations

import concurrent.futures as cf
import json
import os
import re
import shutil
import subprocess
import tempfile
import time
import uuid
from pathlib import Path

from .common import CACHE, SPEC, MachineryFailure

JAR = '/opt/veriftools/tla/tla2tools.jar'
CM = '/opt/veriftools/tla/CommunityModules-deps.jar'
CLASSES = SPEC / 'classes'

_COV = re.compile(r'^<(\w+) line \d+, col \d+ to line \d+, col \d+ of module (\w+)>: (\d+):(\d+)')
_STATES = re.compile(r'^(\d+) states generated, (\d+) distinct states found, (\d+) states left on queue')
_DEPTH = re.compile(r'The depth of the complete state graph search is (\d+)')
_SIMSTATES = re.compile(r'The number of states generated: (\d+)')


def ensure_built():
    srcs = [SPEC / 'Rat.java', SPEC / 'Str.java']
    if any(not (CLASSES / (s_.stem + '.class')).exists() or (CLASSES / (s_.stem + '.class')).stat().st_mtime < s_.stat().st_mtime for s_ in srcs):
        CLASSES.mkdir(exist_ok=True)
        r = subprocess.run(['javac', '-cp', JAR, '-d', str(CLASSES)] + [str(s_) for s_ in srcs], capture_output=True, text=True)
        if r.returncode != 0:
            raise MachineryFailure('javac Rat.java failed: ' + r.stderr)


def _scratch() -> Path:
    d = CACHE / 'tlc' / uuid.uuid4().hex[:12]
    d.mkdir(parents=True, exist_ok=True)
    return d


def run_tlc(module: str, cfg: str, *a, **kw) -> dict:
    """run_tlc_once, repeated once when the JVM did not get as far as a verdict (no result, no violation, no semantic error: typically a
    start-up failure on a loaded machine)."""
    r = run_tlc_once(module, cfg, *a, **kw)
    if not r['ok'] and r['violated'] is None and r['rc'] != -9 and not any('Semantic' in e or 'Parse' in e or 'evaluat' in e for e in r['errors']):
        time.sleep(5)
        r = run_tlc_once(module, cfg, *a, **kw)
    return r


def run_tlc_once(module: str, cfg: str, workers: int = 16, coverage: bool = True, env: dict | None = None,
            simulate: str | None = None, depth: int | None = None, timeout: int = 3000, heap: str = '6g',
            extra: list | None = None, seed_arg: int | None = None) -> dict:
    """Run TLC on spec/<module>.tla with spec/<cfg>; returns parsed summary (never raises on a property violation)."""
    ensure_built()
    meta = _scratch()
    cmd = ['java', '-XX:+UseParallelGC', f'-Xmx{heap}', '-cp', f'{JAR}:{CM}:{CLASSES}', 'tlc2.TLC',
           '-workers', str(workers), '-metadir', str(meta), '-noGenerateSpecTE', '-nowarning',
           '-config', str(SPEC / cfg)]
    if coverage:
        cmd += ['-coverage', '1']
    if simulate is not None:
        cmd += ['-simulate', simulate]
    if depth is not None:
        cmd += ['-depth', str(depth)]
    if seed_arg is not None:
        cmd += ['-seed', str(seed_arg)]
    if extra:
        cmd += extra
    cmd.append(str(SPEC / f'{module}.tla'))
    e = dict(os.environ)
    if env:
        e.update(env)
    t0 = time.time()
    try:
        p = subprocess.run(cmd, capture_output=True, text=True, env=e, cwd=str(meta), timeout=timeout)
        out = p.stdout + '\n' + p.stderr
        rc = p.returncode
    except subprocess.TimeoutExpired as ex:
        out = (ex.stdout or b'').decode() if isinstance(ex.stdout, bytes) else (ex.stdout or '')
        rc = -9
    finally:
        shutil.rmtree(meta, ignore_errors=True)
    res = parse_output(out)
    res['rc'] = rc
    res['wall_s'] = round(time.time() - t0, 2)
    res['cmd'] = ' '.join(cmd[cmd.index('tlc2.TLC'):]).replace(str(meta), '<metadir>')
    res['raw'] = out
    return res


def parse_output(out: str) -> dict:
    res = {'generated': 0, 'distinct': 0, 'left': 0, 'depth': None, 'actions': {}, 'prints': [], 'violated': None,
           'errors': [], 'trace': [], 'ok': False}
    lines = out.splitlines()
    in_trace = False
    cur = None
    for ln in lines:
        m = _STATES.match(ln)
        if m:
            res['generated'], res['distinct'], res['left'] = int(m.group(1)), int(m.group(2)), int(m.group(3))
            continue
        m = _SIMSTATES.search(ln)
        if m:
            res['generated'] = int(m.group(1))
            res['distinct'] = res['distinct'] or int(m.group(1))
            continue
        m = _DEPTH.search(ln)
        if m:
            res['depth'] = int(m.group(1))
            continue
        m = _COV.match(ln)
        if m:
            name = m.group(1)
            a = res['actions'].setdefault(name, [0, 0])
            a[0] += int(m.group(3))
            a[1] += int(m.group(4))
            continue
        if ln.startswith('"{') or ln.startswith('"['):
            try:
                res['prints'].append(json.loads(json.loads(ln)))
            except (ValueError, TypeError):
                res['errors'].append('unparsable print: ' + ln[:200])
            continue
        if ln.startswith('Error: Invariant '):
            res['violated'] = ln.split('Error: Invariant ')[1].split(' is violated')[0]
            in_trace = True
            continue
        if ln.startswith('Error: Action property '):
            res['violated'] = ln.split('Error: Action property ')[1].split(' is violated')[0]
            in_trace = True
            continue
        if ln.startswith('Error: Temporal properties were violated'):
            res['violated'] = 'temporal'
            in_trace = True
            continue
        if ln.startswith('Error: Deadlock reached'):
            res['violated'] = 'deadlock'
            in_trace = True
            continue
        if ln.startswith('Error:') and 'The behavior up to this point' not in ln and 'The following behavior' not in ln:
            res['errors'].append(ln)
            continue
        if in_trace and (ln.startswith('The coverage statistics') or 'states generated' in ln):
            in_trace = False
            cur = None
        if in_trace:
            if ln.startswith('State ') or re.match(r'^\d+: <', ln):
                cur = {'header': ln, 'vars': []}
                res['trace'].append(cur)
            elif cur is not None and ln.strip() and not ln[0].isdigit() and 'states generated' not in ln:
                cur['vars'].append(ln)
        if 'Model checking completed. No error has been found' in ln:
            res['ok'] = True
        if ln.startswith('Finished in') and not res['errors'] and res['violated'] is None:
            res['ok'] = True
    return res


def check_mc(res: dict, label: str, require_actions: list | None = None):
    """Raise MachineryFailure when a TLC run did not complete cleanly or an action was never taken (vacuity guard)."""
    if res['errors'] and res['violated'] is None:
        raise MachineryFailure(f'TLC {label}: ' + '; '.join(res['errors'][:3]) + '\n' + res['raw'][-2000:])
    if res['rc'] == -9:
        raise MachineryFailure(f'TLC {label}: timed out')
    if res['violated'] is None and not res['ok']:
        raise MachineryFailure(f'TLC {label}: did not finish\n' + res['raw'][-2000:])
    if res['violated'] is None and require_actions:
        for a in require_actions:
            if res['actions'].get(a, [0, 0])[1] == 0:
                raise MachineryFailure(f'TLC {label}: action {a} was never taken (vacuous run)')


def validate_traces(module: str, cfg: str, traces: list, shards: int = 16, timeout: int = 3000,
                    consts_env: dict | None = None) -> tuple:
    """Validate recorded traces with a Trace*.tla spec (single-worker TLC per shard; shards run in parallel).

    Each trace object must carry 'tid'.  The spec prints one JSON verdict per trace
    {"tid":…, "e":[…], "f":[…], "s":[…], "w":[…]} and a POSTCONDITION checks that every trace was consumed.
    Returns (verdicts by tid, total distinct states, total generated)."""
    ensure_built()
    if not traces:
        return {}, 0, 0
    shards = max(1, min(shards, len(traces)))
    parts = [traces[i::shards] for i in range(shards)]
    tdir = _scratch()
    verdicts = {}
    tot_d = tot_g = 0

    def one(k):
        f = tdir / f'shard{k}.json'
        f.write_text(json.dumps(parts[k]))
        env = {'TRACE_FILE': str(f)}
        if consts_env:
            env.update(consts_env)
        return run_tlc(module, cfg, workers=1, coverage=False, env=env, timeout=timeout, heap='3g')

    try:
        with cf.ThreadPoolExecutor(max_workers=shards) as ex:
            results = list(ex.map(one, range(shards)))
    finally:
        shutil.rmtree(tdir, ignore_errors=True)
    for k, r in enumerate(results):
        if r['errors'] or r['violated'] or not r['ok']:
            raise MachineryFailure(f'trace validation {module} shard {k}: {r["errors"][:2]} violated={r["violated"]}\n'
                                   + r['raw'][-3000:])
        got = 0
        for pr in r['prints']:
            if isinstance(pr, dict) and 'tid' in pr:
                verdicts[pr['tid']] = pr
                got += 1
        if got != len(parts[k]):
            raise MachineryFailure(f'trace validation {module} shard {k}: {got} verdicts for {len(parts[k])} traces\n'
                                   + r['raw'][-3000:])
        tot_d += r['distinct']
        tot_g += r['generated']
    return verdicts, tot_d, tot_g
