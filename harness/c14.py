"""C14 — Monte Carlo rows are reproducible and the statistics describe them.

M1  MonteCarlo.tla: MutualExclusion, C14_rows_whole, C14_isolated over every interleaving; with LockTimeouts the design
    admits row loss (recorded observation).
M3  real MC runs incl. a high-contention HIP-RA-X run and runs with failing iterations; every row is re-simulated from
    its recorded samples through the real simulator; TraceMC.tla checks columns, own-sample, replay equality, whole rows,
    and recomputes min/max/median/mean/std exactly from the rows against the JSON and the text block.
"""
from __future__ import annotations

import json
import random

from . import mc, tlc
from .c13 import execute, judge
from .common import MachineryFailure, Result, seed

PREFIXED = ('Inflation Rate During Construction, 0.08\nReservoir Volume Option, 3\nReservoir Volume, 1.5e9\n'
            'Well Drilling and Completion Capital Cost Adjustment Factor, 1.4\nInjection Well Drilling and Completion Capital Cost, 3.5\n')
CLAUSES = ('C14_', 'C13_rows', 'C13_row_not_dropped', 'C13_iterations_all_started')  # a failing iteration must not stop others from running


def plan(tier: str):
    rng = random.Random(seed() + 14)
    runs = [('geophires', mc.GEO_BASE, mc.GEO_INPUTS, mc.GEO_OUTPUTS, 20, 16),
            ('hip_ra_x', mc.HIP_BASE, mc.HIP_INPUTS, mc.HIP_OUTPUTS, 120, 16),          # high contention: ms simulations
            ('geophires', mc.GEO_BASE, [('Utilization Factor', 'uniform', 0.6, 1.3, None), ('Gradient 1', 'normal', 60.0, 3.0, None)],
             mc.GEO_OUTPUTS, 24, 8),                                                     # ~40 % failing iterations
            ('geophires', mc.GEO_BASE, mc.GEO_INPUTS[:2], list(reversed(mc.GEO_OUTPUTS)), 10, 2),
            ('hip_ra_x', mc.HIP_BASE, [('Reservoir Porosity', 'uniform', 5.0, 120.0, None)] + mc.HIP_INPUTS[:1], mc.HIP_OUTPUTS, 30, 4),
            # many iterations per worker with failing ones in between (batching of tasks must not couple their fates)
            ('hip_ra_x', mc.HIP_BASE, [('Reservoir Porosity', 'uniform', 5.0, 140.0, None)] + mc.HIP_INPUTS[:1], mc.HIP_OUTPUTS, 64, 2),
            ('geophires', mc.GEO_BASE, [('Utilization Factor', 'uniform', 0.7, 1.2, None)], mc.GEO_OUTPUTS[:1], 36, 1),
            # sampled names that are prefixes of other parameters the base sets to non-default values: only the sampled ones may change
            ('geophires', mc.GEO_BASE + PREFIXED, [('Inflation Rate', 'uniform', 0.01, 0.04, None), ('Reservoir Volume', 'normal', 1.5e9, 1.0e8, None),
                                                   ('Well Drilling and Completion Capital Cost', 'uniform', 4.0, 6.0, None)], mc.GEO_OUTPUTS, 8, 2),
            # the driver process has run a study on the same base FILE before, when it held other content (one figure differed): every
            # row must still re-simulate from the base the study was given
            ('geophires', mc.GEO_BASE, mc.GEO_INPUTS[:2], mc.GEO_OUTPUTS, 6, 2, 'prelude'), ('hip_ra_x', mc.HIP_BASE, mc.HIP_INPUTS, mc.HIP_OUTPUTS, 24, 4, 'prelude'),
            ('hip_ra_x', mc.HIP_BASE, mc.HIP_INPUTS, mc.HIP_OUTPUTS, 24, 4, 'stale_lock')]
    if tier == 'thorough':
        for w in (1, 2, 4, 16):
            runs.append(('geophires', mc.GEO_BASE, mc.GEO_INPUTS, mc.GEO_OUTPUTS, rng.choice([40, 80]), w))
            runs.append(('hip_ra_x', mc.HIP_BASE, mc.HIP_INPUTS, mc.HIP_OUTPUTS, rng.choice([100, 200, 300]), w))
        runs = runs * 2
    return runs


def run(tier: str) -> int:
    res = Result('C14', tier)
    r = tlc.run_tlc('MonteCarlo', 'MC_MonteCarlo.cfg', workers=16, timeout=2400)
    tlc.check_mc(r, 'MC_MonteCarlo.cfg', ['Acquire', 'AppendRow', 'Release', 'SimulateFail'])
    if r['violated']:
        raise MachineryFailure(f'MonteCarlo.tla violates {r["violated"]}')
    res.add_mc(r, 'MC_MonteCarlo.cfg')
    rt = tlc.run_tlc('MonteCarlo', 'MC_MonteCarlo_timeouts.cfg', workers=8, timeout=2400)
    res.cov['design_observation_lock_timeout'] = f'with pylocker timeouts enabled the model violates {rt["violated"]} (a row is dropped when the lock is not obtained)'
    traces, raw = execute(plan(tier), replay=True)
    counts = judge(res, traces, raw, CLAUSES, 'C14')
    for need in ('C14_columns', 'C14_replay', 'C14_row_carries_own_sample', 'C14_stats_mean', 'C14_stats_std', 'C14_stats_median',
                 'C14_text_equals_json', 'C13_rows'):
        if not counts.get(need):
            raise MachineryFailure(f'C14: {need} never evaluated')
    failing = sum(1 for t in traces if len(t['file_rows']) < t['iterations'])
    res.cov['runs_with_failing_iterations'] = failing
    res.cov['rows_resimulated'] = sum(1 for t in traces for p in t['procs'] for e in p if e['ev'] == 'row_written' and e.get('replayed') != ['skipped'])
    if not failing:
        raise MachineryFailure('C14: no run had failing iterations (isolation clause vacuous)')
    res.cov['rule'] = ('M1 as C13; M3: real MC runs (both codes, failing iterations, high contention), every row re-simulated; '
                       'distinct = run configuration')
    res.assumptions += ['row atomicity relies on the append being a single write (lock overlap is a fit_ observation)',
                        'std compared through its square against the exact population variance (1e-6 relative)',
                        'outputs that print N/A make the driver fail to summarise: drivers request numeric outputs only']
    return res.finish()


def replay(path: str) -> int:
    """Run the recorded Monte Carlo configuration again (same code, inputs, outputs, iterations, pool size) and judge it."""
    from fractions import Fraction
    data = json.loads(open(path).read())['replay']
    res = Result('C14', 'quick')
    inputs = [(i['name'], i['dist'], float(Fraction(i['a'])), float(Fraction(i['b'])),
               float(Fraction(i['c'])) if i['dist'] == 'triangular' else None) for i in data['inputs']]
    traces, raw = execute([(data['kind'], data['base'], inputs, data['outputs'], data['iterations'], data['workers']) + ((data['history'],) if data.get('history') else ())], replay=True)
    judge(res, traces, raw, CLAUSES, 'C14')
    res.case('again')
    return res.finish()
