"""Shared plumbing for all checks: repo binding, exact-rational serialisation, evidence, findings, replays."""
from __future__ import annotations

import hashlib
import json
import math
import os
import sys
import time
from fractions import Fraction
from pathlib import Path

VERIF = Path(__file__).resolve().parent.parent
REPO = Path(os.environ.get('VERIF_REPO', '/repo')).resolve()
SPEC = VERIF / 'spec'
CACHE = VERIF / '.cache'
# a run against a tree other than /repo (seeded-change confirmation) must not overwrite the evidence of /repo
_SIDE = VERIF / '.cache' / 'side' if (REPO != Path('/repo') or os.environ.get('VERIF_REPLAY_MODE')) else VERIF
REPLAYS = _SIDE / 'replays'
EVIDENCE = _SIDE / 'evidence'
GUARD = 'GEOPHIRES_X_VERIF'


class Guard:
    """`with Guard() as g:` around a call into the code under test: an exception raised there is a finding about that code (g.err), not a
    failure of the machinery."""

    def __init__(self):
        self.err = None

    def __enter__(self):
        return self

    def __exit__(self, et, ev, tb):
        if et is not None and issubclass(et, Exception):
            self.err = f'{et.__name__}: {ev}'
            return True
        return False


class MachineryFailure(Exception):
    """Something in the verification machinery (not the code under test) went wrong: exit 2, never a VIOLATION."""


def seed() -> int:
    try:
        return int(os.environ.get('VERIF_SEED', '0'))
    except ValueError:
        return 0


def bind_repo() -> Path:
    """Put $VERIF_REPO/src first on sys.path, turn the hook guard on and make sure that tree is what gets imported."""
    src = str(REPO / 'src')
    if src in sys.path:
        sys.path.remove(src)
    sys.path.insert(0, src)
    os.environ[GUARD] = '1'
    os.environ.setdefault('PYTHONHASHSEED', '0')
    import geophires_x.Model  # noqa: F401  (must precede geophires_x.Economics: circular import otherwise)
    import geophires_x

    got = Path(geophires_x.__file__).resolve()
    if not str(got).startswith(src + os.sep):
        raise MachineryFailure(f'geophires_x imported from {got}, expected under {src}')
    return REPO


def subprocess_env(extra: dict | None = None, hashseed: str = '0') -> dict:
    env = dict(os.environ)
    env['PYTHONPATH'] = str(REPO / 'src') + os.pathsep + str(VERIF)
    env[GUARD] = '1'
    env['PYTHONHASHSEED'] = hashseed
    env['VERIF_REPO'] = str(REPO)
    if extra:
        env.update(extra)
    return env


# ---------------------------------------------------------------- exact rationals

def rat(x) -> str:
    """Lossless serialisation of a Python/numpy number as the canonical string Rat.tla uses."""
    if x is None:
        return 'undef'
    if isinstance(x, bool):
        return '1' if x else '0'
    if isinstance(x, int):
        return str(x)
    if isinstance(x, Fraction):
        return str(x.numerator) if x.denominator == 1 else f'{x.numerator}/{x.denominator}'
    try:
        import numpy as np

        if isinstance(x, np.integer):
            return str(int(x))
        if isinstance(x, np.ndarray) and x.shape == ():
            x = x.item()
    except ImportError:  # pragma: no cover
        pass
    try:
        f = float(x)
    except (TypeError, ValueError):
        return 'undef'
    if math.isnan(f):
        return 'nan'
    if math.isinf(f):
        return 'inf' if f > 0 else '-inf'
    n, d = f.as_integer_ratio()
    return str(n) if d == 1 else f'{n}/{d}'


def rats(seq) -> list:
    return [rat(v) for v in seq]


def frac(s) -> Fraction | None:
    """Inverse of rat() (None for undefined)."""
    if isinstance(s, (int, Fraction)):
        return Fraction(s)
    try:
        return Fraction(s)
    except (ValueError, ZeroDivisionError, TypeError):
        return None


def dec_rat(token: str) -> str | None:
    """Exact rational of a printed decimal token ('1,234.50', '-3.2E+01', '12') or None."""
    t = token.replace(',', '')
    try:
        return rat(Fraction(t))
    except (ValueError, ZeroDivisionError):
        return None


# ---------------------------------------------------------------- known findings

def load_findings(pid: str) -> list:
    out = []
    for p in sorted(VERIF.glob('known_findings*.json')):
        if p.name.endswith('.candidates.json'):
            continue        # calibration output awaiting review: never read by a check
        data = json.loads(p.read_text())
        out += [f for f in data.get('findings', []) if f.get('property') == pid and f.get('status', 'open') == 'open']
    return out


def match_finding(findings: list, key: dict) -> dict | None:
    """A finding matches a violation when every item of the finding's key equals the violation's key item."""
    for f in findings:
        fk = f.get('key', {})
        if all(key.get(k) == v for k, v in fk.items()):
            return f
    return None


# ---------------------------------------------------------------- results

class Result:
    """Accumulates what one check run did; writes evidence, replays, VIOLATION / KNOWN-FINDING lines."""

    def __init__(self, pid: str, tier: str, level: str = 'model_checking'):
        self.pid = pid
        self.tier = tier
        self.level = level
        self.t0 = time.time()
        self.states = 0
        self.transitions = 0
        self.traces = 0
        self.evaluations = 0
        self.distinct = set()
        self.samples = []
        self.cov = {}
        self.violations = []  # (key, what, replay_obj)
        self.known = []
        self.assumptions = []
        self.notes = []
        self.findings = load_findings(pid)
        if not os.environ.get('VERIF_KEEP_REPLAYS'):
            import shutil
            shutil.rmtree(REPLAYS / pid, ignore_errors=True)  # replays always describe the latest run
        self.exhaustive = None
        self.tlc_runs = []

    # -- coverage bookkeeping
    def add_mc(self, r: dict, label: str):
        self.states += r.get('distinct', 0)
        self.transitions += r.get('generated', 0)
        self.tlc_runs.append({'label': label, 'distinct_states': r.get('distinct'), 'states_generated': r.get('generated'),
                              'depth': r.get('depth'), 'wall_s': r.get('wall_s'),
                              'action_coverage': r.get('actions'), 'cmd': r.get('cmd')})

    def count(self, key: str, n: int = 1):
        self.cov[key] = self.cov.get(key, 0) + n

    def sample(self, obj, cap: int = 6):
        if len(self.samples) < cap:
            self.samples.append(obj)

    def case(self, ident):
        self.evaluations += 1
        self.distinct.add(ident if isinstance(ident, (str, int, tuple)) else json.dumps(ident, sort_keys=True, default=str))

    # -- violations
    def violation(self, key: dict, what: str, replay: dict):
        f = match_finding(self.findings, key)
        if f is not None:
            if f['id'] not in [k['id'] for k in self.known]:
                self.known.append(f)
            self.count('known_finding_hits')
            return
        if isinstance(replay, dict) and isinstance(replay.get('input_text'), str) and 'history' not in replay:
            from . import sim        # a run judged after its neighbours in one process (sim.run_chains): the replay needs them too
            if replay['input_text'] in sim.HISTORY:
                replay = dict(replay, history=sim.HISTORY[replay['input_text']])
        self.violations.append((key, what, replay))

    def finish(self, extra_cov: dict | None = None) -> int:
        EVIDENCE.mkdir(parents=True, exist_ok=True)
        wall = time.time() - self.t0
        cov = {
            'states': self.states,
            'transitions': self.transitions,
            'traces_validated_against_impl': self.traces,
            'samples': self.samples if self.samples else ['(none recorded)'],
            'evaluations': max(self.evaluations, 0),
            'distinct_nontrivial': len(self.distinct),
            'tlc_runs': self.tlc_runs,
            'known_findings_reported': [k['id'] for k in self.known],
            'notes': self.notes,
        }
        cov.update(self.cov)
        if self.exhaustive is not None:
            cov['exhaustive'] = self.exhaustive
        if extra_cov:
            cov.update(extra_cov)
        cov.setdefault('rule', 'see DESIGN.md section 5 for this property')
        cov['trusted_base'] = ['TLC 1.8 (tla2tools.jar)', 'java.math.BigInteger via spec/Rat.java',
                               'float.as_integer_ratio projection', 'harness projection code']
        ev = {
            'property_id': self.pid,
            'tier': self.tier,
            'seed': seed(),
            'level': self.level,
            'coverage': cov,
            'assumptions': self.assumptions,
            'wall_s': round(wall, 2),
            'violations': len(self.violations),
        }
        (EVIDENCE / f'{self.pid}.json').write_text(json.dumps(ev, indent=1, default=str) + '\n')
        for k in self.known:
            print(f"KNOWN-FINDING: property={self.pid} {k['what']}")
        rc = 0
        if self.violations:
            d = REPLAYS / self.pid
            d.mkdir(parents=True, exist_ok=True)
            seen = 0
            for key, what, replay in self.violations:
                h = hashlib.sha256(json.dumps(key, sort_keys=True, default=str).encode()).hexdigest()[:12]
                path = d / f'{h}.json'
                path.write_text(json.dumps({'property': self.pid, 'key': key, 'what': what, 'replay': replay},
                                           indent=1, default=str))
                if seen < 25:
                    print(f'VIOLATION property={self.pid} replay={path}  # {what}')
                seen += 1
            if seen > 25:
                print(f'... {seen - 25} further violations written under {d}')
            rc = 1
        print(f'[{self.pid}] tier={self.tier} states={self.states} transitions={self.transitions} '
              f'traces={self.traces} evaluations={self.evaluations} violations={len(self.violations)} '
              f'known={len(self.known)} wall={wall:.1f}s')
        return rc


def source_hash() -> str:
    """Hash of every file under $VERIF_REPO/src and /verif/harness + /verif/spec (cache key for recorded corpora)."""
    h = hashlib.sha256()
    for root in (REPO / 'src', VERIF / 'harness', VERIF / 'spec'):
        for p in sorted(root.rglob('*')):
            if p.is_file() and '__pycache__' not in p.parts and 'classes' not in p.parts and not p.name.endswith('.pyc'):
                h.update(str(p.relative_to(root)).encode())
                h.update(p.read_bytes())
    return h.hexdigest()[:20]
