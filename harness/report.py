"""An independent, purely lexical tokeniser of GEOPHIRES case reports (used by C09 and C10).

Nothing here imports the simulator or the client.  A report is split into sections (star banners), labelled lines
(`label: value unit`; labels may themselves contain colons, so a line is offered under EVERY split `left: right`),
`label = value` lines, and tables (title in a star box, header lines, rows of numbers separated by blanks and `|`)."""
from __future__ import annotations

import re
from fractions import Fraction

BANNER = re.compile(r'^\s*\*{2,}\s*(\S[^*]*?)\s*\*{2,}\s*$')
BOXLINE = re.compile(r'^\s*\*+\s*$')
BOXTITLE = re.compile(r'^\s*\*\s{1,}(\S.*?\S)\s{1,}\*\s*$')
NONNUM = ('N/A', 'nan', '-nan', 'inf', '-inf')     # what a numeric column shows when there is no number
NUM = re.compile(r'^[-+]?(\d[\d,]*\.?\d*|\.\d+)([eE][-+]?\d+)?$')


def is_number(tok: str) -> bool:
    return bool(NUM.match(tok))


def number(tok: str):
    """Exact value of a printed numeric token (thousands separators allowed) or None."""
    if not is_number(tok):
        return None
    try:
        return Fraction(tok.replace(',', ''))
    except (ValueError, ZeroDivisionError):
        return None


def decimals(tok: str) -> int | None:
    """Digits shown after the decimal point of a fixed-point token (None for exponent forms)."""
    t = tok.replace(',', '')
    if 'e' in t.lower():
        return None
    return len(t.split('.')[1]) if '.' in t else 0


class Report:
    def __init__(self, text: str):
        self.text = text
        self.lines = text.splitlines()
        self.sections = []     # (name, first line index, last line index exclusive)
        self.tables = {}       # title -> {'header': [lines], 'rows': [[tokens]], 'start': idx}
        self._scan()

    def _scan(self):
        marks = []
        n = len(self.lines)
        i = 0
        while i < n:
            ln = self.lines[i]
            if BOXLINE.match(ln) and i + 2 < n and BOXTITLE.match(self.lines[i + 1]) and BOXLINE.match(self.lines[i + 2]):
                title = BOXTITLE.match(self.lines[i + 1]).group(1).strip()
                marks.append((title, i, 'box'))
                i += 3
                continue
            m = BANNER.match(ln)
            if m and not BOXLINE.match(ln):
                marks.append((m.group(1).strip(), i, 'banner'))
            i += 1
        for k, (name, idx, kind) in enumerate(marks):
            end = marks[k + 1][1] if k + 1 < len(marks) else n
            self.sections.append((name, idx, end, kind))
            if kind == 'box':
                self._table(name, idx + 3, end)

    def _table(self, title: str, start: int, end: int):
        header, rows = [], []
        started = False
        for i in range(start, end):
            ln = self.lines[i]
            toks = [t for t in re.split(r'[\s|]+', ln.strip()) if t]
            if toks and all(is_number(t) or t in NONNUM for t in toks) and any(is_number(t) for t in toks):
                rows.append(toks)
                started = True
            elif started:
                if not ln.strip():
                    break
                if set(ln.strip()) <= {'_', '-'}:
                    continue
                break
            else:
                if ln.strip():
                    header.append(ln)
        self.tables[title] = {'header': header, 'rows': rows, 'start': start}

    def section_lines(self, name: str):
        """Lines of the section whose banner equals `name` (case-insensitive), or None when there is no such banner."""
        want = norm(name)
        out = None
        for sname, a, b, kind in self.sections:
            if norm(sname) == want:
                out = (out or []) + self.lines[a:b]
        return out

    def header_lines(self):
        """Lines before the first banner (title block, metadata)."""
        first = self.sections[0][1] if self.sections else len(self.lines)
        return self.lines[:first]


def norm(s: str) -> str:
    return re.sub(r'\s+', ' ', s.strip()).lower()


def exact_label_lines(lines: list, label: str) -> list:
    """(line, remainder) for lines whose text starts (after indentation) with exactly `label:`."""
    out = []
    for ln in lines:
        s = ln.strip()
        if s.startswith(label + ':') and (len(s) == len(label) + 1 or s[len(label) + 1] in ' \t'):
            out.append((ln, s[len(label) + 1:].strip()))
    return out


def equals_label_lines(lines: list, label: str) -> list:
    out = []
    for ln in lines:
        m = re.match(r'^\s*' + re.escape(label) + r'\s*=\s*(.*?)\s*$', ln)
        if m:
            out.append((ln, m.group(1)))
    return out


def value_unit(rest: str):
    """First token = value, second (if it is the only other token) = unit; mirrors nothing: plain whitespace split."""
    toks = rest.split()
    if not toks:
        return None, None
    return toks[0], (toks[1] if len(toks) == 2 else None)


def all_labels(report: 'Report') -> set:
    """Every (indent, label) the report prints in `label: ...` form (every colon split is offered)."""
    labs = set()
    for ln in report.lines:
        if ':' not in ln or not ln.strip() or ln.strip().startswith('*'):
            continue
        indent = len(ln) - len(ln.lstrip(' '))
        s = ln.strip()
        for m in re.finditer(r':(\s|$)', s):
            lab = s[:m.start()]
            if lab and len(lab) < 90:
                labs.add((indent, lab))
    return labs
