"""C01 — levelized cost equals its documented definition.

M1  Levelized.tla: 3 economic models x 6 end-use branches over small constants; invariants are sanity + the algebraic
    lemmas C11/C18 need (homogeneity, monotonicity).
M2  every vector TLC dumps (inputs + exact expected LCOE/LCOH/LCOC) is replayed into the real CalculateLCOELCOHLCOC.
M3  economics snapshots of real runs (and of the add-on recomputation) validated by TraceLevelized.tla.
"""
from __future__ import annotations

import json
import random
from fractions import Fraction
from types import SimpleNamespace as NS

from . import gen, sim, tlc
from .common import MachineryFailure, Result, bind_repo, rat, rats, seed


def branch_of(model) -> str | None:
    from geophires_x.OptionList import EndUseOptions, PlantType

    eu = model.surfaceplant.enduse_option.value
    pt = model.surfaceplant.plant_type.value
    if eu == EndUseOptions.ELECTRICITY:
        return 'elec'
    if eu == EndUseOptions.HEAT:
        if pt == PlantType.ABSORPTION_CHILLER:
            return 'chiller'
        if pt == PlantType.HEAT_PUMP:
            return 'heatpump'
        if pt == PlantType.DISTRICT_HEATING:
            return 'dh'
        return 'heat'
    return 'cogen'


def _arr(x, L):
    try:
        lst = list(x)
    except TypeError:
        lst = []
    if len(lst) != L:
        return None
    return lst


def record(econ, model) -> dict | None:
    """The record q of LevelizedDef.tla from an economics object (main or add-on) and the model."""
    from geophires_x.OptionList import EconomicModel

    sp = model.surfaceplant
    L = int(sp.plant_lifetime.value)
    m = None  # (option enums define __eq__ without __hash__: never dictionary keys)
    for name, member in (('FCR', EconomicModel.FCR), ('STD', EconomicModel.STANDARDIZED_LEVELIZED_COST), ('BICYCLE', EconomicModel.BICYCLE)):
        if econ.econmodel.value == member:
            m = name
    b = branch_of(model)
    if m is None or b is None:
        return None
    rate = float(sp.electricity_cost_to_buy.value)

    def energy(p):
        a = _arr(p.value, L)
        return rats(a) if a is not None else rats([0.0] * L)

    def cost_series(p, mult):
        a = _arr(getattr(p, 'value', None), L)
        if a is None:
            return rats([0.0] * L)
        return [rat(Fraction(float(v)) * Fraction(mult)) for v in a]

    pump = cost_series(sp.PumpingkWh, Fraction(rate) / 10 ** 6)
    hp = cost_series(getattr(sp, 'heat_pump_electricity_kwh_used', NS(value=None)), Fraction(rate) / 10 ** 6) if b == 'heatpump' else rats([0.0] * L)
    ng = cost_series(econ.annualngcost, 1) if b == 'dh' else rats([0.0] * L)
    dem = rat(getattr(sp, 'annual_heating_demand', NS(value=0.0)).value) if b == 'dh' else '1'
    q = {
        'L': L, 'ccap': rat(econ.CCap.value), 'coam': rat(econ.Coam.value), 'ratio': rat(econ.CAPEX_heat_electricity_plant_ratio.value),
        'ic': rat(econ.inflrateconstruction.value),
        'eE': energy(sp.NetkWhProduced), 'eH': energy(sp.HeatkWhProduced),
        'eC': energy(getattr(sp, 'cooling_kWh_Produced', NS(value=None))),
        'xP': pump, 'xHP': hp, 'xNG': ng,
        'aP': rat(econ.averageannualpumpingcosts.value), 'aHP': rat(econ.averageannualheatpumpelectricitycost.value),
        'aNG': rat(econ.averageannualngcost.value), 'dem': dem,
        'fcr': rat(econ.FCR.value), 'd': rat(econ.discountrate.value), 'fib': rat(econ.FIB.value), 'bir': rat(econ.BIR.value),
        'eir': rat(econ.EIR.value), 'ctr': rat(econ.CTR.value), 'gtr': rat(econ.GTR.value), 'ptr': rat(econ.PTR.value),
        'itc': rat(econ.RITC.value), 'infl': rat(econ.RINFL.value),
    }
    return {'m': m, 'b': b, 'q': q,
            'out': {'lcoe': rat(econ.LCOE.value), 'lcoh': rat(econ.LCOH.value), 'lcoc': rat(getattr(econ, 'LCOC', NS(value=0.0)).value)}}


def project(stage, model, ctx):
    if stage != 'economics_calculated':
        return
    fam = type(model.economics).__name__
    ctx['family'] = fam
    if fam in ('SUTRAEconomics', 'AGSEconomics'):
        ctx['c01_unexplained'] = fam
        return
    try:
        ctx['c01'] = record(model.economics, model)
        a = getattr(model, 'addeconomics', None)
        if a is not None and model.economics.DoAddOnCalculations.value:
            r = record(a, model)
            if r is not None:
                r['out']['lcoc'] = 'undef'  # the add-on recomputation discards LCOC: nothing reported, clause skipped
                ctx['c01_addon'] = r
    except Exception as ex:  # noqa: BLE001
        ctx['c01_unexplained'] = f'{type(ex).__name__}: {ex}'


# ---------------------------------------------------------------- M2

def replay_vectors(res: Result, vectors: list):
    bind_repo()
    import numpy as np
    from geophires_x.Economics import CalculateLCOELCOHLCOC
    from geophires_x.OptionList import EconomicModel, EndUseOptions, PlantType

    em = {'FCR': EconomicModel.FCR, 'STD': EconomicModel.STANDARDIZED_LEVELIZED_COST, 'BICYCLE': EconomicModel.BICYCLE}
    br = {'elec': (EndUseOptions.ELECTRICITY, PlantType.SUB_CRITICAL_ORC), 'heat': (EndUseOptions.HEAT, PlantType.INDUSTRIAL),
          'cogen': (EndUseOptions.COGENERATION_TOPPING_EXTRA_HEAT, PlantType.SUB_CRITICAL_ORC),
          'chiller': (EndUseOptions.HEAT, PlantType.ABSORPTION_CHILLER), 'heatpump': (EndUseOptions.HEAT, PlantType.HEAT_PUMP),
          'dh': (EndUseOptions.HEAT, PlantType.DISTRICT_HEATING)}
    cog = [EndUseOptions.COGENERATION_TOPPING_EXTRA_HEAT, EndUseOptions.COGENERATION_TOPPING_EXTRA_ELECTRICITY,
           EndUseOptions.COGENERATION_BOTTOMING_EXTRA_ELECTRICITY, EndUseOptions.COGENERATION_BOTTOMING_EXTRA_HEAT,
           EndUseOptions.COGENERATION_PARALLEL_EXTRA_HEAT, EndUseOptions.COGENERATION_PARALLEL_EXTRA_ELECTRICITY]
    f = lambda s_: float(Fraction(s_))  # noqa: E731
    bad = 0
    for n, vec in enumerate(vectors):
        q = vec['q']
        eu, pt = br[vec['b']]
        if vec['b'] == 'cogen':
            eu = cog[n % len(cog)]  # all six cogeneration variants share the definition
        V = lambda x: NS(value=x)  # noqa: E731,N806
        arr = lambda name: np.array([f(x) for x in q[name]])  # noqa: E731
        econ = NS(CCap=V(f(q['ccap'])), Coam=V(f(q['coam'])), CAPEX_heat_electricity_plant_ratio=V(f(q['ratio'])),
                  econmodel=V(em[vec['m']]), FCR=V(f(q['fcr'])), inflrateconstruction=V(f(q['ic'])),
                  averageannualpumpingcosts=V(f(q['aP'])), averageannualheatpumpelectricitycost=V(f(q['aHP'])),
                  averageannualngcost=V(f(q['aNG'])), annualngcost=V(arr('xNG')), discountrate=V(f(q['d'])),
                  FIB=V(f(q['fib'])), BIR=V(f(q['bir'])), CTR=V(f(q['ctr'])), EIR=V(f(q['eir'])), RINFL=V(f(q['infl'])),
                  PTR=V(f(q['ptr'])), RITC=V(f(q['itc'])), GTR=V(f(q['gtr'])))
        sp = NS(enduse_option=V(eu), plant_type=V(pt), NetkWhProduced=V(arr('eE')), HeatkWhProduced=V(arr('eH')),
                cooling_kWh_Produced=V(arr('eC')), PumpingkWh=V(arr('xP') * 1e6), electricity_cost_to_buy=V(1.0),
                heat_pump_electricity_kwh_used=V(arr('xHP') * 1e6), annual_heating_demand=V(f(q['dem'])),
                plant_lifetime=V(q['L']))
        err = None
        try:
            with np.errstate(all='ignore'):
                got = CalculateLCOELCOHLCOC(econ, NS(surfaceplant=sp))
        except Exception as ex:  # noqa: BLE001
            got = None
            err = f'{type(ex).__name__}: {ex}'
        ok = got is not None
        if ok:
            for name, g in zip(('lcoe', 'lcoh', 'lcoc'), got):
                w = vec['out'][name]
                if w == 'undef':
                    continue
                w = Fraction(w)
                g = float(g)
                if g != g or g in (float('inf'), float('-inf')):
                    ok = False
                    break
                if abs(Fraction(g) - w) > Fraction(1, 10 ** 11) * max(abs(w), Fraction(1, 10 ** 6)):
                    ok = False
                    break
        res.count('m2_vectors_replayed')
        if not ok:
            bad += 1
            if bad <= 30:
                key = {'clause': 'C01_m2', 'model': vec['m'], 'branch': vec['b'], 'q': json.dumps(q, sort_keys=True)}
                res.violation(key, f'CalculateLCOELCOHLCOC differs from LevelizedDef.tla for model {vec["m"]} branch {vec["b"]}',
                              {'vector': vec, 'got': [float(x) for x in got] if got else None, 'error': err})
    res.count('m2_mismatches', bad)
    if vectors:
        res.sample({'m2_vector': vectors[len(vectors) * 2 // 3]})


# ---------------------------------------------------------------- M3

def build_jobs(tier: str) -> list:
    rng = random.Random(seed() * 15485863 + 1)
    n = 220 if tier == 'quick' else 2200
    lifetimes = None if tier == 'quick' else list(range(1, 41)) + [50, 60, 75, 99, 100]
    jobs = []
    for tag, text, p in gen.grid(seed() * 31 + 1, n, resmodels=(4, 3) if tier == 'quick' else (4, 3, 4, 3, 4, 3, 1, 2), lifetimes=lifetimes):
        q = dict(p)
        if q.get('Economic Model') == 3 and rng.random() < 0.7:
            q['Property Tax Rate'] = gen.fmt(rng.uniform(0.0, 0.05))
            q['Combined Income Tax Rate'] = gen.fmt(rng.uniform(0.0, 0.5))
            q['Gross Revenue Tax Rate'] = gen.fmt(rng.uniform(0.0, 0.2))
        if q.get('End-Use Option') in gen.COGEN and rng.random() < 0.5:
            q['CHP Electrical Plant Cost Allocation Ratio'] = gen.fmt(rng.uniform(0.05, 0.95))
        jobs.append((tag, gen.to_text(q)))
    for name, text in sim.example_inputs().items():
        if name.startswith(('Beckers', 'example6', 'example7', 'MC_', 'SUTRA')):
            continue
        if tier == 'quick' and name.startswith(('example_SBT',)):
            continue
        jobs.append((f'example:{name}', text))
    return jobs


def validate(res: Result, out: list) -> dict:
    traces, meta = [], {}
    tid = 0
    for o in out:
        if o['status'] == 'machinery':
            raise MachineryFailure(o['error'] + '\n' + o.get('error_tb', ''))
        if o['status'] != 'ok':
            res.count('rejected_inputs')
            continue
        if 'c01' not in o or o['c01'] is None:
            res.count('unexplained_family')
            continue
        for kind in ('c01', 'c01_addon'):
            if o.get(kind):
                tid += 1
                t = dict(o[kind])
                t['tid'] = tid
                traces.append(t)
                meta[tid] = (o, kind)
    verdicts, ds, gs = tlc.validate_traces('TraceLevelized', 'TraceLevelized.cfg', traces)
    res.states += ds
    res.transitions += gs
    res.traces += len(traces)
    counts = {}
    for t in traces:
        vd = verdicts[t['tid']]
        o, kind = meta[t['tid']]
        res.case(o['tag'] + ':' + kind)
        bkey = f"{t['m']}/{t['b']}" + ('/addon' if kind == 'c01_addon' else '')
        counts[bkey] = counts.get(bkey, 0) + 1
        for c in vd['e']:
            counts[c] = counts.get(c, 0) + 1
        for c in vd['s']:
            counts['skipped:' + c] = counts.get('skipped:' + c, 0) + 1
        for c in vd['f']:
            wit = [w for w in vd['w'] if w.get('clause') == c][:1]
            res.violation({'clause': c, 'input': o['tag'], 'series': kind},
                          f'{c} fails on {o["tag"]} ({kind}): {json.dumps(wit)[:300]}',
                          {'input_text': o['input'], 'verdict': vd, 'trace': t})
    res.cov['branches_and_clauses'] = counts
    if traces:
        t0 = traces[len(traces) // 2]
        res.sample({'m3_trace': {'m': t0['m'], 'b': t0['b'], 'out': t0['out'],
                                 'q': {k_: (v_[:3] + ['...'] if isinstance(v_, list) and len(v_) > 3 else v_) for k_, v_ in t0['q'].items()}},
                    'verdict': verdicts[t0['tid']]})
    return counts


def run(tier: str) -> int:
    res = Result('C01', tier)
    cfg = f'MC_Levelized_{tier}.cfg'
    r = tlc.run_tlc('Levelized', cfg, workers=16)
    tlc.check_mc(r, cfg, ['LevelizeFCR', 'LevelizeStd', 'LevelizeBicycle'])
    if r['violated']:
        raise MachineryFailure(f'Levelized.tla violates {r["violated"]}\n' + r['raw'][-2500:])
    res.add_mc(r, cfg)
    d = tlc.run_tlc('Levelized', f'Dump_Levelized_{tier}.cfg', workers=1, coverage=False)
    tlc.check_mc(d, 'dump')
    vectors = [p for p in d['prints'] if isinstance(p, dict) and 'out' in p]
    if not vectors:
        raise MachineryFailure('no vectors dumped')
    res.add_mc(d, f'Dump_Levelized_{tier}.cfg (M2 vector generation)')
    replay_vectors(res, vectors)
    jobs_ = build_jobs(tier)
    # each of a seeded choice of the jobs once more, followed in the same process by neighbours that restate ONE of its figures: a value
    # kept from one run for the next (a memo keyed by too few arguments, a mutated default) shows in the neighbour's own trace
    chains = sim.neighbour_chains(jobs_, 10 if tier == 'quick' else 60, 3, seed() * 101 + 1, prefer=('Inflation Rate', 'Discount Rate', 'Plant Lifetime', 'Fixed Charge Rate', 'Inflated Bond Interest Rate', 'Inflated Equity Interest Rate', 'Combined Income Tax Rate', 'Utilization Factor'))
    out = sim.run_many(jobs_, 'harness.c01:project') + sim.run_chains(chains, 'harness.c01:project')
    counts = validate(res, out)
    need = [f'{m}/{b}' for m in ('FCR', 'STD', 'BICYCLE') for b in ('elec', 'heat', 'cogen', 'chiller', 'heatpump', 'dh')]
    missing = [k for k in need if not counts.get(k)]
    if missing:
        raise MachineryFailure(f'C01: model/branch combinations never exercised by a real run: {missing}')
    res.cov['rule'] = ('M1: all (model, branch, L<=MaxL, costs, energies, extras, rates) of the cfg; M2: every dumped vector through '
                       'the real CalculateLCOELCOHLCOC; M3: seeded configurations over all economic models x end-uses x plants '
                       '(+ add-on recomputation, examples incl. SBT); distinct = input tag x series')
    res.assumptions += ['tolerance 1e-9 relative to the exact value', 'CLGS/AGS (economic model 4) and SUTRA not covered',
                        'BICYCLE cogeneration heat side carries no pumping-electricity cost (as coded; FCR/standard do)']
    return res.finish()


def replay(path: str) -> int:
    data = json.loads(open(path).read())
    res = Result('C01', 'quick')
    rp = data['replay']
    if 'vector' in rp:
        replay_vectors(res, [rp['vector']])
    elif 'input_text' in rp:
        validate(res, sim.run_many([('replay', rp['input_text'])], 'harness.c01:project'))
    return res.finish()
