"""Runs geophires_monte_carlo.MC_GeoPHIRES3.main with a chosen pool size (by patching os.cpu_count in THIS driver
process only; no source change) -- python -m harness.mc_driver <workers> <code_file> <input> <settings> <output>"""
import os
import sys


def main():
    workers = int(sys.argv[1])
    if workers > 0:
        os.cpu_count = lambda: workers
        if hasattr(os, 'process_cpu_count'):
            os.process_cpu_count = lambda: workers
    if os.environ.get('VERIF_MC_COARSE_CLOCK'):
        # a host whose wall clock ticks coarsely (here: whole seconds; still monotone).  Nothing in the property allows the draws to
        # depend on the clock, so every worker must still get its own stream.
        import time
        _t, _tn = time.time, time.time_ns
        time.time = lambda: float(int(_t()))
        time.time_ns = lambda: (_tn() // 10 ** 9) * 10 ** 9
    import matplotlib
    matplotlib.use('Agg')
    from geophires_monte_carlo import MC_GeoPHIRES3

    pre = os.environ.pop('VERIF_MC_PRELUDE', None)
    if pre:
        # an earlier study in this process on the same base file, which then held other content (not observed: no trace directory)
        pbase, psettings, pout = pre.split('|')
        base = sys.argv[3]
        requested = open(base).read()
        tr = os.environ.pop('VERIF_MC_TRACE_DIR', None)
        try:
            open(base, 'w').write(open(pbase).read())
            try:
                MC_GeoPHIRES3.main(command_line_args=[sys.argv[2], base, psettings, pout])
            except BaseException:  # noqa: BLE001
                pass
        finally:
            open(base, 'w').write(requested)
            if tr is not None:
                os.environ['VERIF_MC_TRACE_DIR'] = tr
    MC_GeoPHIRES3.main(command_line_args=sys.argv[2:])


if __name__ == '__main__':
    main()
