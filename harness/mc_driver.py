"""Runs geophires_monte_carlo.MC_GeoPHIRES3.main with a chosen pool size (by patching os.cpu_count in THIS driver
process only; no source change) -- python -m harness.mc_driver <workers> <code_file> <input> <settings> <output>"""
import os
import sys


def main():
    workers = int(sys.argv[1])
    if workers > 0:
        os.cpu_count = lambda: workers
        if hasattr(os, 'process_cpu_count'):
            os.process_cpu_count = lambda: workers
    import matplotlib
    matplotlib.use('Agg')
    from geophires_monte_carlo import MC_GeoPHIRES3

    MC_GeoPHIRES3.main(command_line_args=sys.argv[2:])


if __name__ == '__main__':
    main()
