"""Observer loaded inside Monte Carlo worker processes (GEOPHIRES_X_VERIF_OBSERVER=harness.mc_observer).

Writes one ndjson file per process under $VERIF_MC_TRACE_DIR: per-process sequence numbers, CLOCK_MONOTONIC stamps
(only ever used to detect overlap of critical sections), RNG fingerprints before/after drawing, the sampled entries
and the row text exactly as appended."""
import hashlib
import json
import os
import time

_seq = 0
_pid = None
_fh = None


def _fingerprint():
    import numpy as np

    st = np.random.get_state()
    return hashlib.sha256(st[1].tobytes() + str(st[2]).encode()).hexdigest()[:16]


def observe(stage, model=None, **kw):
    global _seq, _pid, _fh
    if not stage.startswith('mc_'):
        return
    d = os.environ.get('VERIF_MC_TRACE_DIR')
    if not d:
        return
    pid = os.getpid()
    if pid != _pid:  # forked child: own file, own counter
        _pid, _seq = pid, 0
        _fh = open(os.path.join(d, f'{pid}.ndjson'), 'a')
    _seq += 1
    rec = {'pid': pid, 'seq': _seq, 'ev': stage[3:], 't': time.monotonic_ns()}
    if stage in ('mc_task_start', 'mc_drawn'):
        rec['rng'] = _fingerprint()
    for k, v in kw.items():
        rec[k] = v if isinstance(v, (str, int, float, bool)) or v is None else str(v)
    _fh.write(json.dumps(rec) + '\n')
    _fh.flush()
