"""C08 — a run is a pure function of its input; runs do not contaminate each other.

M1  Client.tla: every history of <= 5 operations (request on a caching / non-caching client, rewrite of an input file,
    chdir, failing requests): C08_restore, C08_fresh; the pinned design (no restore on failure, cache keyed by path)
    must violate them (vacuity guard).
M2  histories dumped by TLC (exhaustive for 4 operations; sampled by seed for replay) are executed against real
    GeophiresXClient objects in one process each, with inputs from different configuration families.
M3  the recorded histories are validated by TraceClient.tla (restore, freshness against a stand-alone reference run of
    the same content, purity of the outcome); cross-run contamination histories (family A then B then A, default-relying
    inputs after explicit ones, each analytical reservoir model after each other one, one-figure neighbours after their base, and
    runs made to fail at seeded crash points inside the modules' Calculate followed by a reference input) and hash-seed /
    working-directory independence through sub-processes are validated by TraceHistory.tla (C08_pure, C08_restore).
"""
from __future__ import annotations

import contextlib
import hashlib
import io
import json
import logging
import os
import random
from fractions import Fraction
import shutil
import subprocess
import sys
import tempfile
from pathlib import Path

from . import gen, sim, tlc
from .c12 import digest_report
from .common import REPO, VERIF, MachineryFailure, Result, bind_repo, seed, subprocess_env

BAD_LINE = 'Reservoir Depth, 9999\n'   # out of range: the run fails while reading parameters
BAD2 = 'Reservoir Model, 5\nReservoir Output File Name, /nonexistent/profile.txt\n'  # fails later, inside Calculate (sys.exit)


def families(rng: random.Random) -> list:
    """(name, text v1, text v2): cheap inputs from different configuration families."""
    ex = sim.example_inputs()
    fams = []
    for k, (eu, pt, rm) in enumerate([(2, 9, 4), (1, 1, 4), (31, 2, 3), (2, 6, 4), (52, 4, 4), (2, 5, 3)]):
        p = gen.base(random.Random(seed() * 11 + k), rm, eu, pt, (k % 3) + 1, lifetime=rng.choice([5, 10, 20]), steps=2)
        q = dict(p)
        q['Gradient 1'] = gen.fmt(float(p['Gradient 1']) + 7.5)
        fams.append((f'grid-eu{eu}-pt{pt}', gen.to_text(p), gen.to_text(q)))
    for name in ('example_multiple_gradients', 'example1_addons', 'example13'):
        if name in ex:
            t = ex[name]
            fams.append((name, t, t + '\nProduction Flow Rate per Well, 41.5\n'))
    return fams


def replay_history(item):
    """Worker: execute one TLC history against real client objects; returns the recorded events."""
    hist, fam = item
    bind_repo()
    from geophires_x_client import GeophiresXClient
    from geophires_x_client.geophires_input_parameters import GeophiresInputParameters

    name, v1, v2 = fam
    content = {'v1': v1, 'v2': v2, 'bad': v1 + (BAD_LINE if len(name) % 2 else BAD2)}
    root = Path(tempfile.mkdtemp(prefix='vc08_', dir='/dev/shm' if os.path.isdir('/dev/shm') else None))
    dirs = {'d1': root / 'd1', 'd2': root / 'd2'}
    for d in dirs.values():
        d.mkdir()
    paths = {'a': root / 'a.txt', 'b': root / 'b.txt'}
    files0 = dict(hist['files0'])
    for p, ver in files0.items():
        paths[p].write_text(content[ver])
    clients = {'cached': GeophiresXClient(enable_caching=True), 'plain': GeophiresXClient(enable_caching=False)}
    cwd_start, argv_start = os.getcwd(), list(sys.argv)
    home_argv = ['caller-program', '--flag']
    sys.argv = list(home_argv)
    os.chdir(dirs[hist['cwd0']])
    rev = {str(v): k for k, v in dirs.items()}
    events = []
    logging.disable(logging.CRITICAL)
    sink = io.StringIO()
    try:
        for op in hist['ops']:
            if op['op'] == 'rewrite':
                paths[op['path']].write_text(content[op['version']])
                events.append({'op': 'rewrite', 'path': op['path'], 'version': op['version']})
            elif op['op'] == 'chdir':
                os.chdir(dirs[op['dir']])
                events.append({'op': 'chdir', 'dir': op['dir']})
            else:
                cwd0 = os.getcwd()
                ev = {'op': 'request', 'client': op['client'], 'path': op['path'], 'cwd0': rev.get(cwd0, cwd0)}
                try:
                    with contextlib.redirect_stdout(sink), contextlib.redirect_stderr(sink):
                        r = clients[op['client']].get_geophires_result(GeophiresInputParameters(from_file_path=paths[op['path']]))
                    ev['outcome'] = 'ok'
                    ev['digest'] = digest_report(Path(r.output_file_path).read_text())
                except Exception as ex:  # noqa: BLE001  (the client documents RuntimeError; any exception is a refusal, its type is recorded)
                    ev['outcome'] = 'fail'
                    ev['digest'] = 'none'
                    ev['exception'] = type(ex).__name__
                cwd1 = os.getcwd()
                ev['cwd1'] = rev.get(cwd1, cwd1)
                ev['argv_same'] = (sys.argv == home_argv)
                events.append(ev)
                # a caller whose directory was changed under its feet would go on from there: keep the spec and the
                # process in step by restoring only AFTER recording (so one missing restore is reported once)
                if cwd1 != cwd0:
                    os.chdir(cwd0)
                if sys.argv != home_argv:
                    sys.argv = list(home_argv)
    finally:
        os.chdir(cwd_start)
        sys.argv = argv_start
        logging.disable(logging.NOTSET)
        shutil.rmtree(root, ignore_errors=True)
    return {'family': name, 'files0': files0, 'cwd0': hist['cwd0'], 'events': events, 'bad': ['bad']}


# ---- parameters whose reading touches other parameters: the order in which the reader visits them must not depend on the hash seed

def _values(m) -> dict:
    from .c07 import num, params_of
    out = {}
    for mod, p in params_of(m):
        if not hasattr(p, 'Name') or not hasattr(p, 'value'):
            continue
        v = p.value
        try:
            out[(mod, p.Name.strip())] = repr([float(x) for x in v]) if hasattr(v, '__len__') and not isinstance(v, str) else repr(num(v) if num(v) is not None else str(v))
        except (TypeError, ValueError):
            out[(mod, p.Name.strip())] = repr(str(v))
    return out


def side_effects(item):
    """Worker: for every numeric / option parameter of one family, the OTHER parameters whose value changes when it alone is added
    to the base input (the real Model() + read_parameters)."""
    from .c07 import build, declared, params_of
    fam, base, part, nparts = item
    try:
        m0 = build(base)
    except BaseException:  # noqa: BLE001
        return []
    v0 = _values(m0)
    out, seen = [], set()
    for mod, p in params_of(m0):
        if not hasattr(p, 'Name'):
            continue
        name = p.Name.strip()
        d = declared(p)
        if d is None or name in seen:
            continue
        seen.add(name)
        if (len(seen) - 1) % nparts != part:      # (one family's parameters are shared out over `nparts` processes)
            continue
        if d['kind'] == 'int':
            alts = [a for a in sorted(set(d['allow'])) if str(a) != str(d['cur']).split('/')[0]][:3]
        else:
            lo, hi = float(Fraction(d['lo'])), float(Fraction(d['hi']))
            if not (abs(lo) < 1e12 and abs(hi) < 1e12):
                continue
            alts = [lo + (hi - lo) * f for f in (0.31, 0.62)]
        eff = set()
        for a in alts[:2]:
            try:
                m1 = build(base.rstrip('\n') + f'\n{name}, {a!r}\n')
            except BaseException:  # noqa: BLE001
                continue
            v1 = _values(m1)
            eff |= {k for k in v1 if k in v0 and v1[k] != v0[k] and k[1] != name}
        if True:
            out.append({'family': fam, 'name': name, 'alts': [repr(a) for a in alts], 'effects': sorted(f'{k[0]}.{k[1]}' for k in eff)})
    return out


def cross_pairs(bases: list, cap: int) -> list:
    """Inputs that give two interfering parameters conflicting values: one writes the other (aliases, derived defaults) or both
    write a third.  Discovery runs the real reader once per parameter; it is cached per source tree (.cache, keyed by the tree's hash)."""
    from .common import CACHE, source_hash
    cf = CACHE / f'c08_pairs_{source_hash()}.json'
    if cf.exists():
        found = json.loads(cf.read_text())
    else:
        found = [e for lst in sim.call_in_pool('harness.c08:side_effects', [(f, b, k, 3) for f, b in bases for k in range(3)]) for e in lst]
        CACHE.mkdir(exist_ok=True)
        cf.write_text(json.dumps(found))
    by_fam = {}
    for e in found:
        by_fam.setdefault(e['family'], {})[e['name']] = e
    base_of = dict(bases)
    rel = {}     # (a, b) -> {'common': [...], 'writes': bool}
    for fam, d in by_fam.items():
        for a in d.values():
            if not a['effects']:
                continue
            targets = {x.split('.', 1)[1] for x in a['effects']}
            for b in d.values():
                if b is a:
                    continue
                common = set(a['effects']) & set(b['effects'])
                writes = b['name'] in targets
                if not (common or writes):
                    continue
                key = tuple(sorted((a['name'], b['name'])))
                r = rel.setdefault(key, {'common': set(), 'writes': False, 'families': []})
                r['common'] |= common
                r['writes'] = r['writes'] or writes
                if fam not in r['families']:
                    r['families'].append(fam)
    out = []
    for (a, b), r in sorted(rel.items(), key=lambda kv: (not kv[1]['writes'], kv[0])):
        fams = list(r['families'])
        if r['writes']:     # an alias may only matter in another family than the one it was noticed in
            pref = [f for f in ('fervo', 'sbt', 'standard') if f in by_fam and a in by_fam[f] and b in by_fam[f]]
            fams = pref + [f for f in fams if f not in pref]
        for fam in fams[: (3 if r['writes'] else 1)]:
            ea, eb = by_fam[fam][a], by_fam[fam][b]
            if not ea['alts'] or not eb['alts']:
                continue
            out.append({'family': fam, 'a': a, 'b': b, 'common': sorted(r['common'])[:4], 'writes': r['writes'],
                        'text': base_of[fam].rstrip('\n') + f"\n{a}, {ea['alts'][0]}\n{b}, {eb['alts'][-1]}\n"})
    return out[:cap]


def reference_digests(fams: list) -> dict:
    jobs = []
    for name, v1, v2 in fams:
        jobs += [(f'{name}|v1', v1), (f'{name}|v2', v2)]
    out = sim.run_many(jobs, 'harness.c12:project', keep_report=True)
    refs = {}
    for o in out:
        if o['status'] != 'ok':
            raise MachineryFailure(f'reference run {o["tag"]} failed: {o["error"]}')
        refs[o['tag']] = digest_report(o['report'])
    return refs


def full_digest(report_path) -> str:
    """Report text (without date / time lines) plus the JSON side file written next to it, which carries the unrounded figures."""
    rp = Path(report_path)
    dg = digest_report(rp.read_text())
    js = rp.with_suffix('.json')
    if js.exists():
        try:
            dg += ':' + hashlib.sha256(json.dumps(json.loads(js.read_text()), sort_keys=True).encode()).hexdigest()[:12]
        except ValueError:
            dg += ':unparsable-json'
    return dg


def sequence_history(item):
    """Worker: a sequence of different inputs run in ONE process through fresh non-caching clients (contamination)."""
    tag, texts = item
    bind_repo()
    from geophires_x_client import GeophiresXClient
    from geophires_x_client.geophires_input_parameters import GeophiresInputParameters

    root = Path(tempfile.mkdtemp(prefix='vc08s_', dir='/dev/shm' if os.path.isdir('/dev/shm') else None))
    cwd0, argv0 = os.getcwd(), list(sys.argv)
    logging.disable(logging.CRITICAL)
    sink = io.StringIO()
    out = []
    try:
        for k, (ident, text) in enumerate(texts):
            f = root / f'in{k}.txt'
            f.write_text(text)
            try:
                with contextlib.redirect_stdout(sink), contextlib.redirect_stderr(sink):
                    r = GeophiresXClient(enable_caching=False).get_geophires_result(GeophiresInputParameters(from_file_path=f))
                dg = full_digest(r.output_file_path)
            except Exception as ex:  # noqa: BLE001
                dg = 'failed'
            out.append({'input': ident, 'digest': dg, 'how': f'{tag}#{k}'})
    finally:
        os.chdir(cwd0)
        sys.argv = argv0
        logging.disable(logging.NOTSET)
        shutil.rmtree(root, ignore_errors=True)
    return out


def reservoir_neighbours(item):
    """Worker: for one input, the inputs that differ from it in ONE figure the input states itself (reservoir, wellbore, surface plant or
    economics parameter: x 0.9; counts + 1)."""
    from .c07 import build
    ident, text = item
    try:
        m = build(text, read=False)
        mods = [m.reserv, m.wellbores, m.surfaceplant, m.economics]
        names = {p.Name.strip() for md in mods for p in md.ParameterDict.values() if type(p).__name__ in ('floatParameter', 'intParameter')}
        ints = {p.Name.strip() for md in mods for p in md.ParameterDict.values() if type(p).__name__ == 'intParameter'}
    except BaseException:  # noqa: BLE001
        return []
    out, seen = [], set()
    for ln in text.splitlines():
        parts = [x.strip() for x in ln.split(',')]
        if len(parts) < 2 or parts[0] not in names or parts[0] in seen:
            continue
        try:
            x = float(parts[1])
        except ValueError:
            continue
        seen.add(parts[0])
        if parts[0] in ints:
            if not parts[0].startswith('Number of'):
                continue        # an option switches the model: not a neighbour
            new = str(int(x) + 1)
        else:
            new = repr(x * 0.9)
        out.append((f'{ident}~{parts[0]}', text.rstrip('\n') + f'\n{parts[0]}, {new}\n'))
    resnames = {p.Name.strip() for p in m.reserv.ParameterDict.values()}
    return [(nid, ntext, nid.split('~', 1)[1] in resnames) for nid, ntext in out]


class InjectedFault(ArithmeticError):
    """A failure raised at a chosen point of a run (any line of any module's Calculate may fail: a numeric error, an interrupt)."""


def crash_history(item):
    """Worker: in ONE process: input A; input B recorded (which lines of the modules' `Calculate` bodies it executes); then, for a
    seeded choice of those lines, B again with a failure raised when the line is first reached, followed by A again.  The failed
    run must leave nothing behind: A's result, the working directory and the argument vector are as before."""
    tag, (ida, ta), (idb, tb), npoints, rseed, part, nparts = item
    bind_repo()
    from geophires_x_client import GeophiresXClient
    from geophires_x_client.geophires_input_parameters import GeophiresInputParameters

    src = str(REPO / 'src' / 'geophires_x')
    root = Path(tempfile.mkdtemp(prefix='vc08k_', dir='/dev/shm' if os.path.isdir('/dev/shm') else None))
    cwd0, argv0 = os.getcwd(), list(sys.argv)
    home_argv = ['caller-program', '--flag']
    sys.argv = list(home_argv)
    logging.disable(logging.CRITICAL)
    sink = io.StringIO()
    n = [0]

    def request(text):
        n[0] += 1
        f = root / f'in{n[0]}.txt'
        f.write_text(text)
        try:
            with contextlib.redirect_stdout(sink), contextlib.redirect_stderr(sink):
                r = GeophiresXClient(enable_caching=False).get_geophires_result(GeophiresInputParameters(from_file_path=f))
            return full_digest(r.output_file_path)
        except BaseException as ex:  # noqa: BLE001
            return f'failed:{type(ex).__name__}'

    seen, order = set(), []

    def recorder(frame, event, arg):
        co = frame.f_code
        if event != 'call' or co.co_name != 'Calculate' or not co.co_filename.startswith(src):
            return None

        def local(fr, ev, a):
            if ev == 'line':
                k = (fr.f_code.co_filename, fr.f_lineno)
                if k not in seen:
                    seen.add(k)
                    order.append(k)
            return local
        return local

    def injector_for(point):
        hit = [False]

        def tracer(frame, event, arg):
            co = frame.f_code
            if hit[0] or event != 'call' or co.co_name != 'Calculate' or co.co_filename != point[0]:
                return None

            def local(fr, ev, a):
                if ev == 'line' and not hit[0] and fr.f_lineno == point[1]:
                    hit[0] = True
                    raise InjectedFault(f'injected at {os.path.basename(point[0])}:{point[1]}')
                return local
            return local
        return tracer, hit

    out = {'tag': tag, 'events': [], 'crashes': []}
    import time
    t0 = time.time()
    try:
        out['events'].append({'input': ida, 'digest': request(ta), 'how': f'{tag}#first'})
        sys.settrace(recorder)
        try:
            dgb = request(tb)
        finally:
            sys.settrace(None)
        out['events'].append({'input': idb, 'digest': dgb, 'how': f'{tag}#recorded'})
        rng = random.Random(rseed)
        byfile = {}
        for k in order:
            byfile.setdefault(k[0], []).append(k)
        points = [rng.choice(v) for v in byfile.values()]       # one point in every module's Calculate ...
        rest = [k for k in order if k not in points]
        rng.shuffle(rest)
        points = (points + rest)[:max(npoints, len(points))]      # ... all of them, filled up to npoints with further lines
        points = points[part::nparts]                             # (the points of one history are shared out over `nparts` processes)
        out['lines_seen'] = len(order)
        for pt in points:
            tracer, hit = injector_for(pt)
            c0 = os.getcwd()
            sys.settrace(tracer)
            try:
                got = request(tb)
            finally:
                sys.settrace(None)
            where = f'{os.path.basename(pt[0])}:{pt[1]}'
            out['crashes'].append({'at': where, 'reached': hit[0], 'outcome': 'failed' if got.startswith('failed') else 'completed',
                                   'cwd_same': os.getcwd() == c0, 'argv_same': sys.argv == home_argv, 'input': idb})
            out['events'].append({'input': f'{idb}!failure at {where}', 'digest': got.split(':')[0], 'how': f'{tag}#failure raised at {where}',
                                  'restored': os.getcwd() == c0 and sys.argv == home_argv})
            if os.getcwd() != c0:
                os.chdir(c0)
            if sys.argv != home_argv:
                sys.argv = list(home_argv)
            out['events'].append({'input': ida, 'digest': request(ta), 'how': f'{tag}#after {idb} failed at {where}'})
    finally:
        sys.settrace(None)
        os.chdir(cwd0)
        sys.argv = argv0
        logging.disable(logging.NOTSET)
        shutil.rmtree(root, ignore_errors=True)
    out['seconds'] = round(time.time() - t0, 1)
    out['pair'] = f'{ida} / {idb}'
    return out


def cli_run(item):
    """Worker: python -m geophires_x in a sub-process with a given hash seed and start directory."""
    ident, text, hashseed, startdir = item
    root = Path(tempfile.mkdtemp(prefix='vc08c_', dir='/dev/shm' if os.path.isdir('/dev/shm') else None))
    (root / 'sub').mkdir()
    inp = root / 'in.txt'
    inp.write_text(text)
    out = root / 'res.out'
    cwd = root / 'sub' if startdir == 'sub' else Path('/')
    env = subprocess_env(hashseed=hashseed)
    env.pop('GEOPHIRES_X_VERIF', None)
    p = subprocess.run([sys.executable, '-m', 'geophires_x', str(inp), str(out)], cwd=str(cwd), env=env, capture_output=True, text=True, timeout=2400)
    dg = full_digest(out) if out.exists() and p.returncode == 0 else f'failed rc={p.returncode}'
    shutil.rmtree(root, ignore_errors=True)
    return {'input': ident, 'digest': dg, 'how': f'cli seed={hashseed} cwd={startdir}'}


def run(tier: str, only_key: dict | None = None) -> int:
    import time
    res = Result('C08', tier)
    t_last, phases = [time.time()], {}

    def lap(name):
        now = time.time()
        phases[name] = round(phases.get(name, 0) + now - t_last[0], 1)
        t_last[0] = now
    r = tlc.run_tlc('Client', 'MC_Client.cfg', workers=16, timeout=2400)
    tlc.check_mc(r, 'MC_Client.cfg', ['CacheHit', 'RunOk', 'RunFail', 'Rewrite', 'Chdir'])
    if r['violated']:
        raise MachineryFailure(f'Client.tla (repaired design) violates {r["violated"]}')
    res.add_mc(r, 'MC_Client.cfg')
    rp = tlc.run_tlc('Client', 'MC_Client_pinned.cfg', workers=8, timeout=2400)
    if rp['violated'] not in ('C08_restore', 'C08_fresh'):
        raise MachineryFailure('pinned client design no longer violates C08_restore/C08_fresh: vacuity guard')
    res.cov['pinned_design_counterexample'] = rp['violated']
    # Memo.tla: a table keyed by any proper subset of a function's arguments is exposed by a base run followed by its one-figure
    # neighbours in one process (and by a two-valued grid), not by unrelated runs - the design argument for the neighbour sequences below
    mm = tlc.run_tlc('Memo', 'MC_Memo.cfg', workers=4, timeout=1200)
    tlc.check_mc(mm, 'MC_Memo.cfg', ['Call'])
    if mm['violated']:
        raise MachineryFailure(f'Memo.tla violates {mm["violated"]}')
    res.add_mc(mm, 'MC_Memo.cfg (incomplete memo keys vs neighbour chains)')
    mu = tlc.run_tlc('Memo', 'MC_Memo_unrelated.cfg', workers=4, coverage=False, timeout=1200)
    if mu['violated'] != 'UnrelatedDetects':
        raise MachineryFailure('Memo.tla: unrelated runs expected NOT to expose an incomplete key (vacuity guard)')
    d = tlc.run_tlc('Client', 'Dump_Client.cfg', workers=1, coverage=False, timeout=2400)
    tlc.check_mc(d, 'dump')
    hists = [p for p in d['prints'] if isinstance(p, dict) and 'ops' in p]
    res.add_mc(d, 'Dump_Client.cfg (history generation)')
    res.cov['tlc_histories'] = len(hists)
    rng = random.Random(seed() * 8 + 8)
    # prefer histories that contain a failing request, a rewrite followed by a request, or a cache hit
    def interesting(h):
        ops = h['ops']
        kinds = [o['op'] for o in ops]
        return kinds.count('request') >= 2 and ('rewrite' in kinds)
    pool = [h for h in hists if interesting(h)]
    rng.shuffle(pool)
    rest = [h for h in hists if not interesting(h)]
    rng.shuffle(rest)
    n = 110 if tier == 'quick' else 1600
    chosen = pool[: int(n * 0.8)] + rest[: n - int(n * 0.8)]
    fams = families(rng)
    lap('model checking + history dump')
    refs = reference_digests(fams)
    items = []
    for k, h in enumerate(chosen):
        # TLC's initial state: files \in [Paths -> Versions]; recover it from the first state is not dumped, so draw it
        files0 = {'a': rng.choice(['v1', 'v2', 'bad']), 'b': rng.choice(['v1', 'v2'])}
        items.append(({'files0': files0, 'cwd0': h['start']['cwd'] if h['start']['cwd'] in ('d1', 'd2') else 'd1', 'ops': h['ops']},
                      fams[k % len(fams)]))
    lap('reference runs')
    recs = sim.call_in_pool('harness.c08:replay_history', items)
    traces = []
    for k, rec in enumerate(recs):
        fam = rec['family']
        traces.append({'tid': k + 1, 'files0': rec['files0'], 'cwd0': rec['cwd0'], 'events': rec['events'], 'bad': rec['bad'],
                       'refs': {'v1': refs[f'{fam}|v1'], 'v2': refs[f'{fam}|v2']}, 'family': fam})
    lap('client histories')
    verdicts, ds, gs = tlc.validate_traces('TraceClient', 'TraceClient.cfg', traces)
    res.states += ds
    res.transitions += gs
    res.traces += len(traces)
    counts = {}
    for t in traces:
        vd = verdicts[t['tid']]
        res.case(f"hist#{t['tid']}:{t['family']}:" + ','.join(e['op'][:2] + (e.get('client', '')[:1]) for e in t['events']))
        for c in vd['e']:
            counts[c] = counts.get(c, 0) + 1
        for e in t['events']:
            if e['op'] == 'request':
                counts['requests_' + e['outcome']] = counts.get('requests_' + e['outcome'], 0) + 1
        for c in vd['f']:
            wit = [w for w in vd['w'] if w.get('clause') == c][:2]
            res.violation({'clause': c, 'family': t['family'], 'ops': [e['op'] for e in t['events']]},
                          f'{c} fails in client history #{t["tid"]} ({t["family"]}): {json.dumps(wit)[:300]}',
                          {'history': t, 'verdict': vd, 'family_texts': next(([f_[1], f_[2]] for f_ in fams if f_[0] == t['family']), None)})
    # ---- contamination sequences + hash-seed / directory independence (TraceHistory)
    ex = sim.example_inputs()
    texts = {f'{n}|{v}': t for n, a, b in fams for v, t in (('v1', a), ('v2', b))}
    # inputs relying on defaults after inputs that set the same parameters explicitly (and back)
    lean = 'Reservoir Model, 4\nEnd-Use Option, 2\nPower Plant Type, 9\nPlant Lifetime, 10\nTime steps per year, 2\nPrint Output to Console, 0\n'
    texts['lean|v1'] = lean
    texts['lean3seg|v1'] = lean + 'Number of Segments, 3\nGradient 2, 40\nThickness 1, 1.2\n'
    for n in ('example_multiple_gradients', 'example2', 'example10_HP', 'example12_DH', 'S-DAC-GT', 'example_overpressure', 'example1', 'example3',
              'Fervo_Project_Cape-3', 'example5', 'example_PTC', 'example_ITC'):
        if n in ex:
            texts[f'{n}|v1'] = ex[n]
    idents = list(texts)
    seqs = []
    nseq = 24 if tier == 'quick' else 200
    for k in range(nseq):
        order = [rng.choice(idents) for _ in range(rng.randint(3, 5))]
        if k % 3 == 0:
            order = [order[0], 'lean|v1', order[1], 'lean3seg|v1', 'lean|v1']
        elif k % 3 == 1:      # each analytical reservoir model after each other one (process-wide numerical settings must not carry over)
            models = [i for i in ('example1|v1', 'example2|v1', 'example3|v1', 'example5|v1', 'Fervo_Project_Cape-3|v1', 'example12_DH|v1') if i in texts]
            rng.shuffle(models)
            order = models[:4] + [models[0]]
        seqs.append((f'seq{k}', [(i, texts[i]) for i in order]))
    # near-identical inputs: B differs from A in one figure A states (any module; bases with price schedules, tax credits and incentives
    # among them); B after A in one process against B alone in a fresh one
    # (whatever a run keeps for later runs must be keyed by everything the kept value depends on)
    nb_bases = [i for i in ('example1|v1', 'example2|v1', 'example3|v1', 'grid-eu2-pt9|v1', 'example_multiple_gradients|v1', 'example_PTC|v1',
                            'example_ITC|v1') if i in texts]
    for ident, lst in zip(nb_bases, sim.call_in_pool('harness.c08:reservoir_neighbours', [(i, texts[i]) for i in nb_bases])):
        rng.shuffle(lst)
        # quick tier: up to six figures of the reservoir module and up to four of the other modules per base
        chosen = ([x for x in lst if x[2]][:6] + [x for x in lst if not x[2]][:4]) if tier == 'quick' else lst
        for nid, ntext, _ in chosen:
            texts[nid] = ntext
            seqs.append((f'alone:{nid}', [(nid, ntext)]))
            seqs.append((f'after:{nid}', [(ident, texts[ident]), (nid, ntext)]))
    lap('TraceClient + neighbours')
    seq_out = sim.call_in_pool('harness.c08:sequence_history', seqs, fresh=True)       # one process per sequence: 'alone' means alone
    # ---- failed runs at every crash point: a failure raised at a seeded choice of lines of the modules' Calculate bodies
    pairs = [(a, b) for a, b in (('example1|v1', 'example2|v1'), ('example2|v1', 'example1|v1'), ('example1|v1', 'example3|v1'),
                                 ('example3|v1', 'grid-eu2-pt9|v1'), ('example2|v1', 'example12_DH|v1'), ('example1|v1', 'example_overpressure|v1'),
                                 ('example3|v1', 'S-DAC-GT|v1'), ('example2|v1', 'Fervo_Project_Cape-3|v1')) if a in texts and b in texts]
    if tier == 'quick':      # (long runs under the line tracer: thorough tier only; they reach no module the others do not)
        pairs = [q for q in pairs if q[1] not in ('example_overpressure|v1', 'Fervo_Project_Cape-3|v1')]
    crash_items = []
    for k in range(len(pairs) if tier == 'quick' else 4 * len(pairs)):
        a, b = pairs[k % len(pairs)]
        for part in (0, 1):
            crash_items.append((f'crash{k}.{part}', (a, texts[a]), (b, texts[b]), 6 if tier == 'quick' else 12, seed() * 1000 + k, part, 2))
    lap('sequences')
    crash_out = sim.call_in_pool('harness.c08:crash_history', crash_items, fresh=True)
    crash_events = [e for c in crash_out for e in c['events']]
    for c in crash_out:
        for cr in c['crashes']:
            counts['crash_points_' + cr['outcome']] = counts.get('crash_points_' + cr['outcome'], 0) + 1
            res.case(f"{c['tag']}@{cr['at']}")
    res.cov['crash_points'] = {'histories': len(crash_out), 'seconds': {c['tag']: [c['pair'], c['seconds'], len(c['crashes'])] for c in crash_out}, 'calculate_lines_seen': sum(c.get('lines_seen', 0) for c in crash_out),
                               'sample': [c['crashes'][:3] for c in crash_out[:2]]}
    cli_items = []
    for ident in idents[: (6 if tier == 'quick' else len(idents))]:
        for hs in ('0', '1', '12345'):
            for sd in ('sub', 'root'):
                cli_items.append((ident, texts[ident], hs, sd))
    # pairs of parameters whose reading interferes, under more hash seeds (a reader that visits them in set order would differ)
    from .c07 import FAMILIES as C07_FAMILIES
    xb = [(f, ex[n]) for f, n in C07_FAMILIES.items() if n in ex and f in ('standard', 'sbt', 'addons', 'district_heating', 'heatpump', 'overpressure')]
    if 'Fervo_Norbeck_Latimer_2023' in ex:
        xb.append(('fervo', ex['Fervo_Norbeck_Latimer_2023']))     # multilateral wells: the well-geometry options matter here
    lap('crash points')
    xpairs = cross_pairs(xb, 12 if tier == 'quick' else 60)
    if tier == 'quick':
        xpairs = [q for q in xpairs if q['family'] != 'sbt']      # an SBT run takes minutes: thorough tier only
    res.cov['interfering_parameter_pairs'] = [{k_: q[k_] for k_ in ('family', 'a', 'b', 'common')} for q in xpairs[:12]]
    for q in xpairs:
        ident = f"pair:{q['family']}:{q['a']}+{q['b']}"
        texts[ident] = q['text']
        for hs in (('0', '1', '2', '3') if tier == 'quick' else ('0', '1', '2', '3', '4', '5', '12345')):
            cli_items.append((ident, q['text'], hs, 'sub'))
    lap('pair discovery')
    cli_out = sim.call_in_pool('harness.c08:cli_run', cli_items)
    events = [e for s in seq_out for e in s] + cli_out + crash_events
    htrace = [{'tid': 1, 'clause': 'C08_pure', 'events': events}]
    lap('cli runs')
    hv, ds, gs = tlc.validate_traces('TraceHistory', 'TraceHistory.cfg', htrace, shards=1)
    res.states += ds
    res.transitions += gs
    res.traces += 1
    for e in events:
        res.case(e['how'])
    for w in hv[1]['w']:
        if w.get('clause') == 'C08_restore':       # a run that failed at a crash point left the caller's directory or argument vector changed
            res.violation({'clause': 'C08_restore', 'input': w['input']}, f"C08_restore: {w['how']}: working directory / argument vector not as before",
                          {'input_text': texts.get(w['input'].split('!')[0]), 'witness': w})
        if w.get('clause') == 'C08_pure':
            res.violation({'clause': 'C08_pure', 'input': w['input']},
                          f"same input {w['input']} gave different results: first seen in {w['first']}, differs in {w['differs']}",
                          {'input_text': texts.get(w['input']), 'witness': w})
    lap('TraceHistory')
    res.cov['phase_seconds'] = phases
    counts['C08_pure_runs'] = len(events)
    counts['C08_pure'] = len([1 for c in hv[1]['e'] if c == 'C08_pure'])
    res.cov['clauses_and_outcomes'] = counts
    if traces:
        res.sample({'client_history': {k: traces[0][k] for k in ('family', 'files0', 'cwd0', 'events')}, 'verdict': verdicts[1]})
    for need in ('C08_restore', 'C08_fresh', 'C08_pure_outcome', 'requests_ok', 'requests_fail', 'C08_pure', 'crash_points_failed'):
        if not counts.get(need):
            raise MachineryFailure(f'C08: {need} never exercised')
    res.cov['rule'] = ('M1: all histories of <= 5 operations; M2/M3: TLC histories of 4 operations sampled by seed (80 % with a rewrite and '
                       '>= 2 requests) over 9 input families; contamination sequences and CLI sub-processes under 3 hash seeds x 2 start '
                       'directories; failed runs at seeded crash points (a failure raised at a line of a module\'s Calculate; one point per module '
                       'reached, quick 6 histories, thorough 32) each followed by a reference input; one-figure neighbours of 5 bases; distinct = history / run identity')
    res.assumptions += ['results compared as report text without date/time lines',
                        'the reference result of a content version is its run in a history of length one']
    if only_key is not None:
        res.violations = [v for v in res.violations if v[0] == only_key]
    return res.finish()


def replay(path: str) -> int:
    """Execute the recorded client history again (same files, directories, operations) and validate it with TraceClient.tla."""
    data = json.loads(open(path).read())
    rp = data['replay']
    if 'history' not in rp or not rp.get('family_texts'):
        return run('quick', only_key=data['key'])      # contamination sequences: the whole sequence plan is executed again
    res = Result('C08', 'quick')
    t = rp['history']
    fam = (t['family'], rp['family_texts'][0], rp['family_texts'][1])
    refs = reference_digests([fam])
    rec = sim.call_in_pool('harness.c08:replay_history', [({'files0': t['files0'], 'cwd0': t['cwd0'], 'ops': t['events']}, fam)], procs=1)[0]
    tr = {'tid': 1, 'files0': rec['files0'], 'cwd0': rec['cwd0'], 'events': rec['events'], 'bad': rec['bad'],
          'refs': {'v1': refs[f'{fam[0]}|v1'], 'v2': refs[f'{fam[0]}|v2']}, 'family': fam[0]}
    verdicts, ds, gs = tlc.validate_traces('TraceClient', 'TraceClient.cfg', [tr])
    res.traces += 1
    res.case('replayed history')
    for c in verdicts[1]['f']:
        wit = [w for w in verdicts[1]['w'] if w.get('clause') == c][:2]
        res.violation({'clause': c, 'family': fam[0], 'ops': [e['op'] for e in tr['events']]}, f'{c} fails in the replayed client history: {json.dumps(wit)[:300]}',
                      {'history': tr, 'verdict': verdicts[1], 'family_texts': rp['family_texts']})
    return res.finish()
