"""C02 — energy flows balance at every time step and over every year.

M1  Energy.tla: slice/trapezoid machine + heat-content accumulation over every small (L, n, series).
M2  every vector TLC dumps is replayed into integrate_time_series_slice, annual_electricity_pumping_power and
    remaining_reservoir_heat_content (1e-12).
M3  snapshot right after the surface plant's Calculate of every run, validated step by step / year by year by
    TraceEnergy.tla.
"""
from __future__ import annotations

import json
import random
from fractions import Fraction
from types import SimpleNamespace as NS

from . import downstream, gen, sim, tlc
from .common import Guard, MachineryFailure, Result, bind_repo, rat, rats, seed


def _lst(x):
    try:
        return [float(v) for v in x]
    except TypeError:
        return None


PROTECTED = ('tprod', 'pump', 'hext', 'hextkwh', 'pumpkwh', 'remaining', 'hprod', 'elec', 'net', 'firstlaw', 'hpelec', 'hpeleckwh', 'cool', 'dhgeo', 'dhng')


def project(stage, model, ctx):
    try:
        downstream.observe(stage, model, ctx)      # Downstream.tla (beyond the listed properties): add-ons and S-DAC-GT
    except Exception as ex:  # noqa: BLE001
        ctx['ds_error'] = f'{type(ex).__name__}: {ex}'
    if stage == 'calculated' and ctx.get('c02'):
        try:
            fin = snapshot(model)
            ctx['c02']['final'] = {k: fin[k] for k in PROTECTED if k in fin and k in ctx['c02']}
        except Exception:  # noqa: BLE001
            pass
        return
    if stage != 'surfaceplant_calculated':
        return
    fam = type(model.surfaceplant).__name__
    ctx['family'] = fam
    if fam in ('SurfacePlantSUTRA', 'SurfacePlantAGS'):
        ctx['c02_unexplained'] = fam
        return
    try:
        ctx['c02'] = snapshot(model)  # district heating: the second pass overwrites the first
    except Exception as ex:  # noqa: BLE001
        ctx['c02_unexplained'] = f'{type(ex).__name__}: {ex}'


def snapshot(model) -> dict:
    from geophires_x.OptionList import EndUseOptions, PlantType

    sp, w, r, e = model.surfaceplant, model.wellbores, model.reserv, model.economics
    eu, pt = sp.enduse_option.value, sp.plant_type.value
    L = int(sp.plant_lifetime.value)
    n = int(e.timestepsperyear.value)
    if eu == EndUseOptions.HEAT:
        plant = 'chiller' if pt == PlantType.ABSORPTION_CHILLER else 'heatpump' if pt == PlantType.HEAT_PUMP else \
            'dh' if pt == PlantType.DISTRICT_HEATING else 'heat'
        cogen = 'none'
    else:
        plant = 'power'
        cogen = 'elec'
        for name, members in (('topping', (EndUseOptions.COGENERATION_TOPPING_EXTRA_ELECTRICITY, EndUseOptions.COGENERATION_TOPPING_EXTRA_HEAT)),
                              ('bottoming', (EndUseOptions.COGENERATION_BOTTOMING_EXTRA_HEAT, EndUseOptions.COGENERATION_BOTTOMING_EXTRA_ELECTRICITY)),
                              ('parallel', (EndUseOptions.COGENERATION_PARALLEL_EXTRA_ELECTRICITY, EndUseOptions.COGENERATION_PARALLEL_EXTRA_HEAT))):
            if any(eu == m for m in members):
                cogen = name
    tprod = _lst(w.ProducedTemperature.value)
    flow = w.prodwellflowrate.value
    t = {
        'L': L, 'n': n, 'plant': plant, 'cogen': cogen, 'util': rat(sp.utilization_factor.value),
        'nprod': int(w.nprod.value), 'flow': rat(float(flow)), 'cp': rat(r.cpwater.value), 'tinj': rat(w.Tinj.value),
        'eta': rat(sp.enduse_efficiency_factor.value), 'chp': rat(sp.chp_fraction.value), 'tbottom': rat(sp.T_chp_bottom.value),
        'tprod': rats(tprod), 'pump': rats(_lst(w.PumpingPower.value) or []),
        'hext': rats(_lst(sp.HeatExtracted.value) or []), 'hextkwh': rats(_lst(sp.HeatkWhExtracted.value) or []),
        'pumpkwh': rats(_lst(sp.PumpingkWh.value) or []),
        'initial': rat(r.InitialReservoirHeatContent.value), 'remaining': rats(_lst(sp.RemainingReservoirHeatContent.value) or []),
        'family': type(sp).__name__, 'enduse': str(eu.name),
    }
    hp = _lst(sp.HeatProduced.value)
    if hp is not None and len(hp) == len(tprod):
        t['hprod'] = rats(hp)
        t['hprodkwh'] = rats(_lst(sp.HeatkWhProduced.value) or [])
    if plant == 'power':
        t['elec'] = rats(_lst(sp.ElectricityProduced.value) or [])
        t['net'] = rats(_lst(sp.NetElectricityProduced.value) or [])
        t['firstlaw'] = rats(_lst(sp.FirstLawEfficiency.value) or [])
        t['grosskwh'] = rats(_lst(sp.TotalkWhProduced.value) or [])
        t['netkwh'] = rats(_lst(sp.NetkWhProduced.value) or [])
    if plant == 'heatpump':
        t['cop'] = rat(sp.heat_pump_cop.value)
        t['hpelec'] = rats(_lst(sp.heat_pump_electricity_used.value) or [])
        t['hpeleckwh'] = rats(_lst(sp.heat_pump_electricity_kwh_used.value) or [])
    if plant == 'chiller':
        t['cop'] = rat(sp.absorption_chiller_cop.value)
        t['cool'] = rats(_lst(sp.cooling_produced.value) or [])
        t['coolkwh'] = rats(_lst(sp.cooling_kWh_Produced.value) or [])
    if plant == 'dh':
        t['utilarr'] = rats(_lst(sp.util_factor_array.value) or [])
        t['demand'] = rats(_lst(sp.daily_heating_demand.value) or [])
        t['dhgeo'] = rats(_lst(sp.dh_geothermal_heating.value) or [])
        t['dhng'] = rats(_lst(sp.dh_natural_gas_heating.value) or [])
    # consistency of lengths is itself part of the trace contract; inconsistent series are reported through C02_rows
    nt = len(tprod)
    for k in ('pump', 'hext', 'elec', 'net', 'firstlaw', 'hpelec', 'cool'):
        if k in t and len(t[k]) != nt:
            t['length_mismatch'] = f'{k}: {len(t[k])} != {nt}'
    return t


# ---------------------------------------------------------------- M2

def replay_vectors(res: Result, vectors: list):
    bind_repo()
    import numpy as np
    from geophires_x.OptionList import EndUseOptions
    from geophires_x.SurfacePlant import SurfacePlant

    tol = Fraction(1, 10 ** 12)
    bad = 0
    for vec in vectors:
        L, n = vec['L'], vec['n']
        s = np.array([float(Fraction(x)) for x in vec['s']])
        util = float(Fraction(vec['util']))
        want = [Fraction(x) for x in vec['annual']]
        got, rem, ok = [], [], False
        with Guard() as gd:
            got = [SurfacePlant.integrate_time_series_slice(s, y, n, util) for y in range(L)]
            scale = max([abs(x) for x in want] + [Fraction(1)])
            ok = len(got) == len(want) and all(abs(Fraction(float(g)) - w) <= tol * scale for g, w in zip(got, want))
            # the same series through the annual roll-up (gross = net = heat = extracted = pumping = s)
            a = SurfacePlant.annual_electricity_pumping_power(NS(), L, EndUseOptions.COGENERATION_TOPPING_EXTRA_HEAT, s, n, util, s, s, s, s)
            for arr in a:
                ok = ok and all(abs(Fraction(float(g)) - w) <= tol * scale for g, w in zip(arr, want))
            rem = SurfacePlant.remaining_reservoir_heat_content(NS(), 1000.0, np.array([float(x) for x in want]))
            wrem = [Fraction(x) for x in vec['remaining']]
            ok = ok and all(abs(Fraction(float(g)) - w) <= tol * 1000 for g, w in zip(rem, wrem))
        ok = ok and gd.err is None
        res.count('m2_vectors_replayed')
        if not ok:
            bad += 1
            if bad <= 25:
                key = {'clause': 'C02_annual_m2', 'L': L, 'n': n, 's': vec['s'], 'util': vec['util']}
                res.violation(key, f'integrate_time_series_slice / annual roll-up / heat content differ from Energy.tla on {key}',
                              {'vector': vec, 'got_annual': [float(g) for g in got], 'got_remaining': [float(g) for g in rem]})
    res.count('m2_mismatches', bad)
    if vectors:
        res.sample({'m2_vector': vectors[len(vectors) // 2]})


# ---------------------------------------------------------------- M3

def build_jobs(tier: str) -> list:
    rng = random.Random(seed() * 32452843 + 2)
    n = 200 if tier == 'quick' else 1600
    lifetimes = [1, 2, 3, 5, 8, 13, 20, 30, 40] if tier == 'quick' else list(range(1, 41)) + [50, 75, 100]
    jobs = []
    for tag, text, p in gen.grid(seed() * 31 + 2, n, resmodels=(4, 3, 4, 3, 5) if tier == 'quick' else (4, 3, 4, 3, 1, 2, 5), lifetimes=lifetimes,
                                 with_extras=False):
        q = dict(p)
        if rng.random() < 0.25:
            gen.add_redrill(q, rng)
        if rng.random() < 0.15:
            gen.add_overpressure(q, rng)
        if rng.random() < 0.2:
            gen.add_addons(q, rng)
        if rng.random() < 0.3:
            # high injection temperature: power plants may replace it by their own reinjection temperature
            q['Injection Temperature'] = gen.fmt(rng.uniform(70, 120))
        if rng.random() < 0.3 and int(q.get('Reservoir Model', 4)) != 5:
            # step counts that divide neither the hours, the days nor the months of a year (the generator's own are 1, 2, 3, 4, 6, 12)
            q['Time steps per year'] = rng.choice([5, 7, 9, 11, 13, 16, 17, 52])
        jobs.append((tag, gen.to_text(q)))
    for name, text in sim.example_inputs().items():
        if name.startswith(('Beckers', 'example6', 'example7', 'MC_', 'SUTRA')):
            continue
        if tier == 'quick' and name.startswith(('example_SBT',)):
            continue
        jobs.append((f'example:{name}', text))
    # every plant class once more with add-ons that contribute heat and electricity (and with S-DAC-GT): the downstream economics
    # modules work on the plant's energy series, and must leave the balanced flows alone
    for k, (eu, pt) in enumerate([(2, 5), (2, 6), (2, 7), (2, 9), (1, 1), (1, 3), (31, 2), (42, 4), (52, 1)] * (1 if tier == 'quick' else 4)):
        p = gen.base(rng, rng.choice([4, 3]), eu, pt, (k % 3) + 1, lifetime=rng.choice([5, 10, 20]), steps=rng.choice([1, 2, 4]))
        gen.add_prices(p, rng)
        if k % 3 != 2:
            gen.add_addons(p, rng, 2)
            p['AddOn Heat Gained 1'] = gen.fmt(rng.uniform(1e5, 5e6))
            p['AddOn Electricity Gained 2'] = gen.fmt(rng.uniform(1e5, 5e6))
        else:
            p['Do S-DAC-GT Calculations'] = 'True'
        jobs.append((f'downstream{k}:eu{eu}/pt{pt}', gen.to_text(p)))
    # Downstream.tla (beyond the listed properties): every end-use class with add-ons alone, S-DAC-GT alone and both (the order in which
    # the two modules change the series matters), S-DAC-GT figures away from their defaults, several construction years without add-ons
    sdac_ranges = {'WACC': (3, 15), 'S-DAC-GT CAPEX': (500, 2500), 'S-DAC-GT OPEX': (30, 150), 'S-DAC-GT Electrical Energy': (150, 400),
                   'S-DAC-GT Thermal Energy': (800, 2500), 'S-DAC-GT CAPEX Multiplier': (0.5, 2), 'S-DAC-GT OPEX Multiplier': (0.5, 2),
                   'S-DAC-GT Thermal Energy Multiplier': (0.7, 1.5), 'S-DAC-GT CO2 Transportation Cost': (1, 30),
                   'S-DAC-GT CO2 Storage Cost': (5, 30), 'S-DAC-GT CO2 Percent Energy Devoted To Process': (0.1, 1.0),
                   'S-DAC-GT Natural Gas Price': (1, 20), 'S-DAC-GT CO2 Intensity of Electricity': (0.1, 0.9)}
    for k, (eu, pt) in enumerate([(2, 5), (2, 9), (1, 1), (1, 4), (31, 2), (32, 3), (41, 1), (42, 4), (51, 2), (52, 1)] * (1 if tier == 'quick' else 4)):
        for mode in ('a', 's', 'as'):
            p = gen.base(rng, rng.choice([4, 3]), eu, pt, (k % 3) + 1, lifetime=rng.choice([3, 7, 12, 25]), steps=rng.choice([1, 2, 4]))
            gen.add_prices(p, rng)
            if 'a' in mode:
                gen.add_addons(p, rng, rng.choice([1, 2, 3]))
                p['AddOn Heat Gained 1'] = gen.fmt(rng.uniform(1e5, 5e7))
                p['AddOn Electricity Gained 1'] = gen.fmt(rng.uniform(1e5, 5e7))
                p['AddOn Profit Gained 1'] = gen.fmt(rng.uniform(0, 3))
            if 's' in mode:
                p['Do S-DAC-GT Calculations'] = 'True'
                for name in rng.sample(sorted(sdac_ranges), rng.randint(0, 6)):
                    lo, hi = sdac_ranges[name]
                    p[name] = gen.fmt(rng.uniform(lo, hi))
            jobs.append((f'ds{k}{mode}:eu{eu}/pt{pt}', gen.to_text(p)))
    return jobs


def validate(res: Result, out: list) -> dict:
    traces, meta = [], {}
    for k, o in enumerate(out):
        if o['status'] == 'machinery':
            raise MachineryFailure(o['error'] + '\n' + o.get('error_tb', ''))
        if o['status'] != 'ok':
            res.count('rejected_inputs')
            continue
        if 'c02' not in o:
            res.count('unexplained_family')
            continue
        t = dict(o['c02'])
        if 'length_mismatch' in t:
            res.violation({'clause': 'C02_rows', 'input': o['tag']}, f'series lengths inconsistent on {o["tag"]}: {t["length_mismatch"]}',
                          {'input_text': o['input']})
            continue
        t['tid'] = k + 1
        traces.append(t)
        meta[t['tid']] = o
    downstream.validate(res, out)
    verdicts, ds, gs = tlc.validate_traces('TraceEnergy', 'TraceEnergy.cfg', traces)
    res.states += ds
    res.transitions += gs
    res.traces += len(traces)
    counts, drift = {}, {}
    for t in traces:
        vd = verdicts[t['tid']]
        o = meta[t['tid']]
        res.case(o['tag'])
        cls = f"{t['plant']}/{t['cogen']}/{t['family']}"
        counts[cls] = counts.get(cls, 0) + 1
        counts[f"steps_per_year={t['n']}"] = counts.get(f"steps_per_year={t['n']}", 0) + 1
        for c in vd['e']:
            counts[c] = counts.get(c, 0) + 1
        for c in vd['s']:
            counts['skipped:' + c] = counts.get('skipped:' + c, 0) + 1
        for c in vd['f']:
            wit = [w for w in vd['w'] if w.get('clause') == c][:1]
            if c.startswith('fit_'):
                drift[c] = drift.get(c, 0) + 1
                continue
            res.violation({'clause': c, 'input': o['tag']}, f'{c} fails on {o["tag"]}: {json.dumps(wit)[:300]}',
                          {'input_text': o['input'], 'verdict': vd})
    res.cov['classes_and_clauses'] = counts
    res.cov['model_drift'] = drift
    if drift:
        print(f'WARNING model drift (fit_ clauses, not a violation): {drift}')
    if traces:
        t0 = traces[len(traces) // 2]
        res.sample({'m3_trace': {k_: (v_[:3] + ['...'] if isinstance(v_, list) and len(v_) > 3 else v_) for k_, v_ in t0.items()},
                    'verdict': {k_: v_ for k_, v_ in verdicts[t0['tid']].items() if k_ != 'w'}})
    return counts


def run(tier: str) -> int:
    res = Result('C02', tier)
    cfg = f'MC_Energy_{tier}.cfg'
    r = tlc.run_tlc('Energy', cfg, workers=16)
    tlc.check_mc(r, cfg, ['Year', 'HeatContent'])
    if r['violated']:
        raise MachineryFailure(f'Energy.tla violates {r["violated"]}\n' + r['raw'][-2500:])
    res.add_mc(r, cfg)
    d = tlc.run_tlc('Energy', f'Dump_Energy_{tier}.cfg', workers=1, coverage=False)
    tlc.check_mc(d, 'dump')
    vectors = [p for p in d['prints'] if isinstance(p, dict) and 'annual' in p]
    if not vectors:
        raise MachineryFailure('no vectors dumped')
    res.add_mc(d, f'Dump_Energy_{tier}.cfg (M2 vector generation)')
    replay_vectors(res, vectors)
    # Downstream.tla (beyond the listed properties): add-ons, then S-DAC-GT, then the revenue loop, on the plant's annual series
    dsm = tlc.run_tlc('Downstream', 'MC_Downstream.cfg', workers=8)
    tlc.check_mc(dsm, 'MC_Downstream.cfg', ['AddOns', 'SdacYear', 'SdacDeduct', 'Revenue'])
    if dsm['violated']:
        raise MachineryFailure(f'Downstream.tla violates {dsm["violated"]}')
    res.add_mc(dsm, 'MC_Downstream.cfg (add-ons / S-DAC-GT between surface plant and revenue; beyond the listed properties)')
    dsn = tlc.run_tlc('Downstream', 'MC_Downstream_negative.cfg', workers=8, coverage=False)
    if dsn['violated'] != 'NeverNegative':       # reachability witness: capture can consume more than a year produced
        raise MachineryFailure(f'Downstream.tla: NeverNegative expected to be violated (reachability), got {dsn["violated"]}')
    jobs_ = build_jobs(tier)
    # each of a seeded choice of the jobs once more, followed in the same process by neighbours that restate ONE of its figures: a value
    # kept from one run for the next (a memo keyed by too few arguments, a mutated default) shows in the neighbour's own trace
    chains = sim.neighbour_chains(jobs_, 10 if tier == 'quick' else 60, 3, seed() * 101 + 2, prefer=('Utilization Factor', 'Plant Lifetime', 'Production Flow Rate per Well', 'Injection Temperature', 'End-Use Efficiency Factor', 'Number of Production Wells'))
    out = sim.run_many(jobs_, 'harness.c02:project') + sim.run_chains(chains, 'harness.c02:project')
    counts = validate(res, out)
    need = ['C02_extract', 'C02_net', 'C02_useful_heat', 'C02_useful_heatpump', 'C02_useful_cooling', 'C02_conservation_elec',
            'C02_conservation_topping', 'C02_conservation_bottoming', 'C02_conservation_parallel', 'C02_useful_parallel',
            'C02_annual_extracted', 'C02_annual_net', 'C02_annual_heat', 'C02_annual_cooling', 'C02_annual_heatpump_electricity',
            'C02_heatcontent', 'C02_dh_balance', 'C02_dh_geothermal_le_wells']
    missing = [k for k in need if not counts.get(k)]
    if missing:
        raise MachineryFailure(f'C02: clauses never evaluated (vacuous run): {missing}')
    res.cov['rule'] = ('M1: all (L, n, series) of the cfg; M2: every dumped vector into the three real functions; M3: seeded '
                       'configurations over all plant classes and cogeneration variants, lifetimes/time steps, examples; '
                       'distinct = input tag')
    res.assumptions += ['last-year (shorter slice) and single-sample conventions are model-fit clauses (fit_annual_lastyear_*): '
                        'reported as drift, not violation', 'cogeneration balance uses the reported first-law efficiency to recover '
                        'the heat routed to electricity', 'tolerance 1e-9 x scale']
    return res.finish()


def replay(path: str) -> int:
    data = json.loads(open(path).read())
    res = Result('C02', 'quick')
    rp = data['replay']
    if 'vector' in rp:
        replay_vectors(res, [rp['vector']])
    elif 'input_text' in rp:
        validate(res, sim.run_many([('replay', rp['input_text'])], 'harness.c02:project'))
    return res.finish()
