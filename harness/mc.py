"""Monte Carlo drivers shared by C13 and C14: run the real MC driver in a sub-process with a chosen pool size and the
worker hooks on, collect the per-process event files, the result file, the statistics block and the JSON summary, and
build the trace record TraceMC.tla validates."""
from __future__ import annotations

import json
import os
import re
import shutil
import subprocess
import sys
import tempfile
from fractions import Fraction
from pathlib import Path

from . import sim
from .common import REPO, VERIF, MachineryFailure, dec_rat, rat, subprocess_env

GEO_BASE = """Reservoir Model, 4
Drawdown Parameter, 0.005
Reservoir Depth, 4
Number of Segments, 1
Gradient 1, 60
Maximum Temperature, 400
Number of Production Wells, 2
Number of Injection Wells, 2
Production Flow Rate per Well, 50
Injection Temperature, 60
Reservoir Heat Capacity, 1000
Reservoir Density, 2700
Reservoir Thermal Conductivity, 3
End-Use Option, 1
Power Plant Type, 1
Circulation Pump Efficiency, 0.8
Utilization Factor, 0.9
Surface Temperature, 15
Ambient Temperature, 15
Plant Lifetime, 20
Economic Model, 2
Discount Rate, 0.07
Time steps per year, 2
Print Output to Console, 0
"""
HIP_BASE = """Reservoir Temperature, 250.0
Rejection Temperature, 60.0
Reservoir Porosity, 10.0
Reservoir Area, 55.0
Reservoir Thickness, 0.25
Reservoir Life Cycle, 25
"""

HIPRA_BASE = """Reservoir Temperature, 250.0
Rejection Temperature, 60.0
Formation Porosity, 10.0
Reservoir Area, 55.0
Reservoir Thickness, 0.25
Reservoir Life Cycle, 25
"""
HIPRA_INPUTS = [('Reservoir Temperature', 'uniform', 150.0, 300.0, None), ('Formation Porosity', 'uniform', 5.0, 160.0, None)]   # porosity > 100 fails
HIPRA_OUTPUTS = ['Producible Electricity', 'Reservoir Volume']

GEO_INPUTS = [
    ('Gradient 1', 'normal', 60.0, 4.0, None), ('Production Flow Rate per Well', 'uniform', 30.0, 70.0, None),
    ('Surface Temperature', 'triangular', 5.0, 15.0, 25.0), ('Reservoir Thermal Conductivity', 'lognormal', 1.0, 0.1, None),
    ('Number of Production Wells', 'binomial', 4, 0.9, None),
]
GEO_OUTPUTS = ['Average Net Electricity Production', 'Electricity breakeven price', 'Total capital costs']
HIP_INPUTS = [('Reservoir Temperature', 'uniform', 150.0, 300.0, None), ('Reservoir Porosity', 'normal', 10.0, 1.0, None),
              ('Reservoir Area', 'triangular', 30.0, 55.0, 80.0), ('Reservoir Thickness', 'lognormal', -1.4, 0.1, None)]
HIP_OUTPUTS = ['Producible Electricity (reservoir)', 'Stored Heat (reservoir)']


def settings_text(inputs, outputs, iterations, out_file) -> str:
    s = ''
    for name, dist, a, b, c in inputs:
        s += f'INPUT, {name}, {dist}, {a}, {b}' + (f', {c}' if c is not None else '') + '\n'
    for o in outputs:
        s += f'OUTPUT, {o}\n'
    s += f'ITERATIONS, {iterations}\nMC_OUTPUT_FILE, {out_file}\n'
    return s


CODE = {'geophires': 'geophires_x/GEOPHIRESv3.py', 'hip_ra_x': 'hip_ra_x/hip_ra_x.py', 'hip_ra': 'hip_ra/HIP_RA.py'}


PRELUDE_NAMES = {'geophires': ['Reservoir Depth', 'Production Flow Rate per Well', 'Injection Temperature', 'Plant Lifetime'],
                 'hip_ra_x': ['Reservoir Area', 'Reservoir Thickness', 'Reservoir Temperature'], 'hip_ra': []}


def prelude_base(kind: str, base_text: str, inputs: list) -> str | None:
    """The base model with ONE stated figure that is not sampled changed (x 0.9): what an earlier study on the same file looked like."""
    sampled = {i[0] for i in inputs}
    lines = base_text.splitlines()
    for name in PRELUDE_NAMES.get(kind, []):
        if name in sampled:
            continue
        for k, ln in enumerate(lines):
            parts = [x.strip() for x in ln.split(',')]
            if len(parts) >= 2 and parts[0] == name:
                try:
                    x = float(parts[1])
                except ValueError:
                    continue
                lines[k] = f'{name}, {int(x) + 3 if float(x).is_integer() and name == "Plant Lifetime" else repr(x * 0.9)}'
                return '\n'.join(lines) + '\n'
    return None


def _die_holding_the_lock(result_file: str):
    """A writer that takes the lock on the result file exactly as a work package does and dies before releasing it."""
    pid = os.fork()
    if pid == 0:
        try:
            from pylocker import Locker
            Locker(filePath=result_file, lockPass='writer-that-died', mode='a').acquire_lock()
        finally:
            os._exit(0)
    os.waitpid(pid, 0)


def run_mc(kind: str, base_text: str, inputs: list, outputs: list, iterations: int, workers: int, timeout: int = 900, relative: bool = False, coarse_clock: bool = False,
           prelude: bool = False, stale_lock: bool = False) -> dict:
    """`relative`: the result file is named by a relative MC_OUTPUT_FILE line of the settings file (no output argument); the driver resolves
    it against src/geophires_monte_carlo, where it is collected and removed again."""
    d = Path(tempfile.mkdtemp(prefix='vmc_', dir='/dev/shm' if os.path.isdir('/dev/shm') else None))
    tr = d / 'trace'
    tr.mkdir()
    base = d / 'base.txt'
    base.write_text(base_text)
    import uuid
    relname = f'verif_mc_{uuid.uuid4().hex[:10]}.txt'
    out = (REPO / 'src' / 'geophires_monte_carlo' / relname) if relative else d / 'MC_Result.txt'
    st = d / 'settings.txt'
    st.write_text(settings_text(inputs, outputs, iterations, relname if relative else out))
    code = REPO / 'src' / CODE[kind]
    env = subprocess_env({'GEOPHIRES_X_VERIF_OBSERVER': 'harness.mc_observer', 'VERIF_MC_TRACE_DIR': str(tr), 'MPLBACKEND': 'Agg',
                          'TMPDIR': str(d)})
    if coarse_clock:
        env['VERIF_MC_COARSE_CLOCK'] = '1'
    if prelude:
        # the same driver process first runs a short study on the same base FILE holding other content (one figure changed), into
        # another result file; the file is then rewritten with the requested base and the requested study runs
        pb = prelude_base(kind, base_text, inputs)
        if pb is not None:
            (d / 'prelude_base.txt').write_text(pb)
            (d / 'prelude_settings.txt').write_text(settings_text(inputs, outputs, 2, d / 'prelude' / 'MC_Result.txt'))
            (d / 'prelude').mkdir()
            env['VERIF_MC_PRELUDE'] = f'{d / "prelude_base.txt"}|{d / "prelude_settings.txt"}|{d / "prelude" / "MC_Result.txt"}'
    if stale_lock and not relative:
        _die_holding_the_lock(str(out))       # (the lock file of a writer killed in the middle of an earlier study)
    try:
        p = subprocess.run([sys.executable, '-m', 'harness.mc_driver', str(workers), str(code), str(base), str(st)] + ([] if relative else [str(out)]),
                           cwd=str(VERIF), env=env, capture_output=True, text=True, timeout=timeout)
    except BaseException:
        _sweep(relname)
        raise
    res = {'rc': p.returncode, 'stderr_tail': p.stderr[-1500:], 'kind': kind, 'workers': workers, 'iterations': iterations,
           'inputs': inputs, 'outputs': outputs, 'base': base_text, 'events': {}, 'file': None, 'json': None, 'relative': relative,
           'history': 'prelude' if prelude else 'stale_lock' if stale_lock else ''}
    for f in sorted(tr.glob('*.ndjson')):
        evs = [json.loads(ln) for ln in f.read_text().splitlines() if ln.strip()]
        evs.sort(key=lambda e: e['seq'])
        res['events'][f.stem] = evs
    if out.exists():
        res['file'] = out.read_text()
    js = out.with_suffix('.json')
    if js.exists():
        res['json'] = json.loads(js.read_text())
    shutil.rmtree(d, ignore_errors=True)
    if relative:
        res['strays'] = _sweep(relname)
    return res


def _sweep(relname: str) -> list:
    """Remove everything a relative-output run left in the source tree; returns where rows were found outside the result file's place."""
    stem = relname[:-4]
    home = REPO / 'src' / 'geophires_monte_carlo'
    strays = []
    for f in list((REPO / 'src').rglob(stem + '*')) + list(REPO.glob(stem + '*')):
        if f.parent != home and f.suffix == '.txt':
            strays.append(str(f.parent.relative_to(REPO)))
        try:
            f.unlink()
        except OSError:
            pass
    return strays


ROW = re.compile(r'\(.*:.*\)\s*$')


def parse_file(text: str, outputs: list):
    lines = text.splitlines()
    header = lines[0] if lines else ''
    rows, stats, cur = [], {}, None
    for ln in lines[1:]:
        if ROW.search(ln) and cur is None:
            rows.append(ln)
            continue
        s = ln.strip()
        if s.endswith(':') and s[:-1] in outputs:
            cur = s[:-1]
            stats[cur] = {}
            continue
        if cur and ':' in s and not s.startswith('bin '):
            k, val = s.split(':', 1)
            stats[cur][k.strip()] = val.strip()
    return header, rows, stats


def parse_row(row: str):
    body, _, tail = row.partition('(')
    outs = [t.strip() for t in body.strip().strip(',').split(',') if t.strip() != '']
    tail = tail.rstrip().rstrip(')').strip(';')
    names, vals = [], []
    for item in tail.split(';'):
        if not item:
            continue
        n, _, val = item.partition(':')
        names.append(n)
        vals.append(val)
    return outs, names, vals


def parse_entries(entries: str):
    names, texts = [], []
    for ln in entries.splitlines():
        if not ln.strip():
            continue
        n, _, val = ln.partition(', ')
        names.append(n)
        texts.append(val)
    return names, texts


def resimulate(item):
    """Worker: base + sampled entries -> tokens of the requested outputs (independent of the MC driver)."""
    kind, base_text, entries, outputs = item
    text = base_text.rstrip('\n') + '\n' + entries
    report = None
    if kind == 'geophires':
        ctx = sim.run_input(text, None, keep_report=True)
        report = ctx.get('report')
    else:
        from .common import bind_repo
        bind_repo()
        import logging
        from hip_ra_x import HipRaXClient
        from hip_ra import HipRaClient, HipRaInputParameters

        d = tempfile.mkdtemp(prefix='vhip_', dir='/dev/shm' if os.path.isdir('/dev/shm') else None)
        f = Path(d, 'in.txt')
        f.write_text(text)
        cwd0, argv0 = os.getcwd(), list(sys.argv)
        logging.disable(logging.CRITICAL)
        try:
            import contextlib
            import io
            with contextlib.redirect_stdout(io.StringIO()), contextlib.redirect_stderr(io.StringIO()):
                r = (HipRaClient() if kind == 'hip_ra' else HipRaXClient()).get_hip_ra_result(HipRaInputParameters(file_path_or_params_dict=f))
            report = Path(r.output_file_path).read_text()
        except BaseException:  # noqa: BLE001
            report = None
        finally:
            os.chdir(cwd0)
            sys.argv = argv0
            logging.disable(logging.NOTSET)
            shutil.rmtree(d, ignore_errors=True)
    if report is None:
        return ['<failed>']
    toks = []
    for o in outputs:
        m = [ln for ln in report.splitlines() if f'  {o}: ' in ln]
        if len(m) != 1:
            toks.append(f'<{len(m)} matches>')
            continue
        toks.append(m[0].split(':')[1].strip().split(' ')[0].strip())
    return toks


def fnum(s: str):
    try:
        return rat(float(s))
    except ValueError:
        return 'undef'


def build_trace(tid: int, r: dict, replay: bool, replay_pool=None) -> dict:
    """The TraceMC.tla record of one run."""
    if r['file'] is None:
        raise MachineryFailure(f'MC run produced no result file (rc={r["rc"]}): {r["stderr_tail"][-600:]}')
    header, rows, stats_text = parse_file(r['file'], r['outputs'])
    cont_idx = [k for k, inp in enumerate(r['inputs']) if inp[1] != 'binomial']
    procs, sections, to_replay = [], [], []
    for pid, evs in r['events'].items():
        seq, last_drawn, acq = [], None, None
        for e in evs:
            ev = {'ev': e['ev']}
            if e['ev'] == 'drawn':
                names, texts = parse_entries(e.get('entries', ''))
                ev['texts'] = texts
                ev['vals'] = [fnum(t) for t in texts]
                ev['cont'] = [texts[k] for k in cont_idx if k < len(texts)]
                ev['rng'] = e.get('rng')
                last_drawn = (e.get('entries', ''), texts)
            elif e['ev'] == 'row_written':
                row = e.get('row', '').rstrip('\n')
                outs, names, vals = parse_row(row)
                ev.update(row=row, outs=outs, names=[n.strip() for n in names], vals=vals, drawn=last_drawn[1] if last_drawn else [],
                          replayed=['skipped'])
                if replay and last_drawn:
                    to_replay.append((ev, (r['kind'], r['base'], last_drawn[0], r['outputs'])))
            elif e['ev'] == 'lock_acquired':
                acq = e['t']
            elif e['ev'] == 'lock_released' and acq is not None:
                sections.append({'lo': acq // 1000, 'hi': e['t'] // 1000, 'pid': int(pid)})
                acq = None
            seq.append(ev)
        procs.append(seq)
    if to_replay:
        toks = sim.call_in_pool('harness.mc:resimulate', [x[1] for x in to_replay])
        for (ev, _), tk in zip(to_replay, toks):
            ev['replayed'] = tk
    # renumber lock stamps to small integers (TLC integers are 32 bit): only the order matters
    stamps = sorted({s['lo'] for s in sections} | {s['hi'] for s in sections})
    rank = {t: k for k, t in enumerate(stamps)}
    sections = [{'lo': rank[s['lo']], 'hi': rank[s['hi']], 'pid': s['pid'] % 100000} for s in sections]
    stats = []
    if r['json']:
        parsed_rows = [parse_row(x)[0] for x in rows]
        for k, name in enumerate(r['outputs']):
            js = r['json'].get(name)
            if not js:
                continue
            col = []
            for pr in parsed_rows:
                if k < len(pr):
                    try:
                        col.append(Fraction(float(pr[k])))
                    except ValueError:
                        pass
            col.sort()
            tx = stats_text.get(name, {})
            g = lambda key: dec_rat(tx.get(key, 'x')) or 'undef'  # noqa: E731
            stats.append({'name': name, 'values': [rat(x) for x in col],
                          'json': {'minimum': rat(js['minimum']), 'maximum': rat(js['maximum']), 'median': rat(js['median']),
                                   'mean': rat(js['mean']), 'average': rat(js['average']), 'std': rat(js['standard deviation'])},
                          'text': {'minimum': g('minimum'), 'maximum': g('maximum'), 'median': g('median'), 'mean': g('mean'),
                                   'average': g('average'), 'std': g('standard deviation')}})
    return {'tid': tid, 'iterations': r['iterations'], 'has_continuous': bool(cont_idx),
            'inputs': [{'name': n, 'dist': dist, 'a': rat(a), 'b': rat(b), 'c': rat(c) if c is not None else '0'} for n, dist, a, b, c in r['inputs']],
            'outputs': r['outputs'], 'procs': procs, 'file_rows': rows, 'sections': sections, 'stats': stats,
            'workers': r['workers'], 'kind': r['kind'], 'header': header}
