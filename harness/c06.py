"""C06 — results do not depend on the units in which inputs are written.

M1  UnitTrack.tla over every ordered pair of mutually convertible catalogue units (Units.tla): the design computes
    correctly in every case and echoes correctly whenever the canonical-name lookup succeeds; with a failing lookup TLC
    yields the double-conversion counterexample (required: vacuity guard).
M3  (a) every scalar parameter of six configuration families x every other convertible catalogue unit through the real
        ReadParameter -> read_parameters -> pre-print unit pass (exhaustive in both tiers);
    (b) seeded paired full runs (default unit vs re-expressed) compared on every computed figure;
    (c) every output parameter x convertible catalogue unit as a `Units:` directive on two base files;
    all validated by TraceUnits.tla with the exact factors of Units.tla.
Known failing (unit type, unit) classes and output directives are listed in known_findings_C06.json (generated once
from the calibration run with VERIF_C06_CALIBRATE=1, reviewed, committed; never extended at run time).
"""
from __future__ import annotations

import contextlib
import io
import json
import logging
import os
import random
import re
from fractions import Fraction
from pathlib import Path

from . import gen, sim, tlc
from .c07 import build, params_of
from .common import SPEC, VERIF, MachineryFailure, Result, rat, seed
from .report import Report, decimals, is_number, number

FAMILIES = ['example1', 'example2', 'example10_HP', 'example12_DH', 'example1_addons', 'S-DAC-GT', 'example_SBT_Lo_T', 'example_overpressure']
USE_UNIT = {'Reservoir Depth': 'meter'}      # documented internal rescaling: held in metres after reading


def catalogue() -> dict:
    """unit text -> (dimension, scale, offset) parsed from spec/Units.tla (single source of truth), evaluated exactly."""
    text = (SPEC / 'Units.tla').read_text()
    consts = {'Ft': Fraction('0.3048'), 'In': Fraction('0.0254'), 'Mi': Fraction('1609.344'), 'Lb': Fraction('0.45359237'),
              'Oz': Fraction('0.028349523125'), 'Yr': Fraction(31557600), 'F59': Fraction(5, 9), 'KWh': Fraction(3600000), 'MMBTU': Fraction('1055055852.62')}
    consts['Psi'] = consts['Lb'] * Fraction('9.80665') / consts['In'] ** 2

    def ev(e: str) -> Fraction:
        e = e.strip()
        if e.startswith('"'):
            return Fraction(e.strip('"'))
        if re.fullmatch(r'-?\d+', e):
            return Fraction(int(e))
        if e in consts:
            return consts[e]
        m = re.fullmatch(r'(\w+)\((.*)\)', e)
        if not m:
            raise MachineryFailure(f'Units.tla: cannot evaluate {e}')
        args, depth, cur = [], 0, ''
        for ch in m.group(2):
            if ch == ',' and depth == 0:
                args.append(cur)
                cur = ''
            else:
                depth += ch == '('
                depth -= ch == ')'
                cur += ch
        args.append(cur)
        a = [ev(x) for x in args]
        f = m.group(1)
        return {'Sq': lambda: a[0] ** 2, 'Cu': lambda: a[0] ** 3, 'RMul': lambda: a[0] * a[1], 'RDiv': lambda: a[0] / a[1],
                'RMul3': lambda: a[0] * a[1] * a[2]}[f]()

    cat = {}
    body = text.split('Catalogue == <<')[1].split('>>')[0]
    for m in re.finditer(r'U\("([^"]*)",\s*"(\w+)",\s*((?:[^,()]|\([^()]*(?:\([^()]*\)[^()]*)*\))+),\s*((?:[^,()]|\([^()]*(?:\([^()]*\)[^()]*)*\))+)\)', body):
        cat[m.group(1)] = (m.group(2), ev(m.group(3)), ev(m.group(4)))
    if len(cat) < 80:
        raise MachineryFailure(f'Units.tla catalogue parsed incompletely ({len(cat)} units)')
    return cat


def convert(cat, x: Fraction, u: str, w: str) -> Fraction:
    du, su, ou = cat[u]
    dw, sw, ow = cat[w]
    return (su * x + ou - ow) / sw


def unit_text(u) -> str:
    v = getattr(u, 'value', u)
    return v if isinstance(v, str) else str(v)


def input_case(job):
    """Worker: one real read of base + `name, x unit`, then the pre-print unit pass."""
    base, name, text, mod = job['base'], job['name'], job['text'], job['module']
    full = base.rstrip('\n') + f'\n{name}, {text}\n'
    out = {k: job[k] for k in ('family', 'name', 'text', 'pref', 'user', 'x', 'utype', 'module')}
    logging.disable(logging.CRITICAL)
    try:
        with contextlib.redirect_stdout(io.StringIO()), contextlib.redirect_stderr(io.StringIO()):
            m = build(full)
            p = next(p for md, p in params_of(m) if md == mod and p.Name.strip() == name)
            out['used'] = float(p.value)
            out['label_after_read'] = unit_text(p.CurrentUnits)
            out['outcome'] = 'ok'
            try:
                m.outputs._convert_units(m)
                out['echo_value'] = float(p.value)
                out['echo_unit'] = unit_text(p.CurrentUnits)
                out['echoed'] = True
            except BaseException as ex:  # noqa: BLE001
                out['echoed'] = True
                out['echo_value'] = None
                out['echo_unit'] = f'<raises {type(ex).__name__}>'
                out['echo_error'] = str(ex)[:120]
    except BaseException as ex:  # noqa: BLE001
        out['outcome'] = 'raises'
        out['error'] = f'{type(ex).__name__}: {str(ex)[:100]}'
    finally:
        logging.disable(logging.NOTSET)
    return out


def enumerate_inputs(item):
    fam, base = item
    cat = catalogue()
    m = build(base, read=True)
    jobs, seen = [], set()
    for mod, p in params_of(m):
        if type(p).__name__ != 'floatParameter' or mod not in ('reserv', 'wellbores', 'surfaceplant', 'economics'):
            continue
        name = p.Name.strip()
        pref = unit_text(p.PreferredUnits)
        if name in seen or pref not in cat:
            continue
        seen.add(name)
        v = float(p.value)
        lo, hi = float(p.Min), float(p.Max)
        native = (lo <= v <= hi) and v != 0        # the base's own value: the paired full runs (b) use only these
        if not native:
            v = lo + (hi - lo) * 0.37 if hi < 1e12 and lo > -1e12 else 1.0
        if lo < 0 <= hi and FAMILIES.index(fam) % 2 == 1 if fam in FAMILIES else False:
            # a figure below zero is an ordinary value where the declared range reaches below zero (and stays below zero in degF)
            v, native = lo * 0.63, False
        if name == 'Reservoir Depth':
            v = v / 1000.0 if v > 100 else v     # (held in metres after the base was read)
        for user, (dim, sc, off) in cat.items():
            if dim != cat[pref][0] or user == '':      # (the preferred unit written out explicitly is a listed unit too)
                continue
            x = float(convert(cat, Fraction(v), pref, user))
            jobs.append({'family': fam, 'module': mod, 'name': name, 'pref': pref, 'user': user, 'x': x, 'text': f'{x!r} {user}',
                         'utype': str(getattr(p.UnitType, 'name', p.UnitType)), 'base': base, 'native': native})
    return jobs


# ------------------------------------------------------------------ (c) output directives

def enumerate_outputs(item):
    fam, base = item
    cat = catalogue()
    m = build(base, read=True)
    jobs, seen = [], set()
    for mod in ('reserv', 'wellbores', 'surfaceplant', 'economics'):
        o = getattr(m, mod)
        for key, op in o.OutputParameterDict.items():
            pref = unit_text(op.PreferredUnits)
            if key in seen or pref not in cat:
                continue
            seen.add(key)
            for req, (dim, sc, off) in cat.items():
                if req == pref or dim != cat[pref][0] or req == '':
                    continue
                jobs.append({'family': fam, 'name': key, 'display': getattr(op, 'display_name', None) or key, 'pref': pref, 'req': req,
                             'utype': str(getattr(op.UnitType, 'name', op.UnitType)), 'base': base})
    return jobs


NUMLINE = re.compile(r'^(\s*)(.*?):\s+(\S+)(?:\s+(\S.*?))?\s*$')


def diff_lines(base_report: str, new_report: str, job) -> list:
    """Changed `label: value unit` lines (same line index; the report layout does not depend on units)."""
    a, b = base_report.splitlines(), new_report.splitlines()
    changed = []
    if len(a) != len(b):
        return [{'label': '<layout changed>', 'own': False, 'old_value': 'undef', 'new_value': 'undef', 'old_unit': '', 'new_unit': '', 'slack': '0'}]
    labels = {job['name'], job['display']}
    for x, y in zip(a, b):
        if x == y or re.search(r'Simulation Date|Simulation Time|Calculation Time', x):
            continue
        mx, my = NUMLINE.match(x), NUMLINE.match(y)
        if not mx or not my or not is_number(mx.group(3)) or not is_number(my.group(3)):
            changed.append({'label': x.strip()[:60], 'own': False, 'old_value': 'undef', 'new_value': 'undef', 'old_unit': '', 'new_unit': '', 'slack': '0'})
            continue
        lab = mx.group(2).strip()
        dx, dy = decimals(mx.group(3)), decimals(my.group(3))
        slack = (Fraction(1, 2 * 10 ** dy) if dy is not None else abs(number(my.group(3))) * Fraction(1, 1000))
        # the old figure was itself rounded: half a unit of its last digit, converted, adds to the slack (computed by the spec's factor)
        changed.append({'label': lab, 'own': lab in labels, 'old_value': rat(number(mx.group(3))), 'new_value': rat(number(my.group(3))),
                        'old_unit': (mx.group(4) or '').strip(), 'new_unit': (my.group(4) or '').strip(),
                        'slack': rat(slack), 'old_decimals': dx if dx is not None else 6})
    return changed


ALL = lambda r_: [r_['out'][k] for k in ('lcoe', 'lcoh', 'lcoc', 'npv', 'ccap', 'coam')] + r_['cf'] + r_['tres'] + [r_['trock']]  # noqa: E731


def run(tier: str, only: dict | None = None) -> int:
    """`only` (replay): judge one recorded case again - {'kind': 'input', 'name', 'user'} or {'kind': 'output', 'name', 'req', 'family'}."""
    res = Result('C06', tier)
    calibrate = bool(os.environ.get('VERIF_C06_CALIBRATE')) and only is None
    r = tlc.run_tlc('UnitTrack', 'MC_UnitTrack.cfg', workers=8, timeout=2400)
    tlc.check_mc(r, 'MC_UnitTrack.cfg', ['ReadWithUnit', 'Use', 'ConvertBack', 'Echo'])
    if r['violated']:
        raise MachineryFailure(f'UnitTrack.tla violates {r["violated"]}')
    res.add_mc(r, 'MC_UnitTrack.cfg')
    if tier == 'thorough':
        rp = tlc.run_tlc('UnitTrack', 'MC_UnitTrack_pinned.cfg', workers=8, timeout=2400)
        if rp['violated'] != 'C06_echo':
            raise MachineryFailure('UnitTrack: the failing-lookup design no longer violates C06_echo (vacuity guard)')
        res.cov['design_counterexample_echo'] = rp['trace'][-1]['vars'] if rp['trace'] else None
    cat = catalogue()
    ex = sim.example_inputs()
    bases = [(f, ex[f]) for f in FAMILIES if f in ex]
    # ---- (a) input matrix
    jobs = [j for lst in sim.call_in_pool('harness.c06:enumerate_inputs', bases) for j in lst]
    seen, uniq = set(), []
    for j in jobs:   # a parameter is exercised once per (name, unit): the first family that has it
        k = (j['name'], j['user'], j['x'] < 0)      # (a figure below zero is a case of its own)
        if k not in seen:
            seen.add(k)
            uniq.append(j)
    if only is not None:
        uniq = [j for j in uniq if only['kind'] == 'input' and (j['name'], j['user']) == (only['name'], only['user'])]
    outs = sim.call_in_pool('harness.c06:input_case', uniq)
    traces = []
    for o in outs:
        useunit = USE_UNIT.get(o['name'], o['pref'])
        traces.append({'tid': len(traces) + 1, 'kind': 'input', 'name': o['name'], 'text': o['text'], 'pref': o['pref'], 'user': o['user'],
                       'x': rat(o['x']), 'outcome': o['outcome'], 'error': o.get('error', ''), 'useunit': useunit, 'used': rat(o.get('used')),
                       'echoed': bool(o.get('echoed')), 'echo_value': rat(o.get('echo_value')), 'echo_unit': o.get('echo_unit', ''),
                       'utype': o['utype']})
    # ---- (c) output directives on two bases
    ojobs = [j for lst in sim.call_in_pool('harness.c06:enumerate_outputs', [b for b in bases if b[0] in ('example1', 'example2')]) for j in lst]
    if only is not None:
        ojobs = [j for j in ojobs if only['kind'] == 'output' and (j['name'], j['req'], j['family']) == (only['name'], only['req'], only['family'])]
    elif tier == 'quick':
        random.Random(seed() + 6).shuffle(ojobs)
        ojobs = ojobs[:160]
    base_reports = {o['tag']: o for o in sim.run_many([(f, t) for f, t in bases if f in ('example1', 'example2')], 'harness.c12:project', keep_report=True)}
    oruns = sim.run_many([(str(k), j['base'].rstrip('\n') + f"\nUnits:{j['name']}, {j['req']}\n") for k, j in enumerate(ojobs)], 'harness.c12:project', keep_report=True)
    for j, o in zip(ojobs, oruns):
        if o['status'] == 'machinery':
            raise MachineryFailure(o['error'])
        t = {'tid': len(traces) + 1, 'kind': 'output', 'name': j['name'], 'pref': j['pref'], 'req': j['req'], 'utype': j['utype'], 'family': j['family'],
             'outcome': 'ok' if o['status'] == 'ok' else 'raises', 'error': (o.get('error') or '')[:100], 'changed': []}
        if o['status'] == 'ok':
            t['changed'] = diff_lines(base_reports[j['family']]['report'], o['report'], j)
            for ch in t['changed']:   # slack: own rounding + the base figure's rounding carried through the factor
                if ch['own'] and ch['old_unit'] in cat and j['req'] in cat and cat[ch['old_unit']][0] == cat[j['req']][0]:
                    carried = Fraction(1, 2 * 10 ** ch.get('old_decimals', 6)) * cat[ch['old_unit']][1] / cat[j['req']][1]
                    ch['slack'] = rat(Fraction(ch['slack']) + abs(carried))
                ch.pop('old_decimals', None)
        traces.append(t)
    verdicts, ds, gs = tlc.validate_traces('TraceUnits', 'TraceUnits.cfg', traces)
    res.states += ds
    res.transitions += gs
    res.traces += len(traces)
    counts, candidates = {}, {}
    for t in traces:
        vd = verdicts[t['tid']]
        if t['kind'] == 'input':
            ident = f"in:{t['name']}:{t['user']}"
        else:
            ident = f"out:{t['family']}:{t['name']}:{t['req']}"
        res.case(ident)
        for c in vd['e']:
            counts[c] = counts.get(c, 0) + 1
        for c in vd['f']:
            wit = [w for w in vd['w'] if w.get('clause') == c][:1]
            if t['kind'] == 'input':
                sig = 'raises' if c == 'C06_accepts' else ('echo_raises' if c == 'C06_echo' and str(t['echo_unit']).startswith('<raises') else 'wrong_value')
                key = {'clause': c, 'unit_type': t['utype'], 'unit': t['user'], 'preferred': t['pref'], 'signature': sig, 'parameter': t['name']}
                what = f"{c}: '{t['name']}, {t['text']}' (preferred {t['pref']}): {sig} {json.dumps(wit)[:200]}"
            else:
                sig = 'raises' if c == 'C06_output_accepts' else 'leaks_into_other_lines' if c == 'C06_output_only_itself' else 'value_or_label_wrong'
                key = {'clause': c, 'output': t['name'], 'requested': t['req'], 'signature': sig}
                what = f"{c}: Units:{t['name']}, {t['req']} (preferred {t['pref']}, base {t['family']}): {sig} {json.dumps(wit)[:200]}"
            candidates[json.dumps(key, sort_keys=True)] = (key, what, t.get('name'))
            res.violation(key, what, {'trace': {k_: v_ for k_, v_ in t.items() if k_ != 'changed'}, 'changed': t.get('changed', [])[:8]})
    res.cov['clauses'] = counts
    res.cov['input_cases'] = len(outs)
    res.cov['output_directives'] = len(ojobs)
    if only is not None:
        if not traces:
            raise MachineryFailure(f'replay: the recorded case {only} is no longer enumerated')
        return res.finish()
    res.sample({'input_case': next((t for t in traces if t['kind'] == 'input' and t['outcome'] == 'ok'), None)})
    res.sample({'output_case': next(({k_: v_ for k_, v_ in t.items()} for t in traces if t['kind'] == 'output' and t['changed']), None)})
    if calibrate:
        # a (unit type, preferred, unit) class in which EVERY parameter fails the same way becomes one class-level finding (no
        # 'parameter' in its key: it matches any parameter of the class); otherwise one finding per failing parameter
        tested = {}
        for t in traces:
            if t['kind'] == 'input':
                tested.setdefault((t['utype'], t['pref'], t['user']), set()).add(t['name'])
        groups = {}
        for key, what, _ in candidates.values():
            if 'parameter' in key:
                groups.setdefault((key['clause'], key['unit_type'], key['preferred'], key['unit'], key['signature']), []).append((key, what))
        final = []
        for (cl, ut, pr, un, sg), lst in groups.items():
            failing = {k_['parameter'] for k_, _ in lst}
            if failing == tested[(ut, pr, un)] and len(failing) >= 1 and sg != 'raises' or (failing == tested[(ut, pr, un)] and len(failing) >= 2):
                k0 = {x: y for x, y in lst[0][0].items() if x != 'parameter'}
                final.append((k0, f"class ({ut}: {un} for a {pr} parameter, {len(failing)} parameter(s), e.g. " + lst[0][1]))
            else:
                final += lst
        final += [(key, what) for key, what, _ in candidates.values() if 'parameter' not in key]
        out = [{'id': f'C06-{k:03d}', 'property': 'C06', 'status': 'open', 'key': key, 'what': what.split(' [{')[0][:300]}
               for k, (key, what) in enumerate(sorted(final, key=lambda x: json.dumps(x[0], sort_keys=True)))]
        (VERIF / 'known_findings_C06.candidates.json').write_text(json.dumps({'findings': out}, indent=1) + '\n')
        print(f'calibration: {len(out)} candidate findings written to known_findings_C06.candidates.json')
    # ---- (b) paired full runs on a seeded sample of passing (parameter, unit) cases
    fam_of = {}
    for j in uniq:
        fam_of.setdefault((j['name'], j['user']), j)
    passing = [t for t in traces if t['kind'] == 'input' and t['outcome'] == 'ok' and 'C06_compute' not in verdicts[t['tid']]['f']
               and fam_of[(t['name'], t['user'])]['native'] and fam_of[(t['name'], t['user'])]['family'] != 'example_SBT_Lo_T']
    rng = random.Random(seed() * 6 + 66)
    rng.shuffle(passing)
    sample = passing[: (60 if tier == 'quick' else 600)]
    from .rel import Ladders
    L = Ladders()
    for t in sample:
        j = fam_of[(t['name'], t['user'])]
        v_pref = float(convert(cat, Fraction(j['x']), j['user'], j['pref']))
        a = j['base'].rstrip('\n') + f"\n{j['name']}, {v_pref!r}\n"
        b = j['base'].rstrip('\n') + f"\n{j['name']}, {j['text']}\n"
        L.add('C06_same_results', 'equal', ALL, [(0, a), (1, b)], {'parameter': j['name'], 'unit': j['user'], 'base': j['family']}, tol='1e-7')
    c2 = L.run(res)
    counts.update(c2)
    res.cov['clauses'] = counts
    for need in ('C06_accepts', 'C06_compute', 'C06_echo', 'C06_output_accepts', 'C06_output_only_itself', 'C06_output_value_and_label', 'C06_same_results'):
        if not counts.get(need):
            raise MachineryFailure(f'C06: {need} never evaluated')
    res.cov['rule'] = ('(a) every float parameter with a catalogue unit x every other convertible catalogue unit (complete); (b) seeded paired runs; '
                       '(c) every output x convertible unit on two bases (quick: 160 sampled); distinct = case identity')
    res.assumptions += ['unit factors: spec/Units.tla (SI / NIST definitions, not pint)', '"dimensionally convertible" = equal dimension in Units.tla',
                        'paired runs compared to 1e-7 relative (the re-expressed value is a rounded double)']
    return res.finish()


def replay(path: str) -> int:
    """Read / run the recorded (parameter, unit) case or `Units:` directive again through the real code and judge it again."""
    rp = json.loads(open(path).read())['replay']
    if 'ladder' in rp:
        from .rel import replay_ladder
        return replay_ladder('C06', path, {'C06_same_results': ALL})
    t = rp['trace']
    only = ({'kind': 'input', 'name': t['name'], 'user': t['user']} if t['kind'] == 'input'
            else {'kind': 'output', 'name': t['name'], 'req': t['req'], 'family': t['family']})
    return run('quick', only)
