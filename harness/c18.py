"""C18 — outputs respond monotonically where the model says they must.

M1  lemmas: Resource.tla (bottom-hole temperature monotone in depth and every gradient), WellCost.tla (17 correlations
    non-decreasing on 500..7000 m; replayed into the real function), Levelized.tla (MonotoneInCost).
M3  ladders of 5 runs differing in one parameter, validated by TraceRelation.tla: bht/gradient, bht/depth,
    TDP drawdown (every time step), initial production temperature / flow, well cost / depth, NPV and levelized cost /
    every cost input and adjustment factor.
"""
from __future__ import annotations

import json
import random
from fractions import Fraction

from . import gen, tlc
from .common import Guard, MachineryFailure, Result, bind_repo, seed
from .rel import Ladders

COST_PARAMS = [n for n, _ in gen.FIXED_COMPONENTS] + gen.ADJ_FACTORS + [
    'Annual License Fees Etc', 'One-time Flat License Fees Etc', 'Absorption Chiller Capital Cost', 'Absorption Chiller O&M Cost',
    'Heat Pump Capital Cost', 'Peaking Fuel Cost Rate', 'District Heating Piping Cost Rate', 'Total District Heating Network Cost',
    'District Heating O&M Cost', 'Electricity Rate', 'All-in Vertical Drilling Costs', 'Surface Piping Length']
RANGE = {n: r for n, r in gen.FIXED_COMPONENTS}
RANGE.update({n: (0, 4) for n in gen.ADJ_FACTORS})
RANGE.update({'Annual License Fees Etc': (0, 3), 'One-time Flat License Fees Etc': (0, 20), 'Absorption Chiller Capital Cost': (0, 30),
              'Absorption Chiller O&M Cost': (0, 3), 'Heat Pump Capital Cost': (0, 30), 'Peaking Fuel Cost Rate': (0, 0.2),
              'District Heating Piping Cost Rate': (0, 3000), 'Total District Heating Network Cost': (0, 50), 'District Heating O&M Cost': (0, 5),
              'Electricity Rate': (0, 0.3), 'All-in Vertical Drilling Costs': (100, 5000), 'Surface Piping Length': (0, 20)})


PLANT_COSTS = {5: ['Absorption Chiller Capital Cost', 'Absorption Chiller O&M Cost'], 6: ['Heat Pump Capital Cost'],
               7: ['Peaking Fuel Cost Rate', 'District Heating Piping Cost Rate', 'Total District Heating Network Cost', 'District Heating O&M Cost']}


_DEFAULTS = None


def declared_defaults() -> dict:
    """Declared default of every laddered cost input (read from the live parameter objects): a default inside the range is a rung too -
    a figure the user writes is the figure used, also when it happens to equal the default."""
    global _DEFAULTS
    if _DEFAULTS is None:
        _DEFAULTS = {}
        try:
            from .c07 import build, params_of
            m = build('End-Use Option, 2\nPower Plant Type, 7\nPrint Output to Console, 0\n', read=False)
            for mod, p in params_of(m):
                nm = p.Name.strip() if hasattr(p, 'Name') else None
                if nm in COST_PARAMS and isinstance(getattr(p, 'DefaultValue', None), (int, float)):
                    _DEFAULTS[nm] = float(p.DefaultValue)
        except BaseException:  # noqa: BLE001
            pass
    return _DEFAULTS


def rungs_for(rng, name, k=5) -> list:
    lo, hi = RANGE[name]
    vals = set(ladder_values(rng, lo, hi, k)) | {float(lo), float(hi)}
    d = declared_defaults().get(name)
    if d is not None and lo <= d <= hi:
        vals.add(d)
    return sorted(vals)


def ladder_values(rng, lo, hi, k=5):
    return sorted({round(rng.uniform(lo, hi), 6) for _ in range(k)})


def with_param(p: dict, name: str, value) -> str:
    q = dict(p)
    q[name] = value
    return gen.to_text(q)


def replay_wellcost(res: Result, vectors: list):
    bind_repo()
    from types import SimpleNamespace as NS
    import logging
    from geophires_x.Economics import calculate_cost_of_one_vertical_well
    from geophires_x.OptionList import WellDrillingCostCorrelation

    byint = {m.int_value: m for m in WellDrillingCostCorrelation}
    model = NS(logger=logging.getLogger('verif'))
    logging.disable(logging.CRITICAL)
    bad = 0
    for v in vectors:
        got = float('nan')
        with Guard():
            got = calculate_cost_of_one_vertical_well(model, float(v['z']), byint[v['c']], 1000.0, 'x', 1.0)
        want = Fraction(v['cost'])
        res.count('m2_wellcost_vectors')
        if got != got or abs(Fraction(float(got)) - want) > Fraction(1, 10 ** 11) * max(abs(want), 1):
            bad += 1
            if bad <= 10:
                res.violation({'clause': 'C18_wellcost_m2', 'correlation': v['c'], 'depth_m': v['z']},
                              f'calculate_cost_of_one_vertical_well differs from WellCost.tla: correlation {v["c"]} at {v["z"]} m: {got} vs {float(want)}', {'vector': v})
    logging.disable(logging.NOTSET)
    res.count('m2_wellcost_mismatches', bad)


def energy_positive(r) -> bool:
    return all(all(x > 0 for x in s) for s in r['energy'].values() if s and any(s))


def run(tier: str) -> int:
    res = Result('C18', tier)
    for mod, cfg, acts in (('Resource', f'MC_Resource_walk_{tier}.cfg', ['BottomHole']), ('WellCost', 'MC_WellCost.cfg', ['Deeper'])):
        r = tlc.run_tlc(mod, cfg, workers=1, timeout=1800)
        tlc.check_mc(r, cfg, acts)
        if r['violated']:
            raise MachineryFailure(f'{mod}.tla violates {r["violated"]}')
        res.add_mc(r, cfg + ' (monotonicity lemmas)')
        if mod == 'WellCost':
            replay_wellcost(res, [p for p in r['prints'] if isinstance(p, dict) and 'cost' in p])
    rng = random.Random(seed() * 18 + 18)
    nb = 16 if tier == 'quick' else 80
    L = Ladders()
    for k, (tag, text, p) in enumerate(gen.grid(seed() * 31 + 18, nb, resmodels=(4, 3, 4, 1), with_extras=True)):
        p = dict(p)
        p['Ramey Production Wellbore Model'] = 'True'
        if int(p.get('End-Use Option', 1)) in gen.COGEN and k % 2 == 0:
            # an explicit split of plant cost between the two products, with a tax credit: each product's levelised cost carries its share
            p['CHP Electrical Plant Cost Allocation Ratio'] = gen.fmt(rng.choice([rng.uniform(0.05, 0.4), rng.uniform(0.4, 0.95)]))
            p.setdefault('Investment Tax Credit Rate', gen.fmt(rng.uniform(0.1, 0.5)))
        nseg = int(p.get('Number of Segments', 1))
        # --- bottom-hole temperature vs one gradient (ladder kept on one side of the 1.0 unit heuristic) and vs depth
        gk = rng.randint(1, nseg)
        L.add('C18_bht_gradient', 'nondecreasing', lambda r: r['trock'],
              [(x, with_param(p, f'Gradient {gk}', x)) for x in ladder_values(rng, 15, 120)], {'parameter': f'Gradient {gk}', 'base': tag, 'regime': 'degC/km'})
        L.add('C18_bht_depth', 'nondecreasing', lambda r: r['trock'],
              [(x, with_param(p, 'Reservoir Depth', x)) for x in ladder_values(rng, 0.6, 9)], {'parameter': 'Reservoir Depth', 'base': tag})
        # --- percentage drawdown: reservoir temperature at every time step does not increase with the drawdown rate
        q = dict(p)
        q['Reservoir Model'] = 4
        q['Maximum Drawdown'] = 1
        L.add('C18_tdp_drawdown', 'nonincreasing', lambda r: r['tres'],
              [(x, with_param(q, 'Drawdown Parameter', x)) for x in ladder_values(rng, 0.0005, 0.03)],
              {'parameter': 'Drawdown Parameter', 'base': tag, 'regime': 'Trock>Tinj'}, precondition=lambda r: r['trock'] > r['tinj'])
        L.add('C18_tprod0_flow', 'nondecreasing', lambda r: r['tprod0'],
              [(x, with_param(p, 'Production Flow Rate per Well', x)) for x in ladder_values(rng, 5, 150)],
              {'parameter': 'Production Flow Rate per Well', 'base': tag})
        # --- well cost vs depth inside the correlation's validity window
        q = {kk: vv for kk, vv in p.items() if kk not in ('Well Drilling and Completion Capital Cost', 'Injection Well Drilling and Completion Capital Cost')}
        q['Well Drilling Cost Correlation'] = (k % 17) + 1
        q['Maximum Temperature'] = 600
        q['Number of Segments'] = 1
        q['Gradient 1'] = 30
        L.add('C18_wellcost_depth', 'nondecreasing', lambda r: r['out']['wellcost'],
              [(x, with_param(q, 'Reservoir Depth', x)) for x in ladder_values(rng, 0.55, 6.9)],
              {'parameter': 'Reservoir Depth', 'base': tag, 'correlation': (k % 17) + 1},
              precondition=lambda r: 500 <= r['depth_m'] <= 7000)
        # --- NPV / levelized cost vs cost inputs
        own = PLANT_COSTS.get(int(p.get('Power Plant Type', 0)), [])       # costs only this plant type has: always laddered
        rest = [n for n in COST_PARAMS if n not in own and not any(n in v for v in PLANT_COSTS.values())]
        names = own + rng.sample(rest, 5 if tier == 'quick' else 12)
        for name in names:
            lo, hi = RANGE[name]
            # the ends of the range are rungs too: 0 is a legitimate user-supplied cost, not the "not provided" sentinel
            vals = rungs_for(rng, name)
            rungs = [(x, with_param(p, name, x)) for x in vals]
            meta = {'parameter': name, 'base': tag}
            if 'Surface Plant Capital Cost' in p or 'Total Capital Cost' in p:
                meta['regime'] = 'plant or total capital cost fixed by the user'
            L.add('C18_npv_cost', 'nonincreasing', lambda r: r['out']['npv'], rungs, dict(meta))
            L.add('C18_lc_cost', 'nondecreasing', lambda r: [r['out']['lcoe'], r['out']['lcoh'], r['out']['lcoc']], rungs,
                  dict(meta), precondition=energy_positive)
    # the end-use equipment costs of the three special heat plants, on bases that leave plant and total cost to the correlations
    for k in range(6 if tier == 'quick' else 36):
        plant = (5, 6, 7)[k % 3]
        p = gen.base(rng, rng.choice([4, 3]), 2, plant, (k % 3) + 1, lifetime=rng.choice([5, 10, 20]), steps=2)
        gen.add_prices(p, rng)
        for name in PLANT_COSTS[plant]:
            p.pop(name, None)
            lo, hi = RANGE[name]
            vals = sorted(set(rungs_for(rng, name, 3)) | {round(lo + (hi - lo) * 0.01, 6)})
            rungs = [(x, with_param(p, name, x)) for x in vals]
            L.add('C18_npv_cost', 'nonincreasing', lambda r: r['out']['npv'], rungs, {'parameter': name, 'base': f'plant{plant}#{k}'})
            L.add('C18_lc_cost', 'nondecreasing', lambda r: [r['out']['lcoe'], r['out']['lcoh'], r['out']['lcoc']], rungs,
                  {'parameter': name, 'base': f'plant{plant}#{k}'}, precondition=energy_positive)
    # cogeneration with an explicit (small or large) electricity share of plant cost and a tax credit, all three economic models:
    # each product's levelised cost must still not fall when a capital cost rises
    for k in range(6 if tier == 'quick' else 36):
        eu = gen.COGEN[k % len(gen.COGEN)]
        p = gen.base(rng, 4, eu, rng.choice([1, 2, 4]), (3, 3, 1, 2)[k % 4], lifetime=rng.choice([10, 20, 30]), steps=2)
        gen.add_prices(p, rng)
        split = 'given' if k % 2 == 0 else 'left to the model'
        if split == 'given':
            p['CHP Electrical Plant Cost Allocation Ratio'] = gen.fmt(rng.uniform(0.05, 0.4) if k % 3 else rng.uniform(0.6, 0.95))
        p['Investment Tax Credit Rate'] = gen.fmt(rng.uniform(0.15, 0.5))
        names = rng.sample(['Exploration Capital Cost', 'Reservoir Stimulation Capital Cost', 'Field Gathering System Capital Cost',
                            'Reservoir Stimulation Capital Cost Adjustment Factor', 'Exploration Capital Cost Adjustment Factor',
                            'Surface Plant Capital Cost', 'Well Drilling and Completion Capital Cost'], 3)
        if split != 'given':      # the cost being split is the one to vary when the split is the model's own
            names = ['Surface Plant Capital Cost', 'Surface Plant O&M Cost'] + [n for n in names if n != 'Surface Plant Capital Cost'][:1]
        for name in names:
            rungs = [(x, with_param(p, name, x)) for x in rungs_for(rng, name, 5 if split != 'given' else 3)]
            L.add('C18_npv_cost', 'nonincreasing', lambda r: r['out']['npv'], rungs, {'parameter': name, 'base': f'cogen-split#{k}:eu{eu}'})
            L.add('C18_lc_cost', 'nondecreasing', lambda r: [r['out']['lcoe'], r['out']['lcoh'], r['out']['lcoc']], rungs,
                  {'parameter': name, 'base': f'cogen-split#{k}:eu{eu}'}, precondition=energy_positive)
    # small plants (one doublet at a low flow rate: a few MW of heat), every O&M figure left to the correlations: the small-plant branches
    # of the correlations are the ones in use, and the O&M adjustment factors are the varied costs
    rng_all, rng = rng, random.Random(seed() * 18 + 1808)      # (a stream of its own: the older ladder classes keep theirs)
    for k in range(6 if tier == 'quick' else 36):
        eu = (2, 2, 2, gen.COGEN[k % len(gen.COGEN)])[k % 4]
        p = gen.base(rng, 4, eu, 9 if eu == 2 else rng.choice([1, 2]), (k % 3) + 1, lifetime=rng.choice([10, 20, 30]), steps=2)
        gen.add_prices(p, rng)
        for name in ('Total O&M Cost', 'Surface Plant O&M Cost', 'Wellfield O&M Cost', 'Water Cost', 'Total Capital Cost', 'Surface Plant Capital Cost'):
            p.pop(name, None)
        p.update({'Number of Production Wells': 1, 'Number of Injection Wells': 1, 'Production Flow Rate per Well': gen.fmt(rng.uniform(6, 30)),
                  'Reservoir Depth': gen.fmt(rng.uniform(1.5, 3.5))})
        for name in ('Surface Plant O&M Cost Adjustment Factor', 'Wellfield O&M Cost Adjustment Factor', 'Water Cost Adjustment Factor'):
            rungs = [(x, with_param(p, name, x)) for x in rungs_for(rng, name, 4)]
            L.add('C18_npv_cost', 'nonincreasing', lambda r: r['out']['npv'], rungs, {'parameter': name, 'base': f'small#{k}:eu{eu}'})
            L.add('C18_lc_cost', 'nondecreasing', lambda r: [r['out']['lcoe'], r['out']['lcoh'], r['out']['lcoc']], rungs,
                  {'parameter': name, 'base': f'small#{k}:eu{eu}'}, precondition=energy_positive)
    rng = rng_all
    # multi-segment columns whose temperature cap binds in a deeper segment (the states Resource.tla's lemma quantifies over)
    for k in range(6 if tier == 'quick' else 60):
        p = gen.base(rng, 4, 2, 9, 2, lifetime=5, steps=2)
        nseg = rng.choice([2, 3, 4])
        gen.add_segments(p, rng, nseg)
        p['Maximum Temperature'] = gen.fmt(rng.uniform(200, 420))
        p['Reservoir Depth'] = gen.fmt(rng.uniform(4, 9))
        gk = rng.randint(1, nseg)
        L.add('C18_bht_gradient', 'nondecreasing', lambda r: r['trock'],
              [(x, with_param(p, f'Gradient {gk}', x)) for x in ladder_values(rng, 20, 130, 6)], {'parameter': f'Gradient {gk}', 'base': f'capped{k}', 'regime': 'degC/km'})
        L.add('C18_bht_depth', 'nondecreasing', lambda r: r['trock'],
              [(x, with_param(p, 'Reservoir Depth', x)) for x in ladder_values(rng, 1, 10, 6)], {'parameter': 'Reservoir Depth', 'base': f'capped{k}'})
    # the two regimes known to be non-monotone on the pinned tree
    for k in range(2 if tier == 'quick' else 10):
        p = gen.base(rng, 4, 2, 9, 2, lifetime=10, steps=2)
        L.add('C18_bht_gradient', 'nondecreasing', lambda r: r['trock'],
              [(x, with_param(p, 'Gradient 1', x)) for x in (0.3, 0.9, 1.1, 5.0, 40.0)], {'parameter': 'Gradient 1', 'base': f'cross{k}', 'regime': 'ladder crosses 1.0'})
        c = dict(p)
        c.update({'Reservoir Depth': 1.4, 'Gradient 1': 25, 'Injection Temperature': 70, 'Surface Temperature': 10, 'Maximum Drawdown': 1})
        L.add('C18_tdp_drawdown', 'nonincreasing', lambda r: r['tres'],
              [(x, with_param(c, 'Drawdown Parameter', x)) for x in (0.001, 0.005, 0.01, 0.02)], {'parameter': 'Drawdown Parameter', 'base': f'cold{k}', 'regime': 'Trock<=Tinj'})
    counts = L.run(res)
    res.cov['clauses_and_skips'] = counts
    for need in ('C18_bht_gradient', 'C18_bht_depth', 'C18_tdp_drawdown', 'C18_tprod0_flow', 'C18_wellcost_depth', 'C18_npv_cost', 'C18_lc_cost'):
        if not counts.get(need):
            raise MachineryFailure(f'C18: {need} never evaluated')
    res.cov['rule'] = ('ladders of <= 5 seeded values per varied parameter on seeded bases (quick 16, thorough 80); cost parameters sampled from '
                       f'{len(COST_PARAMS)} cost inputs / adjustment factors; distinct = clause x parameter x base')
    res.assumptions += ['levelized-cost ladders require every yearly energy of the sold products to be positive',
                        'well-cost ladders stay inside the 500..7000 m window', 'monotone = non-strict with 1e-9 relative slack']
    return res.finish()


GETTERS = {'C18_bht_depth': lambda r: r['trock'], 'C18_bht_gradient': lambda r: r['trock'], 'C18_tdp_drawdown': lambda r: r['tres'],
           'C18_tprod0_flow': lambda r: r['tprod0'], 'C18_wellcost_depth': lambda r: r['out']['wellcost'],
           'C18_npv_cost': lambda r: r['out']['npv'], 'C18_lc_cost': lambda r: [r['out']['lcoe'], r['out']['lcoh'], r['out']['lcoc']]}


def replay(path: str) -> int:
    import json
    rp = json.loads(open(path).read())['replay']
    if 'vector' in rp:
        res = Result('C18', 'quick')
        replay_wellcost(res, [rp['vector']])
        return res.finish()
    from .rel import replay_ladder
    return replay_ladder('C18', path, GETTERS)
