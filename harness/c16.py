"""C16 — price and incentive schedules have the documented shape.

M1  Schedule.tla, exhaustive over small schedules (invariants = closed form of the property).
M2  every complete schedule TLC dumps is replayed into the real BuildPTCModel / BuildPricingModel (exact equality).
M3  recorded full runs (price series as reported, zero padded) and ITC/grant/fee run pairs validated by
    TraceSchedule.tla with exact rationals.
"""
from __future__ import annotations

import random
from fractions import Fraction

from . import gen, sim, tlc
from .common import MachineryFailure, Result, bind_repo, frac, rat, seed

MMBTU_KWH = Fraction(29307107, 100000)  # 1 MMBTU = 293.07107 kWh

PRODUCTS = (('Electricity', 'Elec'), ('Heat', 'Heat'), ('Cooling', 'Cooling'), ('Carbon', 'Carbon'))


def project(stage, model, ctx):
    if stage != 'economics_calculated':
        return
    e = model.economics
    L = int(model.surfaceplant.plant_lifetime.value)
    Cy = int(model.surfaceplant.construction_years.value)
    prods = []
    for long, short in PRODUCTS:
        start = getattr(e, f'{short}StartPrice').value
        end = getattr(e, f'{short}EndPrice').value
        s = getattr(e, f'{short}EscalationStart').value
        r = getattr(e, f'{short}EscalationRate').value
        P = 0.0
        Palt = 0.0
        if short != 'Carbon':
            ptc = getattr(e, f'PTC{short}')
            if ptc.Provided:
                P = ptc.value
                Palt = P
                if short in ('Heat', 'Cooling'):
                    # the credit is declared in USD/MMBTU while the price is USD/kWh; either reading of "added to the
                    # price" is accepted (the code adds the number as it stands)
                    Palt = float(Fraction(P) / MMBTU_KWH)
        series = list(getattr(e, f'{short}Price').value)
        prods.append({'name': long, 'start': rat(start), 'end': rat(end), 's': int(s), 'r': rat(r), 'P': rat(P),
                      'Palt': rat(Palt), 'series': [rat(x) for x in series]})
    ctx['c16'] = {'kind': 'run', 'L': L, 'Cy': Cy, 'dur': int(e.PTCDuration.value), 'adj': bool(e.PTCInflationAdjusted.value),
                  'infl': rat(e.RINFL.value), 'products': prods}
    ctx['costs'] = {'ccap': rat(e.CCap.value), 'coam': rat(e.Coam.value), 'itcvalue': rat(e.RITCValue.value)}


INCENTIVE_KEYS = ['Investment Tax Credit Rate', 'One-time Grants Etc', 'Other Incentives', 'One-time Flat License Fees Etc',
                  'Annual License Fees Etc', 'Tax Relief Per Year']


def replay_vectors(res: Result, vectors: list):
    """M2: TLC-generated complete schedules -> real functions, exact comparison."""
    bind_repo()
    from geophires_x.Economics import BuildPricingModel, BuildPTCModel

    bad = 0
    for vec in vectors:
        L, dur = vec['L'], vec['dur']
        f = lambda s_: float(Fraction(s_))  # noqa: E731  (dyadic constants: exact)
        try:
            ptc = BuildPTCModel(L, dur, f(vec['P']), bool(vec['adj']), f(vec['infl']))
            price = BuildPricingModel(L, f(vec['start']), f(vec['end']), vec['s'], f(vec['r']), ptc)
            got_ptc = [Fraction(x) for x in ptc]
            got_price = [Fraction(x) for x in price]
            err = None
        except Exception as ex:  # noqa: BLE001
            got_ptc = got_price = None
            err = f'{type(ex).__name__}: {ex}'
        want_ptc = [Fraction(x) for x in vec['ptc']]
        want_price = [Fraction(x) for x in vec['price'][vec['Cy']:]]
        res.count('m2_vectors_replayed')
        if err or got_ptc != want_ptc or got_price != want_price:
            bad += 1
            key = {'clause': 'C16_shape_m2', 'L': L, 'dur': dur, 's': vec['s'], 'start': vec['start'], 'end': vec['end'],
                   'r': vec['r'], 'P': vec['P'], 'adj': vec['adj'], 'infl': vec['infl']}
            if bad <= 40:
                res.violation(key, f'BuildPTCModel/BuildPricingModel differ from Schedule.tla on {key}',
                              {'vector': vec, 'got_ptc': [str(x) for x in got_ptc or []],
                               'got_price': [str(x) for x in got_price or []], 'error': err})
    res.count('m2_mismatches', bad)
    if vectors:
        res.sample({'m2_vector': vectors[len(vectors) // 2]})


def build_jobs(tier: str):
    rng = random.Random(seed() * 7919 + 16)
    n = 120 if tier == 'quick' else 1200
    jobs = []
    lifetimes = None if tier == 'quick' else list(range(1, 41)) + [50, 60, 75, 99, 100]
    for tag, text, p in gen.grid(seed() * 31 + 16, n, lifetimes=lifetimes):
        q = dict(p)
        gen.add_prices(q, rng)
        if rng.random() < 0.7:
            gen.add_ptc(q, rng)
        if tier == 'thorough' and rng.random() < 0.3 and 'Do AddOn Calculations' not in q:
            q['Construction Years'] = rng.randint(1, 14)
        jobs.append((tag, gen.to_text(q)))
    # one-figure neighbours, run right after their base in the same process (sim.run_chains): a schedule built for one run must not be
    # served to the next one that shares most, but not all, of its arguments
    chains = []
    rng_all, rng = rng, random.Random(seed() * 7919 + 1602)      # (a stream of its own for the chains: the older job classes keep theirs)
    names = ['Inflation Rate', 'Production Tax Credit Duration', 'Production Tax Credit Electricity', 'Production Tax Credit Heat',
             'Production Tax Credit Cooling', 'Production Tax Credit Inflation Adjusted', 'Starting Electricity Sale Price',
             'Ending Electricity Sale Price', 'Electricity Escalation Rate Per Year', 'Electricity Escalation Start Year',
             'Starting Heat Sale Price', 'Ending Heat Sale Price', 'Heat Escalation Rate Per Year', 'Heat Escalation Start Year']
    for tag, text, p in gen.grid(seed() * 31 + 1602, 24 if tier == 'quick' else 200, lifetimes=lifetimes):
        q = dict(p)
        gen.add_prices(q, rng)
        gen.add_ptc(q, rng)
        if len(chains) % 2 == 0:
            q['Production Tax Credit Inflation Adjusted'] = 'True'
            q['Inflation Rate'] = gen.fmt(rng.uniform(0.01, 0.06))
            q['Production Tax Credit Duration'] = max(2, int(q['Production Tax Credit Duration']))
        chain = [(f'chain:{tag}', gen.to_text(q))]
        pool = ['Inflation Rate'] + names if len(chains) % 2 == 0 else names
        for nm, v in gen.neighbours(q, rng, pool[:1] + rng.sample(pool[1:], 3), 3):
            chain.append((f'chain:{tag}~{nm}', gen.to_text(v)))
        chains.append(chain)
    rng = rng_all
    # ITC / grant / fee pairs
    npair = 40 if tier == 'quick' else 300
    pairs = []
    for tag, text, p in gen.grid(seed() * 31 + 1601, npair, with_extras=False):
        a = {k: v for k, v in p.items() if k not in INCENTIVE_KEYS}
        if rng.random() < 0.3:
            gen.add_cost_flags(a, random.Random(len(pairs)))
        if len(pairs) % 3 == 1:
            gen.add_redrill(a, rng)      # the amortised redrilling charge sits in the same O&M total as the annual fees and the relief
        if len(pairs) % 5 == 2:
            gen.add_restated_sentinels(a, rng)
        b = dict(a)                      # B = A + incentives, nothing else
        b['Investment Tax Credit Rate'] = gen.fmt(rng.uniform(0.0, 0.6))
        b['One-time Grants Etc'] = gen.fmt(rng.uniform(0, 20))
        b['Other Incentives'] = gen.fmt(rng.uniform(0, 10))
        b['One-time Flat License Fees Etc'] = gen.fmt(rng.uniform(0, 5))
        b['Annual License Fees Etc'] = gen.fmt(rng.uniform(0, 1))
        b['Tax Relief Per Year'] = gen.fmt(rng.uniform(0, 1))
        pairs.append((tag, a, b))
        jobs.append((f'pairA:{tag}', gen.to_text(a)))
        jobs.append((f'pairB:{tag}', gen.to_text(b)))
    return jobs, pairs, chains


def run(tier: str, replay_inputs: list | None = None) -> int:
    res = Result('C16', tier)
    # ---- M1
    cfg = f'MC_Schedule_{tier}.cfg'
    r = tlc.run_tlc('Schedule', cfg, workers=16)
    tlc.check_mc(r, cfg, ['PTCYear', 'PTCDone', 'PriceYear', 'PriceDone', 'Pad', 'Finish'])
    if r['violated']:
        raise MachineryFailure(f'Schedule.tla violates {r["violated"]} (the model is wrong; fix the spec)\n' + r['raw'][-2500:])
    res.add_mc(r, cfg)
    # ---- M2
    d = tlc.run_tlc('Schedule', f'Dump_Schedule_{tier}.cfg', workers=1, coverage=False)
    tlc.check_mc(d, 'dump')
    vectors = [p for p in d['prints'] if isinstance(p, dict) and 'price' in p]
    if not vectors:
        raise MachineryFailure('no schedule vectors dumped')
    res.add_mc(d, f'Dump_Schedule_{tier}.cfg (M2 vector generation)')
    replay_vectors(res, vectors)
    # ---- M3
    jobs, pairs, chains = build_jobs(tier)
    if replay_inputs is not None:
        jobs, pairs, chains = [], [], [replay_inputs]      # a replay re-runs the recorded history in one process, in its order
    out = sim.run_many(jobs, 'harness.c16:project') + sim.run_chains(chains, 'harness.c16:project')
    by_tag = {o['tag']: o for o in out}
    history = {}
    for c in chains:
        for k, (tg, _) in enumerate(c):
            history[tg] = [list(x) for x in c[:k + 1]]
    traces = []
    meta = {}
    tid = 0
    for o in out:
        if o['status'] == 'machinery':
            raise MachineryFailure(o['error'] + '\n' + o.get('error_tb', ''))
        if o['tag'].startswith('pair'):
            continue
        if 'c16' not in o:
            res.count('rejected_inputs')
            continue
        tid += 1
        t = dict(o['c16'])
        t['tid'] = tid
        traces.append(t)
        meta[tid] = o
    for tag, a, b in pairs:
        oa, ob = by_tag.get(f'pairA:{tag}'), by_tag.get(f'pairB:{tag}')
        if not oa or not ob or 'costs' not in oa or 'costs' not in ob:
            res.count('rejected_pairs')
            continue
        tid += 1
        traces.append({'tid': tid, 'kind': 'pair', 'ritc': rat(float(b['Investment Tax Credit Rate'])),
                       'grants': rat(float(b['One-time Grants Etc'])), 'incentives': rat(float(b['Other Incentives'])),
                       'flatfee': rat(float(b['One-time Flat License Fees Etc'])),
                       'annualfee': rat(float(b['Annual License Fees Etc'])), 'relief': rat(float(b['Tax Relief Per Year'])),
                       'ccapA': oa['costs']['ccap'], 'coamA': oa['costs']['coam'], 'ccapB': ob['costs']['ccap'],
                       'coamB': ob['costs']['coam'], 'itcvalueB': ob['costs']['itcvalue']})
        meta[tid] = {'tag': f'pair:{tag}', 'input': ob['input'], 'input_a': oa['input']}
    verdicts, ds, gs = tlc.validate_traces('TraceSchedule', 'TraceSchedule.cfg', traces)
    res.states += ds
    res.transitions += gs
    res.traces += len(traces)
    clause_counts = {}
    for t in traces:
        vd = verdicts[t['tid']]
        m = meta[t['tid']]
        res.case(m['tag'])
        for c in vd['e']:
            clause_counts[c] = clause_counts.get(c, 0) + 1
        for c in vd['f']:
            wit = [w for w in vd['w'] if w.get('clause') == c][:2]
            res.violation({'clause': c, 'input': m['tag']}, f'{c} fails on {m["tag"]}: {wit}',
                          {'input_text': m['input'], 'input_a': m.get('input_a'), 'history': history.get(m['tag']), 'trace': t, 'verdict': vd})
    res.cov['clauses_evaluated_per_trace'] = clause_counts
    if traces:
        res.sample({'m3_trace': {k_: (v_ if k_ != 'products' else [dict(p, series=p['series'][:4] + ['...']) for p in v_])
                                 for k_, v_ in traces[0].items()}, 'verdict': verdicts[traces[0]['tid']]})
    if replay_inputs is not None:
        res.violations = [v for v in res.violations if not v[0].get('clause', '').endswith('_m2')]
        return res.finish()
    if not clause_counts.get('C16_price') or not clause_counts.get('C16_itc'):
        raise MachineryFailure('C16: a clause family was never evaluated (vacuous run)')
    res.exhaustive = False
    res.cov['rule'] = ('M1: every schedule over the small constants of the cfg; M2: every complete schedule dumped by TLC '
                       'replayed into BuildPTCModel/BuildPricingModel (exact); M3: seeded synthetic configurations '
                       '(all end-uses/plants/economic models) + ITC/grant/fee pairs; a case is distinct by its input tag')
    res.assumptions += ['heat/cooling PTC: both readings (number added as declared, or converted USD/MMBTU->USD/kWh) accepted',
                        'tolerance 1e-9 x sum of |terms| between exact rational evaluation and IEEE doubles']
    return res.finish()


def replay(path: str) -> int:
    """M2 vector -> the real BuildPTCModel / BuildPricingModel again; M3 -> the recorded input through the real simulator again."""
    import json
    rp = json.loads(open(path).read())['replay']
    if 'vector' in rp:
        res = Result('C16', 'quick')
        replay_vectors(res, [rp['vector']])
        if res.violations:
            return res.finish()
        # alone the vector is reproduced: replay it where it failed, after every vector TLC dumps before it, in one process
        d = tlc.run_tlc('Schedule', 'Dump_Schedule_quick.cfg', workers=1, coverage=False)
        vectors = [p for p in d['prints'] if isinstance(p, dict) and 'price' in p]
        res = Result('C16', 'quick')
        replay_vectors(res, vectors)
        same = lambda v: all(v[0].get(k) == rp['vector'].get(k) for k in ('L', 'dur', 's', 'start', 'end', 'r', 'P', 'adj', 'infl'))  # noqa: E731
        res.violations = [v for v in res.violations if same(v)]
        return res.finish()
    if rp.get('input_a'):      # incentive pair: both members are needed, so the quick plan is executed again for this key
        return run('quick')
    if rp.get('history'):      # a run judged after its neighbours in one process: the same history again
        return run('quick', [tuple(x) for x in rp['history']])
    return run('quick', [('replay', rp['input_text'])])
