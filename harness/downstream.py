"""Downstream.tla / TraceDownstream.tla - the add-on and S-DAC-GT modules between the surface plant and the revenue loop.

Beyond the listed properties (DESIGN.md section 9).  Hosted by C02, whose corpus already runs every plant class with add-ons and with
S-DAC-GT: `observe` is called from C02's projector, wraps the two modules' bound `Calculate` methods (nothing in the repository is
edited) and records what they read and wrote; `validate` lets TraceDownstream.tla judge the recorded traces.  Clauses are `fit_ds_*`:
deviations are reported in the evidence as model drift, never as a violation of a listed property.
"""
from __future__ import annotations

from . import tlc
from .common import Result, rat, rats


def _series(model) -> dict:
    sp = model.surfaceplant

    def lst(x):
        try:
            return rats([float(v) for v in x])
        except TypeError:
            return []
    return {'netkwh': lst(sp.NetkWhProduced.value), 'totkwh': lst(sp.TotalkWhProduced.value), 'heatkwh': lst(sp.HeatkWhProduced.value)}


def _enduse(model) -> str:
    n = model.surfaceplant.enduse_option.value.name
    return n if n in ('ELECTRICITY', 'HEAT') else 'COGEN'


def _fl(x):
    return rat(float(x))


def observe(stage, model, ctx):
    """Called by the hosting projector for every stage."""
    if stage == 'params_read':
        import numpy as np
        ds = ctx['ds'] = {'order': []}

        def wrap(obj, name, before, after):
            if obj is None:
                return
            orig = obj.Calculate

            def wrapped(m, _o=orig):
                if 'pre' not in ds:
                    ds['pre'] = _series(m)
                    ds['L'] = int(m.surfaceplant.plant_lifetime.value)
                    ds['cy'] = int(m.surfaceplant.construction_years.value)
                    ds['enduse'] = _enduse(m)
                rec = before(m)
                r = _o(m)
                after(m, rec)
                rec['post'] = _series(m)
                ds[name] = rec
                ds['order'].append(name)
                return r
            obj.Calculate = wrapped

        def a_before(m):
            return {}

        def a_after(m, rec):
            a, e = m.addeconomics, m.economics
            L = int(m.surfaceplant.plant_lifetime.value)
            rec.update({
                'capex_list': rats(a.AddOnCAPEX.value), 'opex_list': rats(a.AddOnOPEXPerYear.value),
                'egain_list': rats(a.AddOnElecGainedPerYear.value), 'hgain_list': rats(a.AddOnHeatGainedPerYear.value),
                'profit_list': rats(a.AddOnProfitGainedPerYear.value),
                'capex': _fl(a.AddOnCAPEXTotal.value), 'opex': _fl(a.AddOnOPEXTotalPerYear.value), 'egain': _fl(a.AddOnElecGainedTotalPerYear.value),
                'hgain': _fl(a.AddOnHeatGainedTotalPerYear.value), 'profit': _fl(a.AddOnProfitGainedTotalPerYear.value),
                'pe': rats(list(e.ElecPrice.value)[:L]), 'ph': rats(list(e.HeatPrice.value)[:L]),
                'coam': _fl(e.Coam.value), 'ccap': _fl(e.CCap.value),
                'adjcapex': _fl(a.AdjustedProjectCAPEX.value), 'adjopex': _fl(a.AdjustedProjectOPEX.value),
                'rev': rats(a.AddOnRevenue.value), 'flow': rats(a.AddOnCashFlow.value), 'cum': rats(a.AddOnCummCashFlow.value),
                'pflow': rats(a.ProjectCashFlow.value), 'pcum': rats(a.ProjectCummCashFlow.value),
                'payback': _fl(a.AddOnPaybackPeriod.value), 'npv': _fl(a.ProjectNPV.value), 'vir': _fl(a.ProjectVIR.value),
                'moic': _fl(a.ProjectMOIC.value)})

        def s_before(m):
            s, sp, w = m.sdacgteconomics, m.surfaceplant, m.wellbores
            return {
                'wacc': _fl(s.wacc.value), 'capex': _fl(s.CAPEX.value), 'opex_in': _fl(s.OPEX.value), 'opex_mult': _fl(s.OPEX_mult.value),
                'therm_in': _fl(s.therm.value), 'therm_index': _fl(s.therm_index.value), 'elec': _fl(s.elec.value), 'cmult': _fl(s.CAPEX_mult.value),
                'storage': _fl(s.storage.value), 'transport': _fl(s.transport.value), 'split': _fl(s.EnergySplit.value),
                'eff': _fl(np.average(sp.FirstLawEfficiency.value)), 'hext': rats([float(x) for x in sp.HeatkWhExtracted.value]),
                'power': _fl(sp.electricity_cost_to_buy.value), 'ng_price': _fl(s.NG_price.value), 'ng_density': _fl(s.NG_EnergyDensity.value),
                'co2p': _fl(s.power_co2intensity.value), 'co2ng': _fl(s.NG_co2intensity.value),
                'depthft': _fl(m.reserv.depth.value * 3280.84), 'tprodavg': _fl(np.average(w.ProducedTemperature.value)),
                'tinj': _fl(w.Tinj.value), 'flow': _fl(w.nprod.value * w.prodwellflowrate.value)}

        def s_after(m, rec):
            s = m.sdacgteconomics
            rec['out'] = {
                'crf': _fl(s.CRF), 'opex': _fl(s.OPEX.value), 'therm': _fl(s.therm.value), 'lcoh': _fl(s.LCOH.value),
                'ratio': _fl(s.kWh_e_per_kWh_th.value), 'lcod_elec': _fl(s.LCOD_elec.value), 'lcod_ng': _fl(s.LCOD_ng.value),
                'lcod_geo': _fl(s.LCOD_geo.value), 'co2_elec': _fl(s.CO2total_elec.value), 'co2_ng': _fl(s.CO2total_ng.value),
                'co2_geo': _fl(s.CO2total_geo.value), 'heatpt': _fl(s.tot_heat_energy_consumed_per_tonne.value),
                'costpt': _fl(s.tot_cost_per_tonne.value), 'pct': _fl(s.percent_thermal_energy_going_to_heat.value),
                'carbon': rats(s.CarbonExtractedAnnually.value), 'cumcarbon': rats(s.S_DAC_GTCummCarbonExtracted.value),
                'annualcost': rats(s.S_DAC_GTAnnualCost.value), 'cumcost': rats(s.S_DAC_GTCummCashFlow.value),
                'cumcostpt': rats(s.CummCostPerTonne.value), 'total': _fl(s.CarbonExtractedTotal.value)}

        wrap(getattr(model, 'addeconomics', None), 'addon', a_before, a_after)
        wrap(getattr(model, 'sdacgteconomics', None), 'sdac', s_before, s_after)
    elif stage == 'calculated' and ctx.get('ds', {}).get('order'):
        try:
            ctx['ds']['final'] = _series(model)
        except Exception:  # noqa: BLE001
            pass


def validate(res: Result, out: list) -> dict:
    traces, meta = [], {}
    for k, o in enumerate(out):
        ds = o.get('ds')
        if o.get('status') != 'ok' or not ds or not ds.get('order') or 'final' not in ds:
            continue
        t = {k_: v_ for k_, v_ in ds.items()}
        t['tid'] = k + 1
        traces.append(t)
        meta[t['tid']] = o
    if not traces:
        return {}
    verdicts, dstates, gstates = tlc.validate_traces('TraceDownstream', 'TraceDownstream.cfg', traces)
    res.states += dstates
    res.transitions += gstates
    counts, drift = {}, {}
    for t in traces:
        vd = verdicts[t['tid']]
        cls = f"{t['enduse']}:{'+'.join(t['order'])}"
        counts[cls] = counts.get(cls, 0) + 1
        for c in vd['e']:
            counts[c] = counts.get(c, 0) + 1
        for c in vd['s']:
            counts['skipped:' + c] = counts.get('skipped:' + c, 0) + 1
        for c in vd['f']:
            drift[c] = drift.get(c, 0) + 1
            sm = res.cov.setdefault('downstream_deviations', [])
            if len(sm) < 6:
                sm.append({'clause': c, 'input': meta[t['tid']]['tag'], 'witness': [w for w in vd['w'] if w.get('clause') == c][:1]})
    res.cov['downstream'] = {'traces': len(traces), 'classes_and_clauses': counts, 'drift': drift,
                             'note': 'Downstream.tla / TraceDownstream.tla: add-ons and S-DAC-GT between the surface plant and the revenue '
                                     'loop; beyond the listed properties, deviations are model drift, not violations'}
    if drift:
        print(f'WARNING downstream model drift (fit_ds_ clauses, not a violation): {drift}')
    return counts
