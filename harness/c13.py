"""C13 — Monte Carlo iterations are independent draws from the requested distributions.

M1  MonteCarlo.tla: every assignment of tasks to workers and every interleaving (3 workers, 4 tasks, a failing task):
    C13_distinct / NoReplica / C13_rows (+ liveness); the pinned design (workers inherit the RNG state) must violate
    NoReplica (vacuity guard).
M3  real MC runs (GEOPHIRES and HIP-RA-X; all five distributions; 1, 2, 4, 16 workers by patching os.cpu_count in the
    driver process) with the worker hooks on; TraceMC.tla steps every process through the per-worker program and checks
    distinctness, support and row count against the result file.
"""
from __future__ import annotations

import concurrent.futures as cf
import json
import random

from . import mc, tlc
from .common import MachineryFailure, Result, seed

CLAUSES = ('C13_',)


def plan(tier: str):
    rng = random.Random(seed() + 13)
    runs = [('geophires', mc.GEO_BASE, mc.GEO_INPUTS, mc.GEO_OUTPUTS, 24, 16), ('geophires', mc.GEO_BASE, mc.GEO_INPUTS[:3], mc.GEO_OUTPUTS[:2], 12, 2),
            ('geophires', mc.GEO_BASE, mc.GEO_INPUTS[1:], mc.GEO_OUTPUTS, 9, 1), ('hip_ra_x', mc.HIP_BASE, mc.HIP_INPUTS, mc.HIP_OUTPUTS, 40, 16),
            ('hip_ra_x', mc.HIP_BASE, mc.HIP_INPUTS, mc.HIP_OUTPUTS, 16, 4),
            # a lognormal around zero on a parameter that admits negative values: a sampler from the wrong family would show
            ('geophires', mc.GEO_BASE, [('Surface Temperature', 'lognormal', 0.0, 0.75, None), ('Gradient 1', 'uniform', 50.0, 70.0, None)],
             mc.GEO_OUTPUTS[:1], 20, 4),
            # failing iterations: utilization factor partly out of range
            ('geophires', mc.GEO_BASE, [('Utilization Factor', 'uniform', 0.6, 1.25, None), ('Gradient 1', 'normal', 60.0, 3.0, None)],
             mc.GEO_OUTPUTS[:2], 24, 8),
            ('hip_ra_x', mc.HIP_BASE, [('Reservoir Porosity', 'uniform', 5.0, 140.0, None)] + mc.HIP_INPUTS[:1], mc.HIP_OUTPUTS, 64, 2),
            # unbounded distributions with real mass beyond the parameter's declared bound, as the only input: such draws fail their
            # iteration, they are not moved (a pile of equal vectors on the bound would show)
            ('geophires', mc.GEO_BASE, [('Utilization Factor', 'normal', 0.97, 0.05, None)], mc.GEO_OUTPUTS[:1], 24, 4),
            ('hip_ra_x', mc.HIP_BASE, [('Reservoir Porosity', 'lognormal', 4.4, 0.5, None)], mc.HIP_OUTPUTS[:1], 32, 4),
            # quantities of extreme scale and a very narrow distribution: a draw must reach the simulator with all its digits
            ('geophires', mc.GEO_BASE, [('Reservoir Permeability', 'uniform', 1e-14, 1e-12, None), ('Reservoir Volume', 'normal', 2.0e9, 1.0e8, None)],
             mc.GEO_OUTPUTS[:1], 12, 4),
            ('geophires', mc.GEO_BASE, [('Gradient 1', 'uniform', 60.0, 60.000004, None), ('Surface Temperature', 'triangular', 14.999999, 15.0, 15.000001)],
             mc.GEO_OUTPUTS[:1], 14, 2),
            # the third program the driver knows (legacy HIP-RA), failing iterations, and a result file named by a relative settings line
            ('hip_ra', mc.HIPRA_BASE, mc.HIPRA_INPUTS, mc.HIPRA_OUTPUTS, 48, 3, 'relative'),
            ('geophires', mc.GEO_BASE, [('Utilization Factor', 'uniform', 0.6, 1.25, None)], mc.GEO_OUTPUTS[:2], 16, 2, 'relative'),
            # a host with a coarse wall clock (whole seconds): the workers' streams must not depend on when they started
            ('geophires', mc.GEO_BASE, mc.GEO_INPUTS[:3], mc.GEO_OUTPUTS[:1], 16, 8, 'coarse'), ('hip_ra_x', mc.HIP_BASE, mc.HIP_INPUTS, mc.HIP_OUTPUTS, 24, 16, 'coarse'),
            # the result file's directory holds the lock of a writer that died holding it (an earlier study killed in the middle of a row)
            ('hip_ra_x', mc.HIP_BASE, mc.HIP_INPUTS, mc.HIP_OUTPUTS, 24, 4, 'stale_lock'), ('geophires', mc.GEO_BASE, mc.GEO_INPUTS[:2], mc.GEO_OUTPUTS[:1], 8, 2, 'stale_lock'),
            # the driver process has run a study on the same base file before, when it held other content
            ('hip_ra_x', mc.HIP_BASE, mc.HIP_INPUTS, mc.HIP_OUTPUTS, 16, 4, 'prelude')]
    if tier == 'thorough':
        for w in (1, 2, 3, 4, 8, 16):
            runs.append(('geophires', mc.GEO_BASE, mc.GEO_INPUTS, mc.GEO_OUTPUTS, rng.choice([30, 60, 100]), w))
            runs.append(('hip_ra_x', mc.HIP_BASE, mc.HIP_INPUTS, mc.HIP_OUTPUTS, rng.choice([50, 150, 300]), w))
        runs = runs * 2
    return runs


def execute(runs, replay: bool):
    with cf.ThreadPoolExecutor(max_workers=3) as ex:
        raw = list(ex.map(lambda a: mc.run_mc(*a[:6], relative=(len(a) > 6 and a[6] == 'relative'), coarse_clock=(len(a) > 6 and a[6] == 'coarse'),
                                              prelude=(len(a) > 6 and a[6] == 'prelude'), stale_lock=(len(a) > 6 and a[6] == 'stale_lock')), runs))
    return [mc.build_trace(k + 1, r, replay) for k, r in enumerate(raw)], raw


def judge(res: Result, traces, raw, prefixes, pid: str):
    verdicts, ds, gs = tlc.validate_traces('TraceMC', 'TraceMC.cfg', traces, shards=8)
    res.states += ds
    res.transitions += gs
    res.traces += len(traces)
    counts, drift = {}, {}
    for t, r in zip(traces, raw):
        vd = verdicts[t['tid']]
        ident = f"{t['kind']}:w{t['workers']}:n{t['iterations']}:{'+'.join(i['dist'] for i in t['inputs'])}"
        res.case(ident + f'#{t["tid"]}')
        for c in vd['e']:
            counts[c] = counts.get(c, 0) + 1
        for c in vd['f']:
            wit = [w for w in vd['w'] if w.get('clause') == c][:2]
            if c.startswith('fit_'):
                drift[c] = drift.get(c, 0) + 1
                continue
            if not c.startswith(prefixes):
                continue
            res.violation({'clause': c, 'run': ident}, f'{c} fails on MC run {ident}: {json.dumps(wit)[:400]}',
                          {'kind': t['kind'], 'workers': t['workers'], 'iterations': t['iterations'], 'inputs': t['inputs'],
                           'outputs': t['outputs'], 'base': r['base'], 'verdict': {k: v for k, v in vd.items() if k != 'w'}, 'witness': wit,
                           'file_rows': t['file_rows'][:10], 'history': r.get('history', '') or ('relative' if r.get('relative') else '')})
    empty = [t['tid'] for t in traces if not t['file_rows'] and not [c for c in verdicts[t['tid']]['f'] if not c.startswith('fit_')]]
    if empty:  # no rows and nothing explains it: the driver's inputs are wrong, not the code under test
        raise MachineryFailure(f'MC runs {empty} produced no rows at all (driver inputs wrong?): ' + raw[empty[0] - 1]['stderr_tail'][-400:])
    res.cov['clauses_evaluated'] = counts
    res.cov['model_drift'] = drift
    res.cov['mc_runs'] = [{'kind': t['kind'], 'workers': t['workers'], 'iterations': t['iterations'], 'processes_seen': len(t['procs']),
                           'rows': len(t['file_rows'])} for t in traces]
    t0 = traces[0]
    res.sample({'mc_trace': {'kind': t0['kind'], 'workers': t0['workers'], 'iterations': t0['iterations'], 'inputs': t0['inputs'],
                             'one_process': t0['procs'][0][:7], 'file_rows': t0['file_rows'][:2]}})
    return counts


def run(tier: str) -> int:
    res = Result('C13', tier)
    r = tlc.run_tlc('MonteCarlo', 'MC_MonteCarlo.cfg', workers=16, timeout=2400)
    tlc.check_mc(r, 'MC_MonteCarlo.cfg', ['Fork', 'TaskStart', 'Draw', 'SimulateOk', 'SimulateFail', 'Acquire', 'AppendRow', 'Release'])
    if r['violated']:
        raise MachineryFailure(f'MonteCarlo.tla (repaired design) violates {r["violated"]}')
    res.add_mc(r, 'MC_MonteCarlo.cfg (3 workers, 4 tasks, 1 failing; safety + liveness)')
    rp = tlc.run_tlc('MonteCarlo', 'MC_MonteCarlo_pinned.cfg', workers=8, timeout=2400)
    if rp['violated'] not in ('NoReplica', 'C13_distinct'):
        raise MachineryFailure('pinned design (workers inherit the RNG) no longer violates NoReplica/C13_distinct: vacuity guard')
    res.cov['pinned_design_counterexample'] = [s['header'][:40] for s in rp['trace']]
    traces, raw = execute(plan(tier), replay=False)
    counts = judge(res, traces, raw, CLAUSES, 'C13')
    for need in ('C13_distinct', 'C13_support', 'C13_rows', 'C13_iterations_all_started'):
        if not counts.get(need):
            raise MachineryFailure(f'C13: {need} never evaluated')
    res.cov['rule'] = ('M1: all interleavings of 3 workers x 4 tasks; M3: real MC runs over both codes, five distributions, pool sizes '
                       '1..16; distinct = run configuration')
    res.assumptions += ['two different stream positions of a continuous distribution give different doubles (p ~ 2^-53 per pair)',
                        'binomial-only vectors are exempt from distinctness', 'pool size varied by patching os.cpu_count in the driver process',
                        'RNG fingerprints and lock-section overlap are model-fit observations only']
    return res.finish()


def replay(path: str) -> int:
    data = json.loads(open(path).read())['replay']
    res = Result('C13', 'quick')
    inputs = [(i['name'], i['dist'], float(__import__('fractions').Fraction(i['a'])), float(__import__('fractions').Fraction(i['b'])),
               float(__import__('fractions').Fraction(i['c'])) if i['dist'] == 'triangular' else None) for i in data['inputs']]
    traces, raw = execute([(data['kind'], data['base'], inputs, data['outputs'], data['iterations'], data['workers']) + ((data['history'],) if data.get('history') else ())], replay=False)
    judge(res, traces, raw, CLAUSES, 'C13')
    res.case('again')
    return res.finish()
