"""C19 — the published parameter schema matches what the simulator accepts.  (see run() docstring)"""
from __future__ import annotations

import contextlib
import io
import json
import logging
import os
import random
import sys
from fractions import Fraction
from pathlib import Path

from . import sim, tlc
from .c07 import build, params_of, declared, num
from .common import REPO, MachineryFailure, Result, bind_repo, rat, seed

MODS = ('reserv', 'wellbores', 'surfaceplant', 'economics', 'outputs', 'addeconomics', 'sdacgteconomics')


def config_text(c: dict) -> str:
    t = 'Print Output to Console, 0\n'
    if c['res'] != 'none':
        t += f"Reservoir Model, {c['res']}\n"
    if c['ags']:
        t += 'Is AGS, True\n'
    if c['econ'] != 'none':
        t += f"Economic Model, {c['econ']}\n"
    if c['pt'] != 'none':
        t += f"Power Plant Type, {c['pt']}\n"
    if c['pt'] == '7':   # district heating needs its demand file to get through read_parameters
        t += (f"District Heating Demand File Name, {REPO / 'tests' / 'examples' / 'cornell_heat_demand.csv'}\n"
              'District Heating Demand Data Time Resolution, 1\nDistrict Heating Demand Data Column Number, 2\n')
    if c['eu'] != 'none':
        t += f"End-Use Option, {c['eu']}\n"
    if c['addons']:
        t += 'AddOn Nickname 1, x\nAddOn CAPEX 1, 1\nAddOn OPEX 1, 0.1\nAddOn Electricity Gained 1, 0\nAddOn Heat Gained 1, 0\nAddOn Profit Gained 1, 0\n'
    if c['sdacgt']:
        t += 'Do S-DAC-GT Calculations, On\n'
    return t


def observe_config(c: dict) -> dict:
    """Worker: the real Model() and read_parameters for one abstract configuration."""
    text = config_text(c)
    out = {'cfg': c}
    try:
        m = build(text, read=False)
    except BaseException as ex:  # noqa: BLE001
        out['failed'] = 'failed_init'
        out['error'] = f'{type(ex).__name__}: {ex}'[:120]
        return out
    out['init_classes'] = sorted({type(getattr(m, a)).__name__ for a in MODS if getattr(m, a, None) is not None})
    out['params'] = {type(getattr(m, a)).__name__: sorted(p.Name.strip() for p in getattr(m, a).ParameterDict.values())
                     for a in MODS if getattr(m, a, None) is not None and hasattr(getattr(m, a), 'ParameterDict')}
    try:
        m = build(text, read=True)
        out['classes'] = sorted({type(getattr(m, a)).__name__ for a in MODS if getattr(m, a, None) is not None})
        out['params'].update({type(getattr(m, a)).__name__: sorted(p.Name.strip() for p in getattr(m, a).ParameterDict.values())
                              for a in MODS if getattr(m, a, None) is not None and hasattr(getattr(m, a), 'ParameterDict')})
    except BaseException as ex:  # noqa: BLE001
        out['failed'] = 'failed_read'
        out['error'] = f'{type(ex).__name__}: {ex}'[:120]
    return out


def enforcement(res: Result, req: dict, identical: set):
    """The published unit and bounds are the ones the reader enforces: for every numeric parameter defined identically everywhere, the
    schema's minimum and maximum written WITH the schema's unit are accepted and stored as written, and the next doubles outside are
    refused (the real Model() + read_parameters; judged by TraceReadParam.tla).  A read that dies inside the unit machinery is C06's
    business and is counted, not judged."""
    import math
    from fractions import Fraction
    from .c07 import enumerate_family, factor_of, family_bases
    from .c06 import catalogue, convert
    from .common import rat
    cat = catalogue()
    jobs, seen = [], set()
    for lst in sim.call_in_pool('harness.c07:enumerate_family', family_bases()):
        for j in lst:
            n = j['name']
            if n not in req or n not in identical or j['label'] != 'min' or j['p']['kind'] != 'float' or j['family'] == 'hip_ra_x':
                continue
            sc = req[n]
            u, lo, hi = sc.get('units'), sc.get('minimum'), sc.get('maximum')
            if not isinstance(u, str) or not u.strip() or not all(isinstance(x, (int, float)) and not isinstance(x, bool) for x in (lo, hi)):
                continue
            if not (abs(lo) < 1e12 and abs(hi) < 1e12):
                continue
            # a figure inside the published bounds, written in another listed unit of the same quantity, is accepted and stored as the
            # published unit's figure: every other unit in the first family that has the parameter, one (rotating) in each further
            # family - the families' readers differ (SBT, SUTRA, AGS read their parameters in their own loops)
            if u in cat and not any(w_ in u for w_ in ('USD', 'cents', 'EUR')):
                others = [w for w in sorted(cat) if w and w != u and cat[w][0] == cat[u][0] and not any(w_ in w for w_ in ('USD', 'cents', 'EUR'))]
                if n in seen and others:
                    others = [others[(len(j['family']) + len(n)) % len(others)]]
                inside = Fraction(float(lo)) + (Fraction(float(hi)) - Fraction(float(lo))) * Fraction(37, 100)
                for w in others:
                    x = float(convert(cat, inside, u, w))
                    back = convert(cat, Fraction(x), w, u)
                    if math.isfinite(x) and Fraction(float(lo)) < back < Fraction(float(hi)):
                        jobs.append(dict(j, label=f'schema_inside_in[{w}]', text=f'{x!r} {w}', v=rat(float(back))))
            if n in seen:
                continue
            seen.add(n)
            for label, x in (('schema_min', float(lo)), ('schema_max', float(hi)), ('schema_below_min', math.nextafter(float(lo), -math.inf)),
                             ('schema_above_max', math.nextafter(float(hi), math.inf))):
                jobs.append(dict(j, label=label, text=f'{x!r} {u}', v=rat(x)))
            dflt = sc.get('default')
            if isinstance(dflt, (int, float)) and not isinstance(dflt, bool) and float(lo) <= float(dflt) <= float(hi):
                jobs.append(dict(j, label='schema_default', text=f'{float(dflt)!r} {u}', v=rat(float(dflt))))
            # the published bound holds in whatever listed unit the figure is written: twice the maximum / half a positive minimum,
            # expressed exactly in every other unit of the same quantity (money units are C06's known business and left out)
            if u in cat and not any(w_ in u for w_ in ('USD', 'cents', 'EUR')):
                for w in sorted(cat):
                    if w == u or not w or cat[w][0] != cat[u][0] or any(w_ in w for w_ in ('USD', 'cents', 'EUR')):
                        continue
                    outside = ([('above', Fraction(float(hi)) * 2)] if hi > 0 else []) + ([('below', Fraction(float(lo)) / 2)] if lo > 0 else [])
                    for side, v in outside:
                        x = float(convert(cat, v, u, w))
                        back = convert(cat, Fraction(x), w, u)
                        if not (math.isfinite(x) and (back > Fraction(float(hi)) * Fraction(3, 2) if side == 'above' else back < Fraction(float(lo)) * Fraction(3, 4))):
                            continue
                        jobs.append(dict(j, label=f'schema_{side}_in[{w}]', text=f'{x!r} {w}', v=rat(float(back))))
            for label, x, text in (('schema_minus_one', -1.0, '-1'), ('schema_zero', 0.0, '0')):      # bare, the way a sentinel would be written
                if x < float(lo) and dflt != x and j['p'].get('cur') != rat(x) and j['p'].get('def') != rat(x):
                    jobs.append(dict(j, label=label, text=text, v=rat(x)))
    outs = sim.call_in_pool('harness.c07:run_case', jobs)
    traces = [{'tid': k + 1, 'name': o['name'], 'text': o['text'], 'p': o['p'], 'v': o['v'], 'outcome': o['outcome'], 'named': bool(o['named']),
               'after': o['after'], 'factor': factor_of(o['family'], o['name'])} for k, o in enumerate(outs)]
    vd, ds, gs = tlc.validate_traces('TraceReadParam', 'TraceReadParam.cfg', traces)
    res.states += ds
    res.transitions += gs
    res.traces += len(traces)
    n_judged = 0
    for t, o in zip(traces, outs):
        res.case(f"enforce:{o['family']}:{o['name']}:{o['label']}")
        if o['outcome'] == 'other' or (o['outcome'] == 'rejected' and 'outside of valid range' not in (o['error'] or '') and (o['label'] in ('schema_min', 'schema_max') or o['label'].startswith('schema_inside_in'))):
            res.count('enforcement_reads_that_died_in_the_unit_machinery')
            continue
        n_judged += 1
        bad = [c for c in vd[t['tid']]['f'] if c.startswith('C07_')]
        if bad:
            res.violation({'clause': 'C19_enforced', 'item': o['name'], 'case': o['label'], 'family': o['family']},
                          f"C19_enforced: '{o['name']}, {o['text']}' (schema unit and bound) -> {o['outcome']} (stored {o['after']}, error={o['error']}): {bad}",
                          {'line': f"{o['name']}, {o['text']}", 'family': o['family'], 'outcome': o['outcome'], 'after': o['after'], 'error': o['error']})
    res.cov['enforcement_cases_judged'] = n_judged
    return n_judged


def live_declarations():
    """Worker (run once): every source class the simulator can instantiate -> its live ParameterDict declarations."""
    bind_repo()
    logging.disable(logging.CRITICAL)
    import importlib
    from geophires_x_schema_generator import GeophiresXSchemaGenerator, HipRaXSchemaGenerator

    out = {'classes': {}, 'generated': {}, 'committed': {}, 'result_fields': [], 'hip': {}}
    cwd0, argv0 = os.getcwd(), list(sys.argv)
    try:
        with contextlib.redirect_stdout(io.StringIO()), contextlib.redirect_stderr(io.StringIO()):
            g = GeophiresXSchemaGenerator()
            req, res = g.generate_json_schema()
            hreq, _ = HipRaXSchemaGenerator().generate_json_schema()
            dummy = g._get_dummy_model()
            names = ['TDPReservoir', 'LHSReservoir', 'MPFReservoir', 'SFReservoir', 'CylindricalReservoir', 'SBTReservoir', 'SUTRAReservoir',
                     'TOUGH2Reservoir', 'UPPReservoir', 'WellBores', 'AGSWellBores', 'SBTWellbores', 'SUTRAWellBores', 'SurfacePlantAGS',
                     'SurfacePlantSUTRA', 'SurfacePlantIndustrialHeat', 'SurfacePlantSubcriticalORC:SurfacePlantSubcriticalOrc',
                     'SurfacePlantSupercriticalORC:SurfacePlantSupercriticalOrc', 'SurfacePlantSingleFlash', 'SurfacePlantDoubleFlash',
                     'SurfacePlantAbsorptionChiller', 'SurfacePlantHeatPump', 'SurfacePlantDistrictHeating', 'Economics', 'AGSEconomics',
                     'SBTEconomics', 'SUTRAEconomics', 'EconomicsAddOns', 'EconomicsS_DAC_GT', 'Outputs']
            for n in names:
                modname, _, cls = n.partition(':')
                cls = cls or modname
                try:
                    klass = getattr(importlib.import_module(f'geophires_x.{modname}'), cls)
                    obj = klass(dummy) if cls != 'Outputs' else klass(dummy, output_file='x.out')
                except Exception as ex:  # noqa: BLE001
                    out['classes'][cls] = {'error': f'{type(ex).__name__}: {ex}'[:100]}
                    continue
                decl = {}
                for p in obj.ParameterDict.values():
                    decl[p.Name.strip()] = live_attrs(p)
                out['classes'][cls] = decl
            from hip_ra_x.hip_ra_x import HIP_RA_X
            hip = HIP_RA_X(enable_hip_ra_logging_config=False)
            out['hip'] = {p.Name.strip(): live_attrs(p) for p in hip.ParameterDict.values()}
    finally:
        os.chdir(cwd0)
        sys.argv = argv0
        logging.disable(logging.NOTSET)
    out['generated'] = {'geophires-request.json': req, 'geophires-result.json': res, 'hip-ra-x-request.json': hreq}
    # the generator builds its parameter objects in-process: the published defaults must not depend on what that process ran before
    try:
        ex = sim.example_inputs()
        for nm in ('example_multiple_gradients', 'example1_addons', 'example12_DH'):
            if nm in ex:
                sim.run_input(ex[nm], None)
        logging.disable(logging.CRITICAL)
        with contextlib.redirect_stdout(io.StringIO()), contextlib.redirect_stderr(io.StringIO()):
            req2, res2 = GeophiresXSchemaGenerator().generate_json_schema()
            hreq2, _ = HipRaXSchemaGenerator().generate_json_schema()
        out['generated_warm'] = {'geophires-request.json': req2, 'geophires-result.json': res2, 'hip-ra-x-request.json': hreq2}
    finally:
        os.chdir(cwd0)
        sys.argv = argv0
        logging.disable(logging.NOTSET)
    d = REPO / 'src' / 'geophires_x_schema_generator'
    for f in out['generated']:
        try:
            out['committed'][f] = json.loads((d / f).read_text())
        except (OSError, ValueError) as ex:
            out['committed'][f] = {'error': str(ex)}
    return out


def live_attrs(p) -> dict:
    kind = type(p).__name__
    units = getattr(p.CurrentUnits, 'value', None)
    a = {'type': getattr(p, 'json_parameter_type', None), 'units': units if isinstance(units, str) else None, 'default': jnum(getattr(p, 'DefaultValue', None)),
         'min': None, 'max': None}
    if kind in ('floatParameter', 'listParameter'):
        a['min'], a['max'] = jnum(p.Min), jnum(p.Max)
    elif kind == 'intParameter' and p.AllowableRange:
        a['min'], a['max'] = jnum(min(p.AllowableRange)), jnum(max(p.AllowableRange))
    return a


def jnum(x):
    """A JSON-able rendition that keeps numbers exact: numbers -> rational strings, the rest -> str / None."""
    if x is None:
        return 'null'
    if isinstance(x, bool):
        return str(x)
    if hasattr(x, 'int_value'):
        return rat(x.int_value)
    if isinstance(x, (int, float)):
        return rat(x)
    if isinstance(x, str):
        try:
            return rat(float(x))     # the generator writes some floats as strings ("7.0")
        except ValueError:
            return 'str:' + x
    if isinstance(x, (list, tuple)):
        return 'list:' + ','.join(jnum(v) for v in x)
    return 'str:' + str(x)


def extractable(fields: list) -> list:
    """Worker: for each (category, field) of the result schema a one-field synthetic report is fed to the real client."""
    bind_repo()
    import tempfile
    from geophires_x_client import GeophiresXResult

    logging.disable(logging.CRITICAL)
    d = tempfile.mkdtemp(prefix='vc19_', dir='/dev/shm' if os.path.isdir('/dev/shm') else None)
    out = []
    try:
        for cat, field in fields:
            f = Path(d, 'r.out')
            indent = ' ' if cat == 'Simulation Metadata' else '    '
            f.write_text(f'\n{indent}{field}: 1.23 unit\n  {field} = 1.23\n')
            try:
                r = GeophiresXResult(f)
                got = r.result.get(cat, {}).get(field)
            except Exception:  # noqa: BLE001
                got = None
            out.append({'category': cat, 'field': field, 'extractable': got is not None})
    finally:
        logging.disable(logging.NOTSET)
        import shutil
        shutil.rmtree(d, ignore_errors=True)
    return out


def run(tier: str, only_key: dict | None = None) -> int:
    """`only_key` (replay): the comparison is global, so the quick check is executed again and the violations with that key are kept."""
    """M1  Pipeline.tla over the full configuration grid (12 000 configurations): Reachable classes, failing combinations.
    M2  every configuration -> real Model() + read_parameters: same classes / same failures (model fit).
    M3  the generated schemas, the committed files and the live ParameterDicts are the trace; TraceSchema.tla evaluates the
        set equalities and attribute equalities and names the offenders; result-schema fields are probed through the real client."""
    res = Result('C19', tier)
    r = tlc.run_tlc('Pipeline', 'MC_Pipeline.cfg', workers=1, timeout=2400)
    tlc.check_mc(r, 'MC_Pipeline.cfg', ['Instantiate', 'FailInit', 'ReadParameters', 'FailRead', 'SecondPass', 'WriteJson'])
    if r['violated']:
        raise MachineryFailure(f'Pipeline.tla violates {r["violated"]}')
    res.add_mc(r, 'MC_Pipeline.cfg')
    pred = [p for p in r['prints'] if isinstance(p, dict) and 'cfg' in p]
    obs = sim.call_in_pool('harness.c19:observe_config', [p['cfg'] for p in pred])
    reachable, drift, observed_accepts = set(), [], {}
    ign = {'Outputs', 'SUTRAOutputs', 'AGSOutputs'}
    for p, o in zip(pred, obs):
        res.count('m2_configurations')
        if p.get('failed') != o.get('failed'):
            drift.append({'cfg': p['cfg'], 'spec': p.get('failed'), 'code': o.get('failed'), 'error': o.get('error')})
            continue
        for cls, names in (o.get('params') or {}).items():
            observed_accepts.setdefault(cls, set()).update(names)
        if not p.get('failed'):
            reachable |= set(p['classes'])
            if set(p['classes']) - ign != set(o['classes']) - ign:
                drift.append({'cfg': p['cfg'], 'spec': sorted(p['classes']), 'code': o['classes']})
        if 'init_classes' in o:
            reachable |= set(o['init_classes']) - ign       # classes instantiated before the re-selection also read the input
    res.cov['pipeline_drift'] = drift[:10]
    res.cov['pipeline_drift_count'] = len(drift)
    if len(drift) > 200:
        raise MachineryFailure(f'Pipeline.tla disagrees with the real ladder on {len(drift)} configurations: recalibrate the spec')
    live = sim.call_in_pool('harness.c19:live_declarations', [None], procs=1)[0] if False else live_declarations()
    accepts = {c: sorted(v) for c, v in live['classes'].items() if 'error' not in v}
    for c, names in observed_accepts.items():   # what the real run's objects hold (confirms the stand-alone instantiation)
        accepts.setdefault(c, sorted(names))
    req = live['generated']['geophires-request.json']['properties']
    schema_names = sorted(req)
    # attributes: names defined identically in every reachable class that accepts them
    attrs = []
    by_name = {}
    for c in reachable:
        for n, a in (live['classes'].get(c) or {}).items():
            if isinstance(a, dict) and 'type' in a:
                by_name.setdefault(n, []).append(a)
    for n, lst in sorted(by_name.items()):
        if n not in req:
            continue
        if any(a != lst[0] for a in lst):
            res.count('attrs_defined_differently_across_classes')
            continue
        s = req[n]
        attrs.append({'name': n, 'schema': {'type': s.get('type'), 'units': s.get('units'), 'default': jnum(s.get('default')),
                                            'min': jnum(s.get('minimum')), 'max': jnum(s.get('maximum'))}, 'live': lst[0]})
    enforcement(res, req, {a['name'] for a in attrs})
    committed = [{'file': f, 'equal': live['committed'].get(f) == g} for f, g in live['generated'].items()]
    committed += [{'file': f + ' (generated after simulations ran in the same process)', 'equal': live['committed'].get(f) == g}
                  for f, g in live.get('generated_warm', {}).items()]
    rs = live['generated']['geophires-result.json']['properties']
    fields = [(cat, fld) for cat, body in rs.items() for fld in body.get('properties', {})]
    result = extractable(fields)
    traces = [{'tid': 1, 'reachable': sorted(reachable), 'accepts': accepts, 'schema': schema_names, 'attrs': attrs, 'committed': committed, 'result': result},
              # HIP-RA-X request schema
              {'tid': 2, 'reachable': ['HIP_RA_X'], 'accepts': {'HIP_RA_X': sorted(live['hip'])},
               'schema': sorted(live['generated']['hip-ra-x-request.json']['properties']),
               'attrs': [{'name': n, 'schema': {'type': s.get('type'), 'units': s.get('units'), 'default': jnum(s.get('default')), 'min': jnum(s.get('minimum')),
                                                'max': jnum(s.get('maximum'))}, 'live': live['hip'][n]}
                         for n, s in live['generated']['hip-ra-x-request.json']['properties'].items() if n in live['hip']],
               'committed': [], 'result': []}]
    def denull(x):   # JsonDeserialize has no null
        if x is None:
            return 'null'
        if isinstance(x, dict):
            return {k_: denull(v_) for k_, v_ in x.items()}
        if isinstance(x, list):
            return [denull(v_) for v_ in x]
        return x
    traces = denull(traces)
    verdicts, ds, gs = tlc.validate_traces('TraceSchema', 'TraceSchema.cfg', traces, shards=2)
    res.states += ds
    res.transitions += gs
    res.traces += len(traces)
    counts = {}
    for t in traces:
        vd = verdicts[t['tid']]
        which = 'geophires' if t['tid'] == 1 else 'hip-ra-x'
        for c in vd['e']:
            counts[f'{which}:{c}'] = counts.get(f'{which}:{c}', 0) + 1
        for w in vd['w']:
            c = w['clause']
            items = w.get('missing') or w.get('extra') or w.get('parameters') or w.get('files') or w.get('fields') or []
            for it in sorted(items):
                detail = ''
                if c == 'C19_attrs':
                    a = next(x for x in t['attrs'] if x['name'] == it)
                    diff = {k_: (a['schema'][k_], a['live'][k_]) for k_ in a['live'] if a['schema'][k_] != a['live'][k_]}
                    detail = f' schema vs enforced: {diff}'
                    owners = ''
                elif c in ('C19_names_missing',):
                    owners = ' accepted by ' + ','.join(sorted(cl for cl in t['reachable'] if it in (t['accepts'].get(cl) or [])))
                else:
                    owners = ''
                res.violation({'clause': c, 'schema': which, 'item': it}, f'{c} ({which}): {it}{owners}{detail}', {'clause': c, 'item': it, 'schema': which})
    res.evaluations += len(schema_names) + len(attrs) + len(result) + len(pred)
    for n in schema_names:
        res.distinct.add('name:' + n)
    res.cov['clauses'] = counts
    res.cov['reachable_classes'] = sorted(reachable)
    res.cov['schema_names'] = len(schema_names)
    res.cov['attrs_compared'] = len(attrs)
    res.cov['result_fields_probed'] = len(result)
    res.sample({'attr': attrs[0] if attrs else None, 'result_field': result[0] if result else None})
    res.exhaustive = True
    res.cov['rule'] = ('finite: all 12 000 ladder configurations, every parameter of every reachable class, every schema entry, every result field; '
                       'complete in both tiers')
    res.assumptions += ['"defined identically" = equal (type, unit, default, min, max) in every reachable class that accepts the name',
                        'numbers compared exactly (1e-12) after reading numeric strings as numbers']
    if only_key is not None:
        res.violations = [v for v in res.violations if v[0] == only_key]
        res.known = [k for k in res.known if k.get('key') == only_key]
    return res.finish()


def replay(path: str) -> int:
    return run('quick', json.loads(open(path).read())['key'])
