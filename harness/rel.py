"""Shared by C11 / C18: run ladders (runs differing in one thing) and hand them to TraceRelation.tla."""
from __future__ import annotations

import json

from . import sim, tlc
from .common import MachineryFailure, Result, rat, rats


def _lst(x):
    try:
        return [float(v) for v in x]
    except TypeError:
        return []


def project(stage, model, ctx):
    if stage == 'reservoir_calculated':
        ctx['trock'] = float(model.reserv.Trock.value)
        ctx['tinj'] = float(model.wellbores.Tinj.value)
    elif stage == 'wellbores_calculated':
        ctx['tres'] = _lst(model.reserv.Tresoutput.value)
        tp = _lst(model.wellbores.ProducedTemperature.value)
        ctx['tprod0'] = tp[0] if tp else None
    elif stage == 'economics_calculated':
        e, sp = model.economics, model.surfaceplant
        g = lambda name: float(getattr(getattr(e, name, None), 'value', float('nan')))  # noqa: E731
        ctx['out'] = {'lcoe': g('LCOE'), 'lcoh': g('LCOH'), 'lcoc': g('LCOC'), 'npv': g('ProjectNPV'), 'ccap': g('CCap'), 'coam': g('Coam'),
                      'irr': g('ProjectIRR'), 'vir': g('ProjectVIR'), 'moic': g('ProjectMOIC'), 'payback': g('ProjectPaybackPeriod'),
                      'wellcost': g('cost_one_production_well')}
        ctx['energy'] = {'elec': _lst(sp.NetkWhProduced.value), 'heat': _lst(sp.HeatkWhProduced.value),
                         'cool': _lst(getattr(getattr(sp, 'cooling_kWh_Produced', None), 'value', []))}
        ctx['cf'] = _lst(e.TotalRevenue.value)
        ctx['redrill'] = int(model.wellbores.redrill.value)
        ctx['depth_m'] = float(model.reserv.depth.quantity().to('m').magnitude)


class Ladders:
    """Collects ladders (lists of (x, input text)) -> runs them all at once -> builds TraceRelation traces."""

    def __init__(self):
        self.items = []   # (ladder id, clause, kind, getter, [(x, text)], meta)

    def add(self, clause: str, kind: str, getter, rungs: list, meta: dict, tol: str = '1e-9', precondition=None):
        self.items.append({'clause': clause, 'kind': kind, 'getter': getter, 'rungs': rungs, 'meta': meta, 'tol': tol, 'pre': precondition})

    def run(self, res: Result) -> dict:
        jobs = []
        for k, it in enumerate(self.items):
            for j, (x, text) in enumerate(it['rungs']):
                jobs.append((f'{k}|{j}', text))
        out = {o['tag']: o for o in sim.run_many(jobs, 'harness.rel:project')}
        traces, index = [], {}
        counts = {}
        for k, it in enumerate(self.items):
            runs = [out[f'{k}|{j}'] for j in range(len(it['rungs']))]
            for r in runs:
                if r['status'] == 'machinery':
                    raise MachineryFailure(r['error'] + '\n' + r.get('error_tb', ''))
            if any(r['status'] != 'ok' or 'out' not in r for r in runs):
                counts['skipped_rejected_rung:' + it['clause']] = counts.get('skipped_rejected_rung:' + it['clause'], 0) + 1
                continue
            if it['pre'] is not None and not all(it['pre'](r) for r in runs):
                counts['skipped_precondition:' + it['clause']] = counts.get('skipped_precondition:' + it['clause'], 0) + 1
                continue
            rungs = []
            for (x, _), r in zip(it['rungs'], runs):
                ys = it['getter'](r)
                rungs.append({'x': rat(x), 'ys': rats(ys if isinstance(ys, (list, tuple)) else [ys])})
            t = {'tid': len(traces) + 1, 'clause': it['clause'], 'kind': it['kind'], 'rungs': rungs, 'tol': it['tol']}
            traces.append(t)
            index[t['tid']] = (it, runs)
        verdicts, ds, gs = tlc.validate_traces('TraceRelation', 'TraceRelation.cfg', traces)
        res.states += ds
        res.transitions += gs
        res.traces += len(traces)
        for t in traces:
            it, runs = index[t['tid']]
            vd = verdicts[t['tid']]
            res.case(f"{it['clause']}:{json.dumps(it['meta'], sort_keys=True)}")
            for c in vd['e']:
                counts[c] = counts.get(c, 0) + 1
            for c in vd['f']:
                wit = [w for w in vd['w'] if w.get('clause') == c][:2]
                key = dict({'clause': c}, **{k_: v_ for k_, v_ in it['meta'].items() if k_ in ('parameter', 'regime', 'relation', 'base')})
                res.violation(key, f"{c} fails on ladder {it['meta']}: {json.dumps(wit)[:350]}",
                              {'ladder': [{'x': x, 'input_text': txt} for x, txt in it['rungs']], 'verdict': {k_: v_ for k_, v_ in vd.items() if k_ != 'w'},
                               'witness': wit, 'meta': it['meta'], 'clause': it['clause'], 'kind': it['kind'], 'tol': it['tol']})
        if traces:
            res.sample({'ladder': {'clause': traces[0]['clause'], 'kind': traces[0]['kind'], 'rungs': traces[0]['rungs'][:3]},
                        'meta': index[1][0]['meta']})
        return counts


def replay_ladder(pid: str, path: str, getters: dict) -> int:
    """Re-run the recorded ladder of inputs through the real simulator and judge it again with TraceRelation.tla.
    `getters`: clause -> the projection that clause compares (code, so it cannot live in the replay file)."""
    data = json.loads(open(path).read())
    rp = data['replay']
    res = Result(pid, 'quick')
    clause = rp.get('clause') or (rp.get('witness') or [{}])[0].get('clause')
    if clause not in getters or 'ladder' not in rp:
        print(json.dumps(rp, indent=1)[:3000])
        raise MachineryFailure(f'replay file carries no re-executable ladder for a known clause (clause={clause})')
    lad = Ladders()
    lad.add(clause, rp.get('kind') or data.get('kind'), getters[clause], [(r['x'], r['input_text']) for r in rp['ladder']], rp.get('meta', {}),
            tol=rp.get('tol', '1e-9'))
    res.cov['clauses_and_skips'] = lad.run(res)
    return res.finish()
