"""Synthetic input generation: abstract configurations (discrete axes) -> concrete GEOPHIRES input texts.

Discrete axes mirror spec/Pipeline.tla (reservoir model, end-use, plant type, economic model, add-ons, carbon,
overpressure ...).  Continuous parameters are drawn with random.Random(seed) inside sane sub-ranges of the declared
[Min, Max]; inputs the simulator legitimately refuses are counted as rejected by the callers, never as failures.
"""
from __future__ import annotations

import random
from pathlib import Path

from .common import REPO

ELEC_PLANTS = [1, 2, 3, 4]
HEAT_PLANTS = [9, 5, 6, 7]
COGEN = [31, 32, 41, 42, 51, 52]
DH_FILE = str(REPO / 'tests' / 'examples' / 'cornell_heat_demand.csv')


def profile_file(rng: random.Random, L: int, n: int) -> str:
    """A user-provided reservoir temperature profile (reservoir model 5): L*n+1 lines `time, temperature`, gently varying, not monotone."""
    import hashlib
    from .common import CACHE
    t0 = rng.uniform(150, 230)
    drop = rng.uniform(0.0, 0.25)
    wob = rng.uniform(0.0, 3.0)
    lines = []
    for k in range(L * n + 1):
        x = k / max(1, L * n)
        lines.append(f'{k / n:.6f}, {t0 * (1 - drop * x) + wob * ((k * 7) % 5 - 2) / 2:.6f}')
    text = '\n'.join(lines) + '\n'
    d = CACHE / 'profiles'
    d.mkdir(parents=True, exist_ok=True)
    f = d / (hashlib.sha256(text.encode()).hexdigest()[:16] + '.txt')
    if not f.exists():
        f.write_text(text)
    return str(f)


def to_text(params: dict) -> str:
    f = str(params.get('Reservoir Output File Name', ''))
    if '/profiles/' in f and 'Plant Lifetime' in params and 'Time steps per year' in params:
        # a generated profile must follow later changes of lifetime / time steps (L * n + 1 lines)
        L, n = int(params['Plant Lifetime']), int(params['Time steps per year'])
        try:
            have = sum(1 for _ in open(f))
        except OSError:
            have = -1
        if have != L * n + 1:
            params = dict(params)
            params['Reservoir Output File Name'] = profile_file(random.Random(f + f'|{L}|{n}'), L, n)
    return ''.join(f'{k}, {v}\n' for k, v in params.items())


def fmt(x) -> str:
    if isinstance(x, float):
        return repr(round(x, 6))
    return str(x)


def base(rng: random.Random, resmodel: int = 4, enduse: int = 1, plant: int = 1, econ: int = 2,
         lifetime: int | None = None, steps: int | None = None, cy: int | None = None) -> dict:
    """A complete, cheap configuration.  Values chosen so that most draws are accepted by the simulator."""
    L = lifetime if lifetime is not None else rng.choice([1, 2, 3, 5, 8, 13, 20, 25, 30, 35, 40])
    n = steps if steps is not None else rng.choice([1, 2, 3, 4, 6, 12])
    if L == 1 and n == 1:
        n = 2  # known crash on valid input (Ramey with a length-1 time vector); not a listed property
    C = cy if cy is not None else rng.choice([1, 1, 2, 3, 4, 5])
    elec = enduse != 2
    p = {
        'Reservoir Model': resmodel,
        'Reservoir Depth': fmt(rng.uniform(3.0, 5.0) if elec else rng.uniform(1.8, 4.0)),
        'Number of Segments': 1,
        'Gradient 1': fmt(rng.uniform(55, 90) if elec else rng.uniform(35, 70)),
        'Maximum Temperature': fmt(rng.uniform(300, 500)),
        'Number of Production Wells': rng.choice([1, 2, 3, 4]),
        'Number of Injection Wells': rng.choice([1, 2, 3]),
        'Production Well Diameter': fmt(rng.uniform(6, 10)),
        'Injection Well Diameter': fmt(rng.uniform(6, 10)),
        'Ramey Production Wellbore Model': rng.choice(['True', 'False']),
        'Production Wellbore Temperature Drop': fmt(rng.uniform(0, 8)),
        'Injection Wellbore Temperature Gain': fmt(rng.uniform(0, 3)),
        'Production Flow Rate per Well': fmt(rng.uniform(25, 90)),
        'Reservoir Volume Option': 3,
        'Reservoir Volume': fmt(rng.uniform(5e8, 4e9)),
        'Water Loss Fraction': fmt(rng.uniform(0, 0.1)),
        'Injection Temperature': fmt(rng.uniform(40, 75) if elec else rng.uniform(25, 55)),
        'Maximum Drawdown': 1,
        'Reservoir Heat Capacity': fmt(rng.uniform(800, 1200)),
        'Reservoir Density': fmt(rng.uniform(2400, 3000)),
        'Reservoir Thermal Conductivity': fmt(rng.uniform(2, 4)),
        'End-Use Option': enduse,
        'Power Plant Type': plant,
        'Circulation Pump Efficiency': fmt(rng.uniform(0.6, 0.9)),
        'Utilization Factor': fmt(rng.uniform(0.6, 1.0)),
        'End-Use Efficiency Factor': fmt(rng.uniform(0.6, 1.0)),
        'Surface Temperature': fmt(rng.uniform(5, 25)),
        'Ambient Temperature': fmt(rng.uniform(5, 25)),
        'Plant Lifetime': L,
        'Construction Years': C,
        'Economic Model': econ,
        'Time steps per year': n,
        'Print Output to Console': 0,
    }
    # hydraulics: impedance or productivity/injectivity index
    if rng.random() < 0.5:
        p['Reservoir Impedance'] = fmt(rng.uniform(0.02, 0.3))
    else:
        p['Productivity Index'] = fmt(rng.uniform(3, 20))
        p['Injectivity Index'] = fmt(rng.uniform(3, 20))
    if resmodel == 4:
        p['Drawdown Parameter'] = fmt(rng.uniform(0.0005, 0.02))
    elif resmodel == 3:
        p['Drawdown Parameter'] = fmt(rng.uniform(1e-4, 2e-3))  # kg/s/m^2
    elif resmodel == 5:
        p['Reservoir Output File Name'] = profile_file(rng, L, n)
    elif resmodel in (1, 2):
        p['Fracture Shape'] = rng.choice([1, 2, 3, 4])
        p['Fracture Height'] = fmt(rng.uniform(400, 1000))
        p['Fracture Width'] = fmt(rng.uniform(400, 1000))
        p['Number of Fractures'] = rng.choice([5, 10, 20, 40])
        p['Fracture Separation'] = fmt(rng.uniform(30, 120))
        p['Reservoir Volume Option'] = rng.choice([1, 3])
        if resmodel == 2:
            p['Reservoir Porosity'] = fmt(rng.uniform(0.02, 0.2))
    if econ == 1:
        p['Fixed Charge Rate'] = fmt(rng.uniform(0.03, 0.15))
        p['Inflation Rate During Construction'] = fmt(rng.uniform(0, 0.1))
    elif econ == 2:
        p['Discount Rate'] = fmt(rng.uniform(0.02, 0.15))
        p['Inflation Rate During Construction'] = fmt(rng.uniform(0, 0.1))
    else:
        p['Fraction of Investment in Bonds'] = fmt(rng.uniform(0.1, 0.9))
        p['Inflated Bond Interest Rate'] = fmt(rng.uniform(0.02, 0.1))
        p['Inflated Equity Interest Rate'] = fmt(rng.uniform(0.05, 0.2))
        p['Inflation Rate'] = fmt(rng.uniform(0.0, 0.06))
        p['Combined Income Tax Rate'] = fmt(rng.uniform(0.0, 0.4))
        p['Gross Revenue Tax Rate'] = fmt(rng.uniform(0.0, 0.1))
        p['Investment Tax Credit Rate'] = fmt(rng.choice([0.0, rng.uniform(0.0, 0.5)]))
        p['Property Tax Rate'] = fmt(rng.uniform(0.0, 0.05))
        p['Inflation Rate During Construction'] = fmt(rng.uniform(0, 0.1))
    if enduse in COGEN:
        p['CHP Fraction'] = fmt(rng.uniform(0.2, 0.8))
        p['CHP Bottoming Entering Temperature'] = fmt(rng.uniform(120, 170))
    if plant == 5:
        p['Absorption Chiller COP'] = fmt(rng.uniform(0.5, 0.9))
        p['Absorption Chiller Capital Cost'] = fmt(rng.uniform(1, 10))
        if rng.random() < 0.5:
            p['Absorption Chiller O&M Cost'] = fmt(rng.uniform(0.05, 1))
    if plant == 6:
        p['Heat Pump COP'] = fmt(rng.uniform(2.0, 5.0))
        p['Heat Pump Capital Cost'] = fmt(rng.uniform(1, 10))
    if plant == 7:
        p['District Heating Demand Option'] = 1
        p['District Heating Demand File Name'] = DH_FILE
        p['District Heating Demand Data Time Resolution'] = 1
        p['District Heating Demand Data Column Number'] = 2
        p['Peaking Fuel Cost Rate'] = fmt(rng.uniform(0.01, 0.06))
        p['Peaking Boiler Efficiency'] = fmt(rng.uniform(0.7, 0.95))
        p['District Heating Piping Cost Rate'] = fmt(rng.uniform(500, 2000))
        r = rng.random()
        if r < 0.3:
            p['Total District Heating Network Cost'] = fmt(rng.uniform(0, 20))
        elif r < 0.6:
            p['District Heating Road Length'] = fmt(rng.uniform(1, 20))
        elif r < 0.8:
            p['District Heating Network Piping Length'] = fmt(rng.uniform(1, 20))
    if enduse == 2:
        p['Electricity Rate'] = fmt(rng.uniform(0.03, 0.15))
    return p


def add_prices(p: dict, rng: random.Random):
    L = int(p['Plant Lifetime'])
    for prod, rate_hi in (('Electricity', 0.01), ('Heat', 0.005), ('Cooling', 0.005)):
        a = rng.uniform(0.01, 0.12)
        b = rng.choice([a, a + rng.uniform(0, 0.1), max(0.0, a - rng.uniform(0, 0.05))])
        p[f'Starting {prod} Sale Price'] = fmt(a)
        p[f'Ending {prod} Sale Price'] = fmt(b)
        p[f'{prod} Escalation Start Year'] = rng.randint(0, min(L + 1, 100))
        p[f'{prod} Escalation Rate Per Year'] = fmt(rng.choice([0.0, rng.uniform(0, rate_hi)]))


def add_ptc(p: dict, rng: random.Random):
    L = int(p['Plant Lifetime'])
    p['Production Tax Credit Duration'] = rng.randint(0, min(L, 99))
    which = rng.choice(['Electricity', 'Heat', 'Cooling', 'all'])
    for prod in ('Electricity', 'Heat', 'Cooling'):
        if which in (prod, 'all'):
            p[f'Production Tax Credit {prod}'] = fmt(rng.uniform(0.005, 0.05))
    p['Production Tax Credit Inflation Adjusted'] = rng.choice(['True', 'False'])
    if 'Inflation Rate' not in p:
        p['Inflation Rate'] = fmt(rng.uniform(0.0, 0.06))


def add_carbon(p: dict, rng: random.Random):
    L = int(p['Plant Lifetime'])
    p['Do Carbon Price Calculations'] = 'True'
    a = rng.uniform(0.0, 0.05)
    p['Starting Carbon Credit Value'] = fmt(a)
    p['Ending Carbon Credit Value'] = fmt(a + rng.uniform(0, 0.1))
    p['Carbon Escalation Start Year'] = rng.randint(0, min(L, 100))
    p['Carbon Escalation Rate Per Year'] = fmt(rng.uniform(0, 0.01))
    if rng.random() < 0.5:
        p['Current Grid CO2 production'] = fmt(rng.uniform(0.2, 2))
        p['CO2 produced by Natural Gas'] = fmt(rng.uniform(0.02, 0.5))


def add_incentives(p: dict, rng: random.Random):
    if rng.random() < 0.6:
        p['Investment Tax Credit Rate'] = fmt(rng.uniform(0.05, 0.5))
    if rng.random() < 0.5:
        p['One-time Grants Etc'] = fmt(rng.uniform(0, 20))
    if rng.random() < 0.5:
        p['Other Incentives'] = fmt(rng.uniform(0, 10))
    if rng.random() < 0.5:
        p['One-time Flat License Fees Etc'] = fmt(rng.uniform(0, 5))
    if rng.random() < 0.5:
        p['Annual License Fees Etc'] = fmt(rng.uniform(0, 1))
    if rng.random() < 0.5:
        p['Tax Relief Per Year'] = fmt(rng.uniform(0, 1))


FIXED_COMPONENTS = [
    ('Reservoir Stimulation Capital Cost', (0, 20)),
    ('Exploration Capital Cost', (0, 20)),
    ('Well Drilling and Completion Capital Cost', (1, 20)),
    ('Injection Well Drilling and Completion Capital Cost', (1, 20)),
    ('Surface Plant Capital Cost', (1, 100)),
    ('Field Gathering System Capital Cost', (0, 10)),
    ('Wellfield O&M Cost', (0, 3)),
    ('Surface Plant O&M Cost', (0, 5)),
    ('Water Cost', (0, 1)),
    ('Total Capital Cost', (5, 300)),
    ('Total O&M Cost', (0.1, 10)),
]
ADJ_FACTORS = [
    'Reservoir Stimulation Capital Cost Adjustment Factor', 'Exploration Capital Cost Adjustment Factor',
    'Well Drilling and Completion Capital Cost Adjustment Factor',
    'Injection Well Drilling and Completion Capital Cost Adjustment Factor',
    'Wellfield O&M Cost Adjustment Factor', 'Surface Plant Capital Cost Adjustment Factor',
    'Field Gathering System Capital Cost Adjustment Factor', 'Surface Plant O&M Cost Adjustment Factor',
    'Water Cost Adjustment Factor',
]


def add_cost_flags(p: dict, rng: random.Random, flags: set | None = None):
    """flags: names of FIXED_COMPONENTS supplied by the user (None = random subset)."""
    for name, (lo, hi) in FIXED_COMPONENTS:
        on = (name in flags) if flags is not None else (rng.random() < (0.15 if name.startswith('Total') else 0.3))
        if on:
            p[name] = fmt(rng.uniform(lo, hi))
    for name in ADJ_FACTORS:
        if rng.random() < 0.4:
            p[name] = fmt(rng.uniform(0, 3))
    p['Well Drilling Cost Correlation'] = rng.randint(1, 17)
    if rng.random() < 0.3:
        p['Surface Piping Length'] = fmt(rng.uniform(0, 10))


SENTINEL_DEFAULTS = ['Reservoir Stimulation Capital Cost', 'Exploration Capital Cost', 'Well Drilling and Completion Capital Cost', 'Wellfield O&M Cost',
                     'Surface Plant Capital Cost', 'Field Gathering System Capital Cost', 'Surface Plant O&M Cost', 'Water Cost', 'Total Capital Cost',
                     'Total O&M Cost']


def add_restated_sentinels(p: dict, rng: random.Random, n: int | None = None) -> list:
    """Write the documented 'not provided' sentinel (-1) explicitly for costs the configuration leaves to the correlations:
    the run must be the same as without the line (the reader marks such a parameter Provided but not Valid)."""
    free = [k for k in SENTINEL_DEFAULTS if k not in p]
    pick = rng.sample(free, min(len(free), n or rng.randint(1, 3)))
    pick += [k for k in ('Total O&M Cost', 'Total Capital Cost') if k in free and k not in pick and rng.random() < 0.7]   # the totals select whole report branches
    for k in pick:
        p[k] = -1
    return pick


def add_redrill(p: dict, rng: random.Random):
    p['Maximum Drawdown'] = fmt(rng.uniform(0.005, 0.3))
    if p.get('Reservoir Model') == 4:
        p['Drawdown Parameter'] = fmt(rng.uniform(0.005, 0.05))


def add_overpressure(p: dict, rng: random.Random):
    # the report's pump-power table needs the productivity/injectivity-index hydraulic model (with an impedance the
    # run dies in the writer: valid-input crash, no listed property), so overpressure implies the index model
    p.pop('Reservoir Impedance', None)
    p.setdefault('Productivity Index', fmt(rng.uniform(3, 20)))
    p.setdefault('Injectivity Index', fmt(rng.uniform(3, 20)))
    p['Overpressure Percentage'] = 100 if rng.random() < 0.2 else fmt(rng.uniform(100, 300))     # exactly 100 % is in scope (no excess, still two reservoirs)
    p['Overpressure Depletion Rate'] = fmt(rng.uniform(0.5, 15))
    p['Injection Reservoir Depth'] = fmt(rng.uniform(500, 3000))
    p['Injection Reservoir Inflation Rate'] = fmt(rng.uniform(0, 200))
    if rng.random() < 0.5:
        p['Injection Reservoir Initial Pressure'] = fmt(rng.uniform(0, 30000))


def add_addons(p: dict, rng: random.Random, n: int | None = None):
    n = n or rng.randint(1, 3)
    p['Do AddOn Calculations'] = 'True'
    p['Construction Years'] = 1  # the add-on report writer assumes one construction year (otherwise the run dies)
    for k in range(1, n + 1):
        p[f'AddOn Nickname {k}'] = f'addon{k}'
        p[f'AddOn CAPEX {k}'] = fmt(rng.uniform(0, 30))
        p[f'AddOn OPEX {k}'] = fmt(rng.uniform(0, 2))
        p[f'AddOn Electricity Gained {k}'] = fmt(rng.uniform(0, 50000))
        p[f'AddOn Heat Gained {k}'] = fmt(rng.uniform(0, 50000))
        p[f'AddOn Profit Gained {k}'] = fmt(rng.uniform(0, 3))


def add_segments(p: dict, rng: random.Random, nseg: int):
    p['Number of Segments'] = nseg
    depth = float(p['Reservoir Depth'])
    for k in range(1, nseg + 1):
        p[f'Gradient {k}'] = fmt(rng.uniform(20, 90))
        if k < nseg:
            p[f'Thickness {k}'] = fmt(rng.uniform(0.3, max(0.4, depth / nseg)))


def grid(seed_: int, n: int, resmodels=(4, 3), econs=(1, 2, 3), with_extras: bool = True,
         enduses=None, lifetimes=None) -> list:
    """n seeded configurations cycling through every (end-use, plant, economic model) combination."""
    rng = random.Random(seed_)
    combos = []
    for eu in (enduses or [1, 2] + COGEN):
        plants = HEAT_PLANTS if eu == 2 else ELEC_PLANTS
        for pl in plants:
            for ec in econs:
                combos += [(eu, pl, ec)] * (1 if eu in COGEN else 3)  # the six cogeneration variants would dominate
    rng.shuffle(combos)
    out = []
    for k in range(n):
        eu, pl, ec = combos[k % len(combos)]
        rm = resmodels[k % len(resmodels)] if rng.random() < 0.8 else rng.choice(resmodels)
        L = rng.choice(lifetimes) if lifetimes else None
        p = base(rng, rm, eu, pl, ec, lifetime=L)
        tags = []
        if with_extras:
            add_prices(p, rng)
            if rng.random() < 0.35:
                add_ptc(p, rng); tags.append('ptc')
            if rng.random() < 0.3:
                add_carbon(p, rng); tags.append('carbon')
            if rng.random() < 0.4:
                add_incentives(p, rng); tags.append('incent')
            if rng.random() < 0.6:
                add_cost_flags(p, rng); tags.append('costs')
            if rng.random() < 0.25:
                add_redrill(p, rng); tags.append('redrill')
            if rng.random() < 0.2:
                add_addons(p, rng); tags.append('addons')
            if rng.random() < 0.15:
                add_overpressure(p, rng); tags.append('overp')
            if rng.random() < 0.25:
                add_segments(p, rng, rng.choice([2, 3, 4])); tags.append('seg')
            if rng.random() < 0.12:
                add_restated_sentinels(p, rng); tags.append('sentinel')
            if rng.random() < 0.3:
                p['Discount Initial Year Cashflow'] = 'True'
            p['Fixed Internal Rate'] = fmt(rng.uniform(0, 15))
        tag = f'grid{seed_}-{k}:rm{rm}/eu{eu}/pt{pl}/em{ec}' + ('+' + '+'.join(tags) if tags else '')
        out.append((tag, to_text(p), p))
    return out


def neighbours(p: dict, rng: random.Random, names: list, k: int = 2) -> list:
    """k variants of the configuration p, each differing from it in ONE of the stated figures `names` (a number scaled by a factor in
    [0.5, 1.5] that is not 1, a whole number moved by one, a switch flipped).  Run right after p in the same process (sim.run_chains) they
    are the histories on which a memo keyed by too few of its arguments, or any other state a run leaves behind, shows: the neighbour
    shares every key but one with the run before it.  Returns [(name changed, variant)]."""
    present = [n for n in names if n in p]
    out = []
    for n in rng.sample(present, min(k, len(present))):
        v = p[n]
        q = dict(p)
        if str(v) in ('True', 'False'):
            q[n] = 'False' if str(v) == 'True' else 'True'
        else:
            try:
                iv = int(str(v))
                q[n] = iv + 1 if (iv <= 1 or rng.random() < 0.5) else iv - 1
            except ValueError:
                try:
                    fv = float(str(v))
                except ValueError:
                    continue
                q[n] = fmt(fv * rng.choice([0.5, 0.75, 1.25, 1.5])) if fv != 0 else fmt(rng.uniform(0.01, 0.05))
        out.append((n, q))
    return out
