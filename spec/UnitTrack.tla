------------------------------ MODULE UnitTrack ------------------------------
(***************************************************************************)
(* Unit tracking of one input parameter through a run (property C06):      *)
(*   value      the number the parameter object holds                      *)
(*   valueUnit  GHOST: the unit that number is really expressed in         *)
(*   labelUnit  CurrentUnits: what the object SAYS the unit is             *)
(* ReadWithUnit(u, ok)  ConvertUnits: value -> preferred; the label        *)
(*     becomes the user's unit and is set back to the preferred unit only  *)
(*     if the lookup of pint's canonical unit name succeeds (ok)           *)
(* Use                  Calculate reads `value` as PreferredUnits          *)
(* ConvertBack          Outputs._convert_units / ConvertUnitsBack: when    *)
(*     label # preferred, interprets `value` as labelUnit and converts to  *)
(*     preferred                                                           *)
(* Echo                 echo of value and label                            *)
(* The design computes correctly in every case (C06_compute) but echoes a  *)
(* double-converted value whenever the lookup failed (C06_echo) -- TLC     *)
(* produces that counterexample; the real (parameter, unit) matrix says    *)
(* for which catalogue units the lookup fails.                             *)
(***************************************************************************)
EXTENDS Units, TLC

CONSTANTS Values
VARIABLES pc, pref, user, x0, ok, value, valueUnit, labelUnit, used
vars == <<pc, pref, user, x0, ok, value, valueUnit, labelUnit, used>>

Pairs == {<<Catalogue[a].unit, Catalogue[b].unit>> : a \in 1..Len(Catalogue), b \in 1..Len(Catalogue)}
Init == /\ pc = "read" /\ x0 \in Values /\ ok \in BOOLEAN
        /\ \E pr \in Pairs : Convertible(pr[1], pr[2]) /\ pr[1] # pr[2] /\ pref = pr[1] /\ user = pr[2]
        /\ value = "0" /\ valueUnit = pref /\ labelUnit = pref /\ used = "undef"

ReadWithUnit == /\ pc = "read"
                /\ value' = Convert(x0, user, pref) /\ valueUnit' = pref
                /\ labelUnit' = IF ok THEN pref ELSE user
                /\ pc' = "use" /\ UNCHANGED <<pref, user, x0, ok, used>>
Use == /\ pc = "use" /\ used' = value /\ pc' = "back" /\ UNCHANGED <<pref, user, x0, ok, value, valueUnit, labelUnit>>
ConvertBack == /\ pc = "back"
               /\ IF labelUnit # pref
                  THEN value' = Convert(value, labelUnit, pref) /\ labelUnit' = pref     \* interprets the number under its LABEL
                  ELSE UNCHANGED <<value, labelUnit>>
               /\ pc' = "print" /\ UNCHANGED <<pref, user, x0, ok, valueUnit, used>>
Echo == pc = "print" /\ pc' = "done" /\ UNCHANGED <<pref, user, x0, ok, value, valueUnit, labelUnit, used>>
Next == ReadWithUnit \/ Use \/ ConvertBack \/ Echo
Spec == Init /\ [][Next]_vars

C06_compute == pc \in {"back", "print", "done"} => SameQuantity(used, pref, x0, user)
C06_echo == pc = "done" => SameQuantity(value, labelUnit, x0, user)
C06_echo_when_lookup_succeeds == pc = "done" /\ ok => SameQuantity(value, labelUnit, x0, user)
=============================================================================
