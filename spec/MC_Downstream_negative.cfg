SPECIFICATION Spec
CONSTANTS MaxL = 2  MaxE = 2  MaxGain = 1  MaxC = 2
INVARIANT NeverNegative
CHECK_DEADLOCK FALSE
