SPECIFICATION Spec
CONSTANTS
  MaxL = 5
  MaxCy = 3
  MaxTsy = 4
  Missing = {}
INVARIANT TypeOK
INVARIANT NeverCrashes
INVARIANT OneRowPerYear
INVARIANT PrefixOK
INVARIANT ProfilesPresent
INVARIANT LadderTotal
PROPERTY Terminates
CHECK_DEADLOCK FALSE
