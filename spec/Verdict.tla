------------------------------ MODULE Verdict ------------------------------
(***************************************************************************)
(* Total verdicts for trace validation (DESIGN.md 2.2, M3).  A clause      *)
(* never disables an action: its outcome is folded into a verdict record   *)
(*   e: clauses evaluated on defined inputs, f: those that failed,         *)
(*   s: clauses skipped because an input was undefined,                    *)
(*   w: witnesses (one per failing clause occurrence, capped).             *)
(***************************************************************************)
LOCAL INSTANCE Naturals
LOCAL INSTANCE Sequences
LOCAL INSTANCE FiniteSets
LOCAL INSTANCE TLC

V0 == [e |-> {}, f |-> {}, s |-> {}, w |-> <<>>]

MaxWitness == 6

Clause(name, def, ok, wit) ==
  IF ~def THEN [e |-> {}, f |-> {}, s |-> {name}, w |-> <<>>]
  ELSE IF ok THEN [e |-> {name}, f |-> {}, s |-> {}, w |-> <<>>]
  ELSE [e |-> {name}, f |-> {name}, s |-> {}, w |-> <<[clause |-> name] @@ wit>>]

VJoin(a, b) ==
  [e |-> a.e \cup b.e, f |-> a.f \cup b.f, s |-> a.s \cup b.s,
   w |-> IF Len(a.w) >= MaxWitness THEN a.w
         ELSE a.w \o SubSeq(b.w, 1, IF Len(b.w) < MaxWitness - Len(a.w) THEN Len(b.w) ELSE MaxWitness - Len(a.w))]

RECURSIVE VAll(_)
VAll(seq) == IF seq = <<>> THEN V0 ELSE VJoin(Head(seq), VAll(Tail(seq)))
=============================================================================
