SPECIFICATION Spec
CONSTANTS
  Vals <- SmallVals
  IntEarly = FALSE
INVARIANT C07_reject
INVARIANT C07_accept
INVARIANT C07_never_altered
INVARIANT OnlySentinelSlipsThrough
CHECK_DEADLOCK FALSE
