------------------------------ MODULE Schedule ------------------------------
(***************************************************************************)
(* Price and incentive schedules (property C16).                           *)
(*                                                                         *)
(* One action per loop iteration of Economics.BuildPTCModel (PTCYear),     *)
(* Economics.BuildPricingModel (PriceYear) and of the construction-year    *)
(* zero padding in Economics.Calculate (Pad).  Years are 0-based as in the *)
(* code; sequences are 1-based, so year k lives at index k + 1.            *)
(*                                                                         *)
(* The property is the closed form (Base, PTCOf) stated as invariants; the *)
(* machine is what the code does.  M1 checks machine = closed form for     *)
(* every small schedule; M2 replays every complete schedule into the real  *)
(* functions; TraceSchedule.tla (M3) checks recorded runs against the      *)
(* same closed form.                                                       *)
(***************************************************************************)
EXTENDS Integers, Sequences, Rat, TLC, Json

CONSTANTS MaxL,      \* plant lifetimes 1..MaxL
          MaxCy,     \* construction years 1..MaxCy
          Prices,    \* start / end prices (rational strings), includes start > end
          Rates,     \* escalation rates
          PTCs,      \* production tax credit levels
          Infls,     \* inflation rates
          Dump       \* TRUE: print every complete schedule as JSON (M2 vectors)

VARIABLES pc, L, Cy, s, dur, start, end, r, P, adj, infl, i, ptc, price
vars == <<pc, L, Cy, s, dur, start, end, r, P, adj, infl, i, ptc, price>>
params == <<L, Cy, s, dur, start, end, r, P, adj, infl>>

Max(a, b) == IF a >= b THEN a ELSE b

(* ---- the documented shape (closed form) ---- *)
Base(k, st, en, es, rr) == RMin(RAdd(st, RMul(Max(0, k - es), rr)), en)
PTCOf(k, d, p, a, inf) == IF k < d THEN (IF a THEN RMul(p, RPow(RAdd(1, inf), k)) ELSE RNorm(p)) ELSE "0"
PriceOf(k, st, en, es, rr, d, p, a, inf) == RAdd(Base(k, st, en, es, rr), PTCOf(k, d, p, a, inf))

Init == /\ pc = "ptc" /\ i = 0
        /\ L \in 1..MaxL /\ Cy \in 1..MaxCy
        /\ s \in 0..(L + 1) /\ dur \in 0..L
        /\ start \in Prices /\ end \in Prices /\ r \in Rates
        /\ P \in PTCs /\ adj \in BOOLEAN /\ infl \in Infls
        /\ ptc = [k \in 1..L |-> "0"]
        /\ price = <<>>

(* BuildPTCModel: for year in range(0, duration) *)
PTCYear == /\ pc = "ptc" /\ i < dur
           /\ ptc' = [ptc EXCEPT ![i + 1] = IF adj /\ i > 0 THEN RMul(ptc[i], RAdd(1, infl)) ELSE RNorm(P)]
           /\ i' = i + 1
           /\ UNCHANGED <<pc, price, params>>
PTCDone == /\ pc = "ptc" /\ i = dur
           /\ pc' = "price" /\ i' = 0
           /\ UNCHANGED <<ptc, price, params>>

(* BuildPricingModel: for i in range(0, plantlifetime) *)
PriceYear == /\ pc = "price" /\ i < L
             /\ LET p1 == IF i >= s THEN RAdd(start, RMul(i - s, r)) ELSE RNorm(start)
                    p2 == IF RGt(p1, end) THEN RNorm(end) ELSE p1
                IN price' = Append(price, RAdd(p2, ptc[i + 1]))
             /\ i' = i + 1
             /\ UNCHANGED <<pc, ptc, params>>
PriceDone == /\ pc = "price" /\ i = L
             /\ pc' = "pad" /\ i' = 0
             /\ UNCHANGED <<ptc, price, params>>

(* Economics.Calculate: for i in range(0, construction_years): Price.insert(0, 0.0) *)
Pad == /\ pc = "pad" /\ i < Cy
       /\ price' = <<"0">> \o price
       /\ i' = i + 1
       /\ UNCHANGED <<pc, ptc, params>>
Finish == /\ pc = "pad" /\ i = Cy
          /\ pc' = "done"
          /\ (Dump => PrintT(ToJson([L |-> L, Cy |-> Cy, s |-> s, dur |-> dur, start |-> start, end |-> end, r |-> r,
                                     P |-> P, adj |-> adj, infl |-> infl, ptc |-> ptc, price |-> price])))
          /\ UNCHANGED <<i, ptc, price, params>>

Next == PTCYear \/ PTCDone \/ PriceYear \/ PriceDone \/ Pad \/ Finish
Spec == Init /\ [][Next]_vars

(* ---- invariants = property C16 on the model ---- *)
TypeOK == /\ pc \in {"ptc", "price", "pad", "done"}
          /\ Len(ptc) = L
          /\ Len(price) <= L + Cy

\* PTC only during its duration, grows with inflation only if requested
ShapePTC == \A k \in 0..(L - 1) :
              ptc[k + 1] = IF pc = "ptc" /\ k >= i THEN "0" ELSE PTCOf(k, dur, P, adj, infl)

\* price = base + ptc, base starts at start, rises linearly from s, never exceeds end
ShapePrice == pc = "price" => \A k \in 0..(Len(price) - 1) :
                price[k + 1] = PriceOf(k, start, end, s, r, dur, P, adj, infl)

CappedAtEnd == pc = "price" => \A k \in 0..(Len(price) - 1) : RLeq(RSub(price[k + 1], ptc[k + 1]), end)

StartsAtStart == (pc = "price" /\ Len(price) >= 1 /\ RLeq(start, end)) => REq(RSub(price[1], ptc[1]), start)

NonDecreasingBase == pc = "price" => \A k \in 1..(Len(price) - 1) :
                       RLeq(RSub(price[k], ptc[k]), RSub(price[k + 1], ptc[k + 1]))

\* construction years are zero, the rest is the closed form, one entry per year
ShapePadded == pc = "done" => /\ Len(price) = L + Cy
                              /\ \A k \in 0..(Cy - 1) : price[k + 1] = "0"
                              /\ \A k \in 0..(L - 1) : price[Cy + k + 1] = PriceOf(k, start, end, s, r, dur, P, adj, infl)
=============================================================================
