SPECIFICATION Spec
CONSTANTS
  MaxL = 2
  MaxCy = 1
  MaxTsy = 1
  Missing = {"surfaceplant.cooling_produced"}
INVARIANT NeverCrashes
CHECK_DEADLOCK FALSE
