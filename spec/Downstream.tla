----------------------------- MODULE Downstream -----------------------------
(***************************************************************************)
(* M1 model of what happens to the plant's annual energy series between    *)
(* the surface plant and the revenue loop of Economics.Calculate (beyond   *)
(* the listed properties):                                                 *)
(*                                                                         *)
(*   AddOns     EconomicsAddOns.Calculate: every year's electricity / heat *)
(*              gains the add-ons' yearly totals, according to end-use     *)
(*   SdacYear   EconomicsS_DAC_GT.Calculate, first loop: carbon captured   *)
(*              in year i, running capture, yearly and running cost        *)
(*   SdacDeduct second loop: the energy the capture consumed leaves the    *)
(*              series that will be sold                                   *)
(*   Revenue    the economics module prices what is left                   *)
(*                                                                         *)
(* One action per loop body of the code, in the code's order (add-ons      *)
(* first, then S-DAC-GT, each at most once).  Integers stand for kWh,      *)
(* tonnes and USD; the real-valued version of every definition is in       *)
(* DownstreamDef.tla and is what TraceDownstream.tla evaluates on real     *)
(* runs.                                                                   *)
(***************************************************************************)
EXTENDS Integers, Sequences, TLC

CONSTANTS MaxL, MaxE, MaxGain, MaxC
EndUses == {"ELECTRICITY", "HEAT", "COGEN"}
TouchesElec(eu) == eu # "HEAT"
TouchesHeat(eu) == eu # "ELECTRICITY"
ElecPerTonne == 2     \* kWh_e per tonne
ThermPerTonne == 1    \* kWh_th per tonne
CostPerTonne == 3     \* USD per tonne

VARIABLES eu, L, addons, sdac, gainE, gainH,   \* configuration
          plantE, plantH,                       \* what the surface plant computed (never changes)
          soldE, soldH,                         \* the series the economics will price
          stage, i, carbon, cumC, cumCost, revenue
vars == <<eu, L, addons, sdac, gainE, gainH, plantE, plantH, soldE, soldH, stage, i, carbon, cumC, cumCost, revenue>>
cfgv == <<eu, L, addons, sdac, gainE, gainH, plantE, plantH>>

Init == /\ eu \in EndUses /\ L \in 1..MaxL /\ addons \in BOOLEAN /\ sdac \in BOOLEAN
        /\ gainE \in 0..MaxGain /\ gainH \in 0..MaxGain
        /\ plantE \in [1..L -> 0..MaxE] /\ plantH \in [1..L -> 0..MaxE]
        /\ soldE = plantE /\ soldH = plantH
        /\ stage = "plant" /\ i = 1 /\ carbon = << >> /\ cumC = << >> /\ cumCost = << >> /\ revenue = << >>

AddOns == /\ stage = "plant"
          /\ IF addons
             THEN /\ soldE' = [y \in 1..L |-> soldE[y] + (IF TouchesElec(eu) THEN gainE ELSE 0)]
                  /\ soldH' = [y \in 1..L |-> soldH[y] + (IF TouchesHeat(eu) THEN gainH ELSE 0)]
             ELSE UNCHANGED <<soldE, soldH>>
          /\ stage' = (IF sdac THEN "capture" ELSE "revenue")
          /\ UNCHANGED <<cfgv, i, carbon, cumC, cumCost, revenue>>

Last(s) == IF Len(s) = 0 THEN 0 ELSE s[Len(s)]
SdacYear == /\ stage = "capture" /\ i <= L
            /\ \E c \in 0..MaxC :            \* share of the year's extracted heat / heat needed per tonne
                 /\ carbon' = Append(carbon, c)
                 /\ cumC' = Append(cumC, Last(cumC) + c)
                 /\ cumCost' = Append(cumCost, Last(cumCost) + c * CostPerTonne)
            /\ i' = i + 1
            /\ UNCHANGED <<cfgv, soldE, soldH, stage, revenue>>
CaptureDone == /\ stage = "capture" /\ i = L + 1
               /\ stage' = "deduct" /\ i' = 1
               /\ UNCHANGED <<cfgv, soldE, soldH, carbon, cumC, cumCost, revenue>>
SdacDeduct == /\ stage = "deduct" /\ i <= L
              /\ soldE' = [soldE EXCEPT ![i] = @ - (IF TouchesElec(eu) THEN carbon[i] * ElecPerTonne ELSE 0)]
              /\ soldH' = [soldH EXCEPT ![i] = @ - (IF TouchesHeat(eu) THEN carbon[i] * ThermPerTonne ELSE 0)]
              /\ i' = i + 1
              /\ UNCHANGED <<cfgv, stage, carbon, cumC, cumCost, revenue>>
DeductDone == /\ stage = "deduct" /\ i = L + 1
              /\ stage' = "revenue" /\ i' = 1
              /\ UNCHANGED <<cfgv, soldE, soldH, carbon, cumC, cumCost, revenue>>
Revenue == /\ stage = "revenue"
           /\ revenue' = [y \in 1..L |-> (IF TouchesElec(eu) THEN soldE[y] ELSE 0) + (IF TouchesHeat(eu) THEN soldH[y] ELSE 0)]
           /\ stage' = "done"
           /\ UNCHANGED <<cfgv, soldE, soldH, i, carbon, cumC, cumCost>>

Next == AddOns \/ SdacYear \/ CaptureDone \/ SdacDeduct \/ DeductDone \/ Revenue
Spec == Init /\ [][Next]_vars /\ WF_vars(Next)

(* ---- properties ---- *)
Gain(e) == IF addons THEN e ELSE 0
Used(y, per) == IF sdac /\ stage \in {"revenue", "done"} THEN carbon[y] * per ELSE 0
\* what is priced is what the plant made, plus the add-ons' gain, minus what the capture consumed - each exactly once
Accounting == stage \in {"revenue", "done"} =>
                \A y \in 1..L : /\ soldE[y] = plantE[y] + (IF TouchesElec(eu) THEN Gain(gainE) - Used(y, ElecPerTonne) ELSE 0)
                                /\ soldH[y] = plantH[y] + (IF TouchesHeat(eu) THEN Gain(gainH) - Used(y, ThermPerTonne) ELSE 0)
\* the series an end-use does not sell is never touched
Untouched == /\ ~TouchesElec(eu) => soldE = plantE
             /\ ~TouchesHeat(eu) => soldH = plantH
\* running capture and running cost are running sums; the running cost per tonne is the constant cost per tonne
RunningSums == \A y \in 1..Len(carbon) :
                 /\ cumC[y] = (IF y = 1 THEN 0 ELSE cumC[y - 1]) + carbon[y]
                 /\ cumCost[y] = cumC[y] * CostPerTonne
Monotone == \A y \in 2..Len(cumC) : cumC[y] >= cumC[y - 1] /\ cumCost[y] >= cumCost[y - 1]
\* the plant's own figures are never rewritten, and the sold series change only in the two actions that may change them
PlantFixed == [][plantE' = plantE /\ plantH' = plantH]_vars
OnlyThere == [][(soldE' # soldE \/ soldH' # soldH) => stage \in {"plant", "deduct"}]_vars
\* capture can consume more than a year produced: the priced energy may be negative (reachable, not forbidden)
NeverNegative == \A y \in 1..L : soldE[y] >= 0 /\ soldH[y] >= 0
Ends == <>(stage = "done")
=============================================================================
