----------------------------- MODULE TraceSchema -----------------------------
(***************************************************************************)
(* C19: the generated schema against the parameter universe.               *)
(*  reachable   module classes occurring in reachable states of            *)
(*              Pipeline.tla (computed by TLC, confirmed on the real code) *)
(*  accepts     class |-> parameter names of its live ParameterDict        *)
(*  schema      names in the generated request schema                      *)
(*  attrs       for every name defined identically in all accepting        *)
(*              classes: what the schema says and what the reader enforces *)
(*  committed   generated text = committed file, per schema file           *)
(*  result      for every result-schema field: can the client extract it   *)
(* One TLC step per clause family.                                         *)
(***************************************************************************)
EXTENDS Integers, Sequences, FiniteSets, Rat, Verdict, TLC, Json, IOUtils
Traces == JsonDeserialize(IOEnv.TRACE_FILE)
VARIABLES tid, k, v
vars == <<tid, k, v>>
T == Traces[tid]
SetOf(s) == {s[j] : j \in 1..Len(s)}
Init == tid = 1 /\ k = 1 /\ v = V0

Accepted == UNION {SetOf(T.accepts[c]) : c \in SetOf(T.reachable) \cap DOMAIN T.accepts}
Schema == SetOf(T.schema)

SameNum(a, b) == (a = b) \/ (RDef(a) /\ RDef(b) /\ RClose(a, b, RAbs(b), "1e-12"))
AttrOK(a) == /\ a.schema.type = a.live.type /\ a.schema.units = a.live.units
             /\ SameNum(a.schema.default, a.live.default) /\ SameNum(a.schema.min, a.live.min) /\ SameNum(a.schema.max, a.live.max)

Family ==
  /\ tid <= Len(Traces) /\ k <= 5
  /\ LET c == CASE k = 1 -> Clause("C19_names_missing", TRUE, Accepted \ Schema = {}, [missing |-> Accepted \ Schema, count |-> Cardinality(Accepted \ Schema)])
                [] k = 2 -> Clause("C19_names_extra", TRUE, Schema \ Accepted = {}, [extra |-> Schema \ Accepted])
                [] k = 3 -> LET bad == {j \in 1..Len(T.attrs) : ~AttrOK(T.attrs[j])}
                            IN Clause("C19_attrs", Len(T.attrs) > 0, bad = {}, [parameters |-> {T.attrs[j].name : j \in bad}])
                [] k = 4 -> LET bad == {j \in 1..Len(T.committed) : ~T.committed[j].equal}
                            IN Clause("C19_committed", Len(T.committed) > 0, bad = {}, [files |-> {T.committed[j].file : j \in bad}])
                [] k = 5 -> LET bad == {j \in 1..Len(T.result) : ~T.result[j].extractable}
                            IN Clause("C19_result", Len(T.result) > 0, bad = {}, [fields |-> {T.result[j].field : j \in bad}])
     IN v' = VJoin(v, c)
  /\ k' = k + 1 /\ UNCHANGED tid
Finish == /\ tid <= Len(Traces) /\ k = 6
          /\ PrintT(ToJson([tid |-> T.tid, e |-> v.e, f |-> v.f, s |-> v.s, w |-> v.w]))
          /\ tid' = tid + 1 /\ k' = 1 /\ v' = V0
Next == Family \/ Finish
Spec == Init /\ [][Next]_vars
=============================================================================
