SPECIFICATION Spec
CONSTANTS
  Step = 100
  Dump = TRUE
INVARIANT SlopeNonNegativeInWindow
INVARIANT NonDecreasingInWindow
INVARIANT NonDecreasingBelowWindow
CHECK_DEADLOCK FALSE
