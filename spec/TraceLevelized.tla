--------------------------- MODULE TraceLevelized ---------------------------
(***************************************************************************)
(* Trace validation for C01: each recorded run carries the economic model, *)
(* the end-use branch, the run's own reported costs / rates / yearly       *)
(* series (record q of LevelizedDef) and the reported LCOE, LCOH, LCOC.    *)
(* One TLC step per levelized figure; exact rational evaluation.           *)
(***************************************************************************)
EXTENDS LevelizedDef, Verdict, IOUtils

Traces == JsonDeserialize(IOEnv.TRACE_FILE)
Tol == "1e-9"

VARIABLES tid, k, v
vars == <<tid, k, v>>
T == Traces[tid]
Names == <<"lcoe", "lcoh", "lcoc">>

Init == tid = 1 /\ k = 1 /\ v = V0

Figure ==
  /\ tid <= Len(Traces) /\ k <= 3
  /\ LET o    == Names[k]
         want == LC(T.q, T.m, T.b)[o]
         got  == T.out[o]
     IN v' = VJoin(v, Clause("C01_" \o o, RDef(want) /\ RDef(got), RClose(got, want, RAbs(want), Tol),
                             [model |-> T.m, branch |-> T.b, observed |-> RDec(got, 15), expected |-> RDec(want, 15)]))
  /\ k' = k + 1 /\ UNCHANGED tid

Finish == /\ tid <= Len(Traces) /\ k = 4
          /\ PrintT(ToJson([tid |-> T.tid, e |-> v.e, f |-> v.f, s |-> v.s, w |-> v.w]))
          /\ tid' = tid + 1 /\ k' = 1 /\ v' = V0

Next == Figure \/ Finish
Spec == Init /\ [][Next]_vars
=============================================================================
