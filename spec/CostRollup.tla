------------------------------ MODULE CostRollup ------------------------------
(***************************************************************************)
(* M1 for C03: the cost assembly of Economics.Calculate as a sequence of   *)
(* actions in code order, over every combination of override flags, plant  *)
(* class and incentive switches with small amounts.  "Correlated" values   *)
(* are free small constants (the correlations themselves contain logs and  *)
(* fractional powers and are not modelled); what is checked is that the    *)
(* machine's totals equal the closed forms of CostRollupDef for every flag *)
(* set, that a user-fixed figure is used exactly, and that the chiller     *)
(* cost enters CAPEX once and O&M once.                                    *)
(***************************************************************************)
EXTENDS CostRollupDef, TLC, Json, FiniteSets

CONSTANTS Flags,      \* names of the override switches explored
          Corr,       \* values a correlation may produce
          Fixed,      \* value a user supplies
          Amounts,    \* ITC rate / grant / fee amounts
          Dump

PlantClasses == {"power", "heat", "chiller", "heatpump", "dh"}

VARIABLES pc, on, plant, c, amt
vars == <<pc, on, plant, c, amt>>

Has(f) == f \in on

Blank == [wellfixed |-> FALSE, injgiven |-> FALSE, stimfixed |-> FALSE, gathfixed |-> FALSE, plantfixed |-> FALSE,
          explfixed |-> FALSE, totalcap |-> FALSE, oamwellfixed |-> FALSE, oamplantfixed |-> FALSE, oamwaterfixed |-> FALSE,
          totaloam |-> FALSE, itcgiven |-> FALSE, chiller |-> FALSE,
          in_well |-> "-1", in_inj |-> "-1", in_stim |-> "-1", in_gath |-> "-1", in_plant |-> "-1", in_expl |-> "-1",
          in_totalcap |-> "-1", in_oamwell |-> "-1", in_oamplant |-> "-1", in_oamwater |-> "-1", in_totaloam |-> "-1",
          ritc |-> "0", flat |-> "0", inc |-> "0", grant |-> "0", annualfee |-> "0", relief |-> "0",
          c1prod |-> "0", c1inj |-> "0", nprod |-> 2, ninj |-> 1, lateral |-> "0", cwell |-> "0", cstim |-> "0", cgath |-> "0",
          cplant |-> "0", cexpl |-> "0", cpiping |-> "0", cdh |-> "0", ccap |-> "0", ritcvalue |-> "0", coamwell |-> "0",
          coamplant |-> "0", coamwater |-> "0", chilleropex |-> "0", cdhoam |-> "0", coam |-> "0", redrill |-> 0, L |-> 2, k |-> "1"]

Init == /\ pc = "read"
        /\ on \in SUBSET Flags
        /\ plant \in PlantClasses
        /\ amt \in Amounts
        /\ c = Blank

\* read_parameters: a supplied figure becomes Valid and carries the user's value
Read == /\ pc = "read"
        /\ \E k \in Corr, rd \in {0, 2} :
             c' = [c EXCEPT !.wellfixed = Has("well"), !.in_well = IF Has("well") THEN Fixed ELSE "-1",
                            !.injgiven = Has("inj"), !.in_inj = IF Has("inj") THEN RAdd(Fixed, 1) ELSE "-1",
                            !.stimfixed = Has("stim"), !.in_stim = IF Has("stim") THEN Fixed ELSE "-1",
                            !.gathfixed = Has("gath"), !.in_gath = IF Has("gath") THEN Fixed ELSE "-1",
                            !.plantfixed = Has("plant"), !.in_plant = IF Has("plant") THEN Fixed ELSE "-1",
                            !.explfixed = Has("expl"), !.in_expl = IF Has("expl") THEN Fixed ELSE "-1",
                            !.totalcap = Has("totalcap"), !.in_totalcap = IF Has("totalcap") THEN RMul(Fixed, 10) ELSE "-1",
                            !.oamwellfixed = Has("oamwell"), !.in_oamwell = IF Has("oamwell") THEN Fixed ELSE "-1",
                            !.oamplantfixed = Has("oamplant"), !.in_oamplant = IF Has("oamplant") THEN Fixed ELSE "-1",
                            !.oamwaterfixed = Has("oamwater"), !.in_oamwater = IF Has("oamwater") THEN Fixed ELSE "-1",
                            !.totaloam = Has("totaloam"), !.in_totaloam = IF Has("totaloam") THEN RMul(Fixed, 2) ELSE "-1",
                            !.itcgiven = Has("itc"), !.ritc = IF Has("itc") THEN "1/4" ELSE "0",
                            !.grant = IF Has("grant") THEN amt ELSE "0", !.inc = IF Has("grant") THEN "1" ELSE "0",
                            !.flat = IF Has("fee") THEN amt ELSE "0", !.annualfee = IF Has("fee") THEN "1/2" ELSE "0",
                            !.relief = IF Has("fee") THEN "1/4" ELSE "0",
                            !.chiller = (plant = "chiller"), !.lateral = k, !.redrill = rd, !.k = k]
        /\ pc' = "wells" /\ UNCHANGED <<on, plant, amt>>

WellFieldStep ==
  /\ pc = "wells"
  /\ LET k == c.k IN
       LET p1 == IF c.wellfixed THEN c.in_well ELSE k
           i1 == IF c.wellfixed THEN (IF c.injgiven THEN c.in_inj ELSE c.in_well) ELSE RAdd(k, 1)
           s  == RAdd(RMul(p1, c.nprod), RMul(i1, c.ninj))
       IN c' = [c EXCEPT !.c1prod = RNorm(p1), !.c1inj = RNorm(i1),
                         !.cwell = IF c.wellfixed THEN s ELSE RMul(Indirect, RAdd(s, c.lateral))]
  /\ pc' = "stim" /\ UNCHANGED <<on, plant, amt>>

Stimulation == /\ pc = "stim"
               /\ c' = [c EXCEPT !.cstim = IF c.stimfixed THEN RNorm(c.in_stim) ELSE RAdd(c.k, 2)]
               /\ pc' = "gath" /\ UNCHANGED <<on, plant, amt>>

Gathering == /\ pc = "gath"
             /\ c' = [c EXCEPT !.cgath = IF c.gathfixed THEN RNorm(c.in_gath) ELSE RAdd(c.k, 3)]
             /\ pc' = "plant" /\ UNCHANGED <<on, plant, amt>>

\* chiller / heat pump / peaking boiler equipment is added to the correlated plant cost only
Plant == /\ pc = "plant"
         /\ LET k == RAdd(c.k, 4)  eq == RAdd(c.k, 5) IN
              c' = [c EXCEPT !.cplant = IF c.plantfixed THEN RNorm(c.in_plant)
                                        ELSE IF plant \in {"chiller", "heatpump", "dh"} THEN RAdd(k, eq) ELSE k,
                             !.chilleropex = IF plant = "chiller" THEN eq ELSE "0"]
         /\ pc' = "capex" /\ UNCHANGED <<on, plant, amt>>

SumCapex == /\ pc = "capex" /\ ~c.totalcap
            /\ LET k == RAdd(c.k, 6) IN
                 LET ex == IF c.explfixed THEN RNorm(c.in_expl) ELSE k
                     dh == IF plant = "dh" THEN k ELSE "0"
                 IN c' = [c EXCEPT !.cexpl = ex, !.cpiping = "0", !.cdh = dh,
                                   !.ccap = RSum(<<ex, c.cwell, c.cstim, c.cgath, c.cplant, "0", dh>>)]
            /\ pc' = "itc" /\ UNCHANGED <<on, plant, amt>>
TotalCapexOverride == /\ pc = "capex" /\ c.totalcap
                      /\ c' = [c EXCEPT !.ccap = RNorm(c.in_totalcap)]
                      /\ pc' = "itc" /\ UNCHANGED <<on, plant, amt>>

ApplyITC == /\ pc = "itc"
            /\ c' = IF c.itcgiven THEN [c EXCEPT !.ritcvalue = RMul(c.ritc, c.ccap), !.ccap = RSub(c.ccap, RMul(c.ritc, c.ccap))]
                    ELSE c
            /\ pc' = "fees" /\ UNCHANGED <<on, plant, amt>>
ApplyFeesAndGrants == /\ pc = "fees"
                      /\ c' = [c EXCEPT !.ccap = RSub(RSub(RAdd(c.ccap, c.flat), c.inc), c.grant)]
                      /\ pc' = "oam" /\ UNCHANGED <<on, plant, amt>>

SumOam == /\ pc = "oam" /\ ~c.totaloam
          /\ LET k == RAdd(c.k, 7) IN
               LET w  == IF c.oamwellfixed THEN RNorm(c.in_oamwell) ELSE k
                   p  == IF c.oamplantfixed THEN RNorm(c.in_oamplant) ELSE k
                   wa == IF c.oamwaterfixed THEN RNorm(c.in_oamwater) ELSE k
                   dh == IF plant = "dh" THEN k ELSE "0"
               IN c' = [c EXCEPT !.coamwell = w, !.coamplant = p, !.coamwater = wa, !.cdhoam = dh,
                                 !.coam = RSum(<<w, p, wa, c.chilleropex, dh>>)]
          /\ pc' = "redrill" /\ UNCHANGED <<on, plant, amt>>
TotalOamOverride == /\ pc = "oam" /\ c.totaloam
                    /\ c' = [c EXCEPT !.coam = RNorm(c.in_totaloam)]
                    /\ pc' = "redrill" /\ UNCHANGED <<on, plant, amt>>

RedrillStep == /\ pc = "redrill"
               /\ c' = IF c.redrill > 0 THEN [c EXCEPT !.coam = RAdd(c.coam, RDiv(RMul(RAdd(c.cwell, c.cstim), c.redrill), c.L))] ELSE c
               /\ pc' = "annual" /\ UNCHANGED <<on, plant, amt>>
AnnualFees == /\ pc = "annual"
              /\ c' = [c EXCEPT !.coam = RSub(RAdd(c.coam, c.annualfee), c.relief)]
              /\ pc' = "done" /\ UNCHANGED <<on, plant, amt>>
Report == /\ pc = "done" /\ pc' = "reported"
          /\ (Dump => PrintT(ToJson([flags |-> on, plant |-> plant])))
          /\ UNCHANGED <<on, plant, c, amt>>

Next == Read \/ WellFieldStep \/ Stimulation \/ Gathering \/ Plant \/ SumCapex \/ TotalCapexOverride \/ ApplyITC
        \/ ApplyFeesAndGrants \/ SumOam \/ TotalOamOverride \/ RedrillStep \/ AnnualFees \/ Report
Spec == Init /\ [][Next]_vars

Done == pc = "done"
CapexIsSumOfParts == Done => REq(c.ccap, Capex(c))
OamIsSumOfParts   == Done => REq(c.coam, Oam(c))
WellFieldIsPerWellTimesCount == Done => REq(c.cwell, WellField(c))
ITCIsRateTimesCost == Done /\ c.itcgiven => REq(c.ritcvalue, RMul(c.ritc, CapexBeforeCredits(c)))
FixedFiguresUsedExactly ==
  Done => /\ (c.stimfixed => REq(c.cstim, c.in_stim)) /\ (c.gathfixed => REq(c.cgath, c.in_gath))
          /\ (c.plantfixed => REq(c.cplant, c.in_plant)) /\ (c.wellfixed => REq(c.c1prod, c.in_well))
          /\ (c.wellfixed /\ c.injgiven => REq(c.c1inj, c.in_inj))
          /\ (c.explfixed /\ ~c.totalcap => REq(c.cexpl, c.in_expl))
          /\ (c.totalcap => REq(CapexBeforeCredits(c), c.in_totalcap))
          /\ (c.totaloam => REq(OamBeforeExtras(c), c.in_totaloam))
          /\ (~c.totaloam => (c.oamwellfixed => REq(c.coamwell, c.in_oamwell)) /\ (c.oamplantfixed => REq(c.coamplant, c.in_oamplant))
                             /\ (c.oamwaterfixed => REq(c.coamwater, c.in_oamwater)))
=============================================================================
