------------------------------ MODULE MonteCarlo ------------------------------
(***************************************************************************)
(* The Monte Carlo driver (properties C13, C14) as a concurrent system:    *)
(* a parent forks pool workers on demand; each worker inherits the         *)
(* parent's numpy RNG state (and, when Reseed, reseeds itself), repeatedly *)
(* takes a task, draws its inputs, simulates (tasks in FailSet raise), and *)
(* appends one row under the file lock.  RNG states are abstract           *)
(* <<stream, position>> pairs: distinct pairs = distinct continuous draws. *)
(* Actions follow MC_GeoPHIRES3.work_package statement by statement:       *)
(*   Fork  TaskStart  Draw  SimulateOk | SimulateFail  Acquire | Timeout   *)
(*   Append  Release                                                       *)
(* Reseed = FALSE is the pinned design, TRUE the repaired one.             *)
(* LockTimeouts = TRUE lets Acquire give up (pylocker timeout): the row is *)
(* then silently dropped -- the design admits row loss under a stale lock. *)
(***************************************************************************)
EXTENDS Integers, Sequences, FiniteSets, TLC

CONSTANTS Workers, NTasks, Reseed, FailSet, LockTimeouts

VARIABLES rng, alive, queue, cur, pc, sample, lock, rows, done, lost
vars == <<rng, alive, queue, cur, pc, sample, lock, rows, done, lost>>

Tasks == 1..NTasks

Init == /\ rng = [w \in Workers \cup {"parent"} |-> <<"parent", 0>>]
        /\ alive = {} /\ queue = Tasks /\ cur = [w \in Workers |-> 0]
        /\ pc = [w \in Workers |-> "unborn"] /\ sample = [t \in Tasks |-> <<"none", 0>>]
        /\ lock = "free" /\ rows = <<>> /\ done = {} /\ lost = {}

Fork(w) == /\ pc[w] = "unborn" /\ queue # {}
           /\ alive' = alive \cup {w}
           /\ rng' = [rng EXCEPT ![w] = IF Reseed THEN <<w, 0>> ELSE rng["parent"]]
           /\ pc' = [pc EXCEPT ![w] = "idle"]
           /\ UNCHANGED <<queue, cur, sample, lock, rows, done, lost>>

TaskStart(w) == /\ pc[w] = "idle" /\ queue # {}
                /\ \E t \in queue : /\ cur' = [cur EXCEPT ![w] = t] /\ queue' = queue \ {t}
                /\ pc' = [pc EXCEPT ![w] = "started"]
                /\ UNCHANGED <<rng, alive, sample, lock, rows, done, lost>>

Draw(w) == /\ pc[w] = "started"
           /\ sample' = [sample EXCEPT ![cur[w]] = rng[w]]
           /\ rng' = [rng EXCEPT ![w] = <<rng[w][1], rng[w][2] + 1>>]
           /\ pc' = [pc EXCEPT ![w] = "drawn"]
           /\ UNCHANGED <<alive, queue, cur, lock, rows, done, lost>>

SimulateOk(w) == /\ pc[w] = "drawn" /\ cur[w] \notin FailSet
                 /\ pc' = [pc EXCEPT ![w] = "simulated"]
                 /\ UNCHANGED <<rng, alive, queue, cur, sample, lock, rows, done, lost>>
SimulateFail(w) == /\ pc[w] = "drawn" /\ cur[w] \in FailSet
                   /\ done' = done \cup {cur[w]} /\ pc' = [pc EXCEPT ![w] = "idle"]
                   /\ UNCHANGED <<rng, alive, queue, cur, sample, lock, rows, lost>>

Acquire(w) == /\ pc[w] = "simulated" /\ lock = "free"
              /\ lock' = w /\ pc' = [pc EXCEPT ![w] = "locked"]
              /\ UNCHANGED <<rng, alive, queue, cur, sample, rows, done, lost>>
Timeout(w) == /\ LockTimeouts /\ pc[w] = "simulated" /\ lock # "free"
              /\ lost' = lost \cup {cur[w]} /\ done' = done \cup {cur[w]} /\ pc' = [pc EXCEPT ![w] = "idle"]
              /\ UNCHANGED <<rng, alive, queue, cur, sample, lock, rows>>
AppendRow(w) == /\ pc[w] = "locked"
             /\ rows' = Append(rows, [task |-> cur[w], sample |-> sample[cur[w]], by |-> w])
             /\ pc' = [pc EXCEPT ![w] = "written"]
             /\ UNCHANGED <<rng, alive, queue, cur, sample, lock, done, lost>>
Release(w) == /\ pc[w] = "written"
              /\ lock' = "free" /\ done' = done \cup {cur[w]} /\ pc' = [pc EXCEPT ![w] = "idle"]
              /\ UNCHANGED <<rng, alive, queue, cur, sample, rows, lost>>

Next == \E w \in Workers : Fork(w) \/ TaskStart(w) \/ Draw(w) \/ SimulateOk(w) \/ SimulateFail(w)
                           \/ Acquire(w) \/ Timeout(w) \/ AppendRow(w) \/ Release(w)
Spec == Init /\ [][Next]_vars /\ WF_vars(Next)

(* ---- C13 ---- *)
Drawn == {t \in Tasks : sample[t][1] # "none"}
C13_distinct == \A a, b \in Drawn : a # b => sample[a] # sample[b]
NoReplica == \A a, b \in alive : a # b /\ pc[a] \in {"started"} /\ pc[b] \in {"started"} => rng[a] # rng[b]
C13_rows == done = Tasks => /\ {rows[k].task : k \in 1..Len(rows)} = Tasks \ FailSet
                            /\ Len(rows) = NTasks - Cardinality(FailSet)
(* ---- C14 ---- *)
MutualExclusion == Cardinality({w \in Workers : pc[w] \in {"locked", "written"}}) <= 1
C14_rows_whole == \A k \in 1..Len(rows) : rows[k].sample = sample[rows[k].task]      \* a row is one task's own data
C14_isolated == \A k \in 1..Len(rows) : rows[k].task \notin FailSet
Terminates == <>(done = Tasks)
=============================================================================
