---------------------------- MODULE LifecycleDef ----------------------------
(* The expected stage sequence of one run (shared by Lifecycle.tla and TraceLifecycle.tla). *)
EXTENDS Naturals, Sequences
Pass == << "reservoir_calculated", "wellbores_calculated", "surfaceplant_calculated" >>
Expected(dh) == << "model_created", "params_read" >> \o Pass \o (IF dh THEN Pass ELSE << >>)
                \o << "economics_calculated", "calculated", "printed", "json_written" >>
IsPrefix(a, b) == Len(a) <= Len(b) /\ \A k \in 1..Len(a) : a[k] = b[k]
=============================================================================
