------------------------------- MODULE Report -------------------------------
(***************************************************************************)
(* C09, M1: the report writer as a state machine over EVERY accepted       *)
(* configuration (end-use x plant type x add-ons / S-DAC-GT / overpressure *)
(* x lifetime x construction years x time steps per year).                 *)
(*                                                                         *)
(* Init picks a configuration; the simulation results are represented by   *)
(* what the selected surface-plant class provides: which series exist and  *)
(* how long they are (L * tsy samples for sub-annual series, L for annual  *)
(* ones, Cy + L for the cash-flow series).  The writer then opens its      *)
(* sections in order and, for each profile table, chooses the table by its *)
(* if/elif ladder (ReportDef!ProdKindOf / AnnualKindOf) and emits one row  *)
(* per loop iteration; each row reads its cells with ReportDef!Cell.       *)
(*                                                                         *)
(* Checked: the writer always terminates with exactly one production, one  *)
(* annual and one revenue profile; each table has one row per simulated    *)
(* (and construction) year with consecutive year numbers; every cell of    *)
(* every row reads a sample that exists (no stride runs off a series, no   *)
(* table is chosen whose columns the selected surface plant does not       *)
(* compute).                                                               *)
(* TraceReport.tla checks the same operators against real reports.         *)
(***************************************************************************)
EXTENDS ReportDef, Integers, FiniteSets, TLC
CONSTANTS MaxL, MaxCy, MaxTsy,
          Missing     \* series withheld from the results (empty in the real model; non-empty only in the self-test cfg)

Configs == {c \in [enduse : {"ELECTRICITY", "HEAT"} \cup Cogen, plant : PowerPlants \cup HeatPlants, L : 1..MaxL, Cy : 1..MaxCy,
                   tsy : 1..MaxTsy, addons : BOOLEAN, sdacgt : BOOLEAN, overpressure : BOOLEAN] :
              /\ Accepted(c)
              /\ c.addons => c.Cy = 1}        \* the add-on writer is only reachable with one construction year

Ones(n) == [j \in 1..n |-> "1"]
Computed(c) ==
  LET names == (SubSeries(c) \cup AnnSeries(c) \cup TotSeries(c)) \ Missing IN
  [cfg |-> c,
   S |-> [s \in names |-> Ones(SeriesLen(c, s))],
   Q |-> [s \in {"reserv.InitialReservoirHeatContent", "economics.Coam"} |-> [v |-> "2"]],
   U |-> [s \in {} |-> [cur |-> ""]]]

Sections == << "SUMMARY OF RESULTS", "ECONOMIC PARAMETERS", "ENGINEERING PARAMETERS", "RESOURCE CHARACTERISTICS", "RESERVOIR PARAMETERS",
               "RESERVOIR SIMULATION RESULTS", "CAPITAL COSTS (M$)", "OPERATING AND MAINTENANCE COSTS (M$/yr)",
               "SURFACE EQUIPMENT SIMULATION RESULTS" >>
\* the tables the writer goes through after the sections, in order ("none" = skipped)
Plan(c) == << ProdKindOf(c), AnnualKindOf(c), "REV", IF c.overpressure THEN "OVER" ELSE "none",
              IF c.addons THEN "EXT" ELSE "none", IF c.sdacgt THEN "SDAC" ELSE "none" >>

VARIABLES cfg, pc, sec, step, i, done, rows, crashed
vars == <<cfg, pc, sec, step, i, done, rows, crashed>>
\* pc: "sections" | "table" | "end";  step: position in Plan; i: loop counter of the open table
\* done: kinds of the tables written so far (in order); rows: year labels of the table being written

Init == /\ cfg \in Configs
        /\ pc = "sections" /\ sec = 0 /\ step = 1 /\ i = 0 /\ done = <<>> /\ rows = <<>> /\ crashed = FALSE

WriteSection == /\ pc = "sections" /\ sec < Len(Sections)
                /\ sec' = sec + 1
                /\ UNCHANGED <<cfg, pc, step, i, done, rows, crashed>>
StartTables == /\ pc = "sections" /\ sec = Len(Sections)
               /\ pc' = "table"
               /\ UNCHANGED <<cfg, sec, step, i, done, rows, crashed>>

Kind0 == Plan(cfg)[step]
SkipTable == /\ pc = "table" /\ step <= Len(Plan(cfg)) /\ Kind0 = "none"
             /\ step' = step + 1
             /\ UNCHANGED <<cfg, pc, sec, i, done, rows, crashed>>
\* one loop iteration: the row for loop index i reads every cell; a cell that reads past its series is an IndexError
RowReadable(k, r) == \A c \in 1..Columns(k) : LET q == Cell(Computed(cfg), k, c, r) IN IsField(q) /\ RDef(q.x)
WriteRow == /\ pc = "table" /\ step <= Len(Plan(cfg)) /\ Kind0 # "none" /\ i < Rows(Kind0, cfg) /\ ~crashed
            /\ IF RowReadable(Kind0, i)
               THEN rows' = Append(rows, YearStart(Kind0) + i) /\ i' = i + 1 /\ UNCHANGED crashed
               ELSE crashed' = TRUE /\ UNCHANGED <<rows, i>>
            /\ UNCHANGED <<cfg, pc, sec, step, done>>
CloseTable == /\ pc = "table" /\ step <= Len(Plan(cfg)) /\ Kind0 # "none" /\ i = Rows(Kind0, cfg) /\ ~crashed
              /\ done' = Append(done, [kind |-> Kind0, years |-> rows])
              /\ step' = step + 1 /\ i' = 0 /\ rows' = <<>>
              /\ UNCHANGED <<cfg, pc, sec, crashed>>
Finish == /\ pc = "table" /\ step = Len(Plan(cfg)) + 1
          /\ pc' = "end"
          /\ UNCHANGED <<cfg, sec, step, i, done, rows, crashed>>
Next == WriteSection \/ StartTables \/ SkipTable \/ WriteRow \/ CloseTable \/ Finish
Spec == Init /\ [][Next]_vars /\ WF_vars(Next)

(***************************************************************************)
(* properties                                                              *)
(***************************************************************************)
TypeOK == /\ pc \in {"sections", "table", "end"} /\ sec \in 0..Len(Sections) /\ step \in 1..(Len(Plan(cfg)) + 1)
          /\ i \in 0..(MaxL + MaxCy) /\ crashed \in BOOLEAN
NeverCrashes == ~crashed
Consecutive(s) == \A r \in 1..Len(s) : s[r] = s[1] + r - 1
KindsDone == {done[t].kind : t \in 1..Len(done)}
OneRowPerYear == \A t \in 1..Len(done) : /\ Len(done[t].years) = Rows(done[t].kind, cfg)
                                         /\ Consecutive(done[t].years)
                                         /\ done[t].years[1] = YearStart(done[t].kind)
\* the partial table too: rows so far are the first i years
PrefixOK == Len(rows) = i /\ Consecutive(rows)
ProfilesPresent == pc = "end" =>
  /\ Cardinality({t \in 1..Len(done) : IsProd(done[t].kind)}) = 1
  /\ Cardinality({t \in 1..Len(done) : IsAnnual(done[t].kind)}) = 1
  /\ Cardinality({t \in 1..Len(done) : done[t].kind = "REV"}) = 1
  /\ (cfg.overpressure <=> "OVER" \in KindsDone) /\ (cfg.addons <=> "EXT" \in KindsDone) /\ (cfg.sdacgt <=> "SDAC" \in KindsDone)
\* the header the chosen table announces identifies it (Kind is the inverse of the choice)
LadderTotal == ProdKindOf(cfg) # "none" /\ AnnualKindOf(cfg) # "none"
Terminates == <>(pc = "end")
=============================================================================
