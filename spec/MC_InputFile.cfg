SPECIFICATION Spec
CONSTANTS
  MaxLines = 3
  Names = {"A", "B b"}
  Values = {"1", "2 m"}
  Pads <- PadSet
  Trails = {"", ", note", ", a, b,c", ",--- [km]"}
  Eols <- EolSet
  Decorations = {"", "   ", "# A, 9", "-- A, 9", "* A, 9", "   # B b, 9", "no comma here"}
  Dump = FALSE
INVARIANT LayoutIrrelevant
INVARIANT LoadAgrees
VIEW View
CHECK_DEADLOCK FALSE
