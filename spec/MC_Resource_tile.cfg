SPECIFICATION Spec
CONSTANTS
  MaxSeg = 1
  Grads = {"2"}
  Thicks = {"1"}
  Depths = {"2"}
  Tmaxs = {"60"}
  Profiles <- ProfilesQuick
  Limits = {"0", "1/4", "1/2", "1"}
  Dump = FALSE
INVARIANT C05_bht
INVARIANT C05_tmax
INVARIANT C05_cap
INVARIANT MonotoneInDepth
INVARIANT MonotoneInGradient
INVARIANT C05_limit
INVARIANT C05_restart
INVARIANT C05_noredrill
CHECK_DEADLOCK FALSE
