------------------------------ MODULE EnergyDef ------------------------------
(***************************************************************************)
(* Energy balances (property C02): definitions shared by Energy.tla (M1)   *)
(* and TraceEnergy.tla (M3).  Time steps are 0-based in the code; a series *)
(* s of L*n samples has sample t at s[t + 1].                              *)
(***************************************************************************)
EXTENDS Integers, Sequences, Rat

Min(a, b) == IF a <= b THEN a ELSE b
HoursPerYear == 8760

(* samples of year y (0-based) as the code slices them: series[y*n : (y+1)*n + 1] *)
SliceLo(y, n) == y * n + 1
SliceHi(s, y, n) == Min((y + 1) * n + 1, Len(s))
Slice(s, y, n) == SubSeq(s, SliceLo(y, n), SliceHi(s, y, n))
FullSlice(s, y, n) == SliceHi(s, y, n) - SliceLo(y, n) = n      \* n + 1 samples = a whole year of n intervals

(* single-sample rule (SurfacePlant.integrate_time_series_slice): extrapolate with the previous step's delta when *)
(* the slice starts at index >= 2, otherwise hold the value                                                       *)
Completed(s, y, n) ==
  LET sl == Slice(s, y, n) IN
  IF Len(sl) = 1
  THEN LET start0 == y * n
           ext == IF start0 - 1 > 0 THEN RAdd(sl[1], RSub(s[start0 + 1], s[start0])) ELSE sl[1]
       IN <<sl[1], ext>>
  ELSE sl

Trapz(sl, dx) == RMul(dx, RSub(RSum(sl), RDiv(RAdd(sl[1], sl[Len(sl)]), 2)))

(* annual figure [kWh] from a power series [MW]: trapezoid over the year's samples, stretched to 8760 h, x util *)
Annual(s, y, n, util) ==
  LET sl == Completed(s, y, n)
  IN RMul3(Trapz(sl, RDiv(HoursPerYear, Len(sl) - 1)), 1000, util)

(* remaining heat content [1e15 J] after year y: initial - cumulative extracted [kWh] * 3.6e6 J/kWh / 1e15 *)
Remaining(initial, extractedkWh, y) ==
  RSub(initial, RDiv(RMul(RSum(SubSeq(extractedkWh, 1, y + 1)), 3600000), "1000000000000000"))

(* heat extracted from the geofluid [MWth] *)
Extracted(nprod, flow, cp, tprod, tinj) == RDiv(RMul(RMul3(nprod, flow, cp), RSub(tprod, tinj)), 1000000)
=============================================================================
