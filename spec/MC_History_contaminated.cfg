SPECIFICATION Spec
CONSTANTS
  Inputs = {"a", "b", "c"}
  MaxRuns = 5
  Pure = FALSE
INVARIANT SameInputSameResult
CHECK_DEADLOCK FALSE
