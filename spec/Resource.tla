------------------------------- MODULE Resource -------------------------------
(***************************************************************************)
(* M1 for C05 (and the monotonicity lemmas of C18):                        *)
(* (a) the layer walk of Reservoir.Calculate as a loop machine --          *)
(*     IntersectLayer(i) fills the boundary temperatures (unused entries   *)
(*     keep the code's sentinel 1000), FindLayer locates the first         *)
(*     boundary hotter than Tmax, CapDepth computes maxdepth and clamps,   *)
(*     PickSegment/BottomHole evaluate Trock -- against the definition;    *)
(* (b) redrilling by tiling the first cycle (WellBores.Calculate).         *)
(***************************************************************************)
EXTENDS ResourceDef, TLC, Json

CONSTANTS MaxSeg, Grads, Thicks, Depths, Tmaxs, Profiles, Limits, Dump
\* non-increasing produced-temperature profiles (the analytical models decline)
ProfileOne == {<<"8", "7", "6", "5", "4", "3">>}
ProfilesQuick == {<<"8", "8", "6", "4">>, <<"8", "7", "6", "5", "4", "3">>, <<"8", "8", "8">>, <<"8", "4", "2", "1", "1">>, <<"8", "6", "6", "6", "2", "2">>}
Ts == "10"
Sentinel == "1000"

VARIABLES pc, n, g, th, depth, tmax, i, isect, layer, maxdepth, trock,     \* (a)
          prof, lim, idx, redrill, tiled                                   \* (b)
vars == <<pc, n, g, th, depth, tmax, i, isect, layer, maxdepth, trock, prof, lim, idx, redrill, tiled>>
walk == <<n, g, th, depth, tmax>>
tile == <<prof, lim, idx, redrill, tiled>>

Init == /\ pc = "intersect" /\ i = 1
        /\ n \in 1..MaxSeg /\ g \in [1..MaxSeg -> Grads] /\ th \in [1..MaxSeg -> Thicks]
        /\ depth \in Depths /\ tmax \in Tmaxs
        /\ isect = [k \in 1..4 |-> Sentinel] /\ layer = 0 /\ maxdepth = "0" /\ trock = "0"
        /\ prof \in Profiles /\ lim \in Limits /\ idx = 0 /\ redrill = 0 /\ tiled = <<>>

\* intersecttemperature[0] = Tsurf + g0*th0; [i] = [i-1] + g_i*th_i for i in 1..numseg-2
IntersectLayer == /\ pc = "intersect" /\ n > 1 /\ i <= n - 1
                  /\ isect' = [isect EXCEPT ![i] = RAdd(IF i = 1 THEN Ts ELSE isect[i - 1], RMul(g[i], th[i]))]
                  /\ i' = i + 1 /\ UNCHANGED <<pc, walk, layer, maxdepth, trock, tile>>
FindLayer == /\ pc = "intersect" /\ (n = 1 \/ i = n)
             /\ layer' = IF n = 1 THEN 0 ELSE (CHOOSE k \in 1..4 : RGt(isect[k], tmax) /\ \A j \in 1..(k - 1) : ~RGt(isect[j], tmax)) - 1
             /\ pc' = "cap" /\ UNCHANGED <<walk, i, isect, maxdepth, trock, tile>>
CapDepth == /\ pc = "cap"
            /\ LET md == IF n = 1 \/ layer = 0 THEN RDiv(RSub(tmax, Ts), g[1])
                         ELSE RAdd(RSum(SubSeq(th, 1, layer)), RDiv(RSub(tmax, isect[layer]), g[layer + 1]))
               IN /\ maxdepth' = md
                  /\ depth' = IF RGt(depth, md) THEN md ELSE RNorm(depth)
            /\ pc' = "bht" /\ UNCHANGED <<n, g, th, tmax, i, isect, layer, trock, tile>>
\* segment holding the (clamped) depth: the last k whose top lies above it; the final segment is unbounded
BottomHole == /\ pc = "bht"
              /\ LET tops == [k \in 1..n |-> Top(th, k)]
                     seg  == CHOOSE k \in 1..n : RGt(depth, tops[k]) /\ \A j \in (k + 1)..n : ~RGt(depth, IF j = n /\ FALSE THEN "0" ELSE tops[j])
                     t0   == IF seg = 1 THEN Ts ELSE isect[seg - 1]
                 IN trock' = RAdd(t0, RMul(g[seg], RSub(depth, tops[seg])))
              /\ pc' = "tile" /\ UNCHANGED <<walk, i, isect, layer, maxdepth, tile>>

\* redrilling: first step below (1 - lim) x initial; redrill = floor(N / idx); tile the first cycle
FindDrawdown == /\ pc = "tile"
                /\ LET below == {k \in 1..Len(prof) : RLt(prof[k], RMul(RSub(1, lim), prof[1]))}
                       first == IF below = {} THEN 0 ELSE (CHOOSE k \in below : \A j \in below : k <= j) - 1
                   IN /\ idx' = first
                      /\ IF first > 0
                         THEN /\ redrill' = Len(prof) \div first
                              /\ tiled' = [k \in 1..Len(prof) |-> prof[((k - 1) % first) + 1]]
                         ELSE redrill' = 0 /\ tiled' = prof
                /\ pc' = "done"
                /\ (Dump => PrintT(ToJson([n |-> n, g |-> SubSeq(g, 1, n), th |-> SubSeq(th, 1, n), depth0 |-> depth, tmax |-> tmax, ts |-> Ts,
                                           trock |-> trock, depth |-> depth])))
                /\ UNCHANGED <<walk, i, isect, layer, maxdepth, trock, prof, lim>>
Next == IntersectLayer \/ FindLayer \/ CapDepth \/ BottomHole \/ FindDrawdown
Spec == Init /\ [][Next]_vars

Done == pc = "done"
GG == SubSeq(g, 1, n)
TT == SubSeq(th, 1, n)
\* the machine's result is the definition
C05_bht  == pc \in {"tile", "done"} => REq(trock, TempAt(Ts, GG, TT, n, depth))
C05_tmax == pc \in {"tile", "done"} => RLeq(trock, tmax)
C05_cap  == pc \in {"bht", "tile", "done"} => REq(maxdepth, ZMax(Ts, GG, TT, n, tmax))
\* lemmas for C18: bottom-hole temperature is monotone in depth and in every gradient
MonotoneInDepth == Done => RLeq(trock, BHT(Ts, GG, TT, n, tmax, RAdd(depth, 1)))
MonotoneInGradient == Done => \A k \in 1..n : RLeq(BHT(Ts, GG, TT, n, tmax, depth), BHT(Ts, [GG EXCEPT ![k] = RAdd(@, 1)], TT, n, tmax, depth))
\* redrilling
C05_limit   == Done => \A k \in 1..Len(tiled) : RLeq(RMul(RSub(1, lim), tiled[1]), tiled[k])
C05_restart == Done /\ redrill > 0 => /\ redrill = Len(prof) \div idx
                                      /\ \A k \in 1..Len(tiled) : tiled[k] = prof[((k - 1) % idx) + 1]
C05_noredrill == Done /\ redrill = 0 => tiled = prof
=============================================================================
