--------------------------- MODULE TraceHydraulics ---------------------------
(***************************************************************************)
(* Trace validation for C15: the well-bore snapshot of a real run.         *)
(*  n, L, pump, pumpprod, pumpinj (series; <<>> when not modelled),        *)
(*  pumped (production pumps modelled), index (index model used),          *)
(*  over (overpressure given), p0, ov, rate, pres (production reservoir    *)
(*  pressure series), split (injection reservoir modelled), q0, infl, qres *)
(*  ladder: <<[d, dp]>> frictional pressure drop for increasing diameters  *)
(* One TLC step per time step, then the run-level clauses.                 *)
(***************************************************************************)
EXTENDS HydraulicsDef, Verdict, TLC, Json, IOUtils

Traces == JsonDeserialize(IOEnv.TRACE_FILE)
Tol == "1e-9"
VARIABLES tid, t, v
vars == <<tid, t, v>>
T == Traces[tid]
NT == Len(T.pump)
At(s, k) == s[k + 1]

Init == tid = 1 /\ t = 0 /\ v = V0

StepClauses(k) ==
  LET w == [step |-> k]
      D1 == DepletionSteps(T.rate, T.n)
      D2 == RFloor(RAdd(RMul(RDiv(100, T.rate), T.n), "1e-9"))       \* the code floors a double: accept the neighbouring whole number
      want(D) == Production(T.p0, T.ov, D, k)
      sc == RMul(RAbs(T.p0), RAdd(1, RDiv(RAbs(T.ov), 100)))
  IN VAll(<<
       Clause("C15_nonneg", RDef(At(T.pump, k)), RLeq(0, At(T.pump, k)), w @@ [pumping_power |-> RDec(At(T.pump, k), 12)]),
       IF Len(T.pumpprod) = NT THEN Clause("C15_prod_nonneg", RDef(At(T.pumpprod, k)), RLeq(0, At(T.pumpprod, k)), w) ELSE V0,
       IF Len(T.pumpinj) = NT THEN Clause("C15_inj_nonneg", RDef(At(T.pumpinj, k)), RLeq(0, At(T.pumpinj, k)), w) ELSE V0,
       IF T.index /\ Len(T.pumpprod) = NT /\ Len(T.pumpinj) = NT
       THEN LET sum == IF T.pumped THEN RAdd(At(T.pumpinj, k), At(T.pumpprod, k)) ELSE At(T.pumpinj, k)
            IN Clause("C15_sum", RDef(sum) /\ RDef(At(T.pump, k)), RClose(At(T.pump, k), RMax(sum, 0), RAdd(RAbs(At(T.pumpinj, k)), RAbs(At(T.pumpprod, k))), Tol),
                      w @@ [total |-> RDec(At(T.pump, k), 12), parts |-> RDec(sum, 12)])
       ELSE V0,
       IF T.over /\ Len(T.pres) = NT
       THEN VAll(<<
              Clause("C15_floor", TRUE, RLeq(RSub(T.p0, RMul(Tol, sc)), At(T.pres, k)), w @@ [pressure |-> RDec(At(T.pres, k), 12), hydrostatic |-> RDec(T.p0, 12)]),
              IF k > 0 THEN Clause("C15_monotone", TRUE, RLeq(At(T.pres, k), RAdd(At(T.pres, k - 1), RMul(Tol, sc))), w) ELSE V0,
              IF k = 0 THEN Clause("C15_start", TRUE, RClose(At(T.pres, 0), Start(T.p0, T.ov), sc, Tol), w) ELSE V0,
              Clause("C15_rate", RGt(T.rate, 0), RClose(At(T.pres, k), want(D1), sc, Tol) \/ RClose(At(T.pres, k), want(D2), sc, Tol),
                     w @@ [observed |-> RDec(At(T.pres, k), 12), expected |-> RDec(want(D1), 12)]) >>)
       ELSE V0,
       IF T.split /\ Len(T.qres) = NT
       THEN Clause("C15_inj_rate", TRUE, RClose(At(T.qres, k), Injection(T.q0, T.infl, T.n, k), RAdd(RAbs(T.q0), RAbs(RMul(T.infl, T.L))), Tol),
                   w @@ [observed |-> RDec(At(T.qres, k), 12), expected |-> RDec(Injection(T.q0, T.infl, T.n, k), 12)])
       ELSE V0 >>)

Step == /\ tid <= Len(Traces) /\ t < NT
        /\ v' = VJoin(v, StepClauses(t)) /\ t' = t + 1 /\ UNCHANGED tid

Finish ==
  /\ tid <= Len(Traces) /\ t = NT
  /\ LET lad == T.ladder
         fr  == IF Len(lad) >= 2
                THEN Clause("C15_friction", \A k \in 1..Len(lad) : RDef(lad[k].dp),
                            \A k \in 1..(Len(lad) - 1) : RLeq(lad[k + 1].dp, RAdd(lad[k].dp, RMul(Tol, RAbs(lad[k].dp)))),
                            [diameters |-> [k \in 1..Len(lad) |-> RDec(lad[k].d, 6)], drops |-> [k \in 1..Len(lad) |-> RDec(lad[k].dp, 9)]])
                ELSE V0
         fin == VJoin(v, fr)
     IN PrintT(ToJson([tid |-> T.tid, e |-> fin.e, f |-> fin.f, s |-> fin.s, w |-> fin.w]))
  /\ tid' = tid + 1 /\ t' = 0 /\ v' = V0
Next == Step \/ Finish
Spec == Init /\ [][Next]_vars
=============================================================================
