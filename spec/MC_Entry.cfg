SPECIFICATION Spec
CONSTANTS
  Dirs = {"d1", "d2"}
  Inputs = {"ok1", "ok2", "fail_read", "fail_calc"}
  FailingInputs = {"fail_read", "fail_calc"}
  Dump = TRUE
INVARIANT C20_same
INVARIANT C20_where
INVARIANT C20_fail
CHECK_DEADLOCK FALSE
