SPECIFICATION Spec
CONSTANTS N = 3
INVARIANT UnrelatedDetects
CHECK_DEADLOCK FALSE
