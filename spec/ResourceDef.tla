----------------------------- MODULE ResourceDef -----------------------------
(***************************************************************************)
(* Resource temperature (property C05): the definition.                    *)
(* A column of numseg segments, g[k] gradient and th[k] thickness of       *)
(* segment k (the last segment is unbounded), surface temperature ts.      *)
(*   T(z)    = ts + integral of the gradients from 0 to z                  *)
(*   zmax    = depth at which T reaches tmax (gradients are positive)      *)
(*   BHT     = T(min(depth, zmax))                                         *)
(***************************************************************************)
EXTENDS Integers, Sequences, Rat

Top(th, k) == RSum(SubSeq(th, 1, k - 1))                       \* depth of the top of segment k
(* thickness of segment k actually traversed down to depth z *)
Overlap(th, n, k, z) ==
  LET top == Top(th, k)
      bot == IF k = n THEN z ELSE RMin(z, RAdd(top, th[k]))
  IN RMax(RSub(bot, top), 0)
TempAt(ts, g, th, n, z) == RAdd(ts, RSum([k \in 1..n |-> RMul(g[k], Overlap(th, n, k, z))]))

(* temperature at the bottom of segment k (k < n) *)
BottomTemp(ts, g, th, k) == RAdd(ts, RSum([j \in 1..k |-> RMul(g[j], th[j])]))
(* first segment in which tmax is reached: the first k < n whose bottom is hotter than tmax, else the last one *)
RECURSIVE ReachSeg(_, _, _, _, _, _)
ReachSeg(ts, g, th, n, tmax, k) ==
  IF k >= n THEN n ELSE IF RGt(BottomTemp(ts, g, th, k), tmax) THEN k ELSE ReachSeg(ts, g, th, n, tmax, k + 1)
ZMax(ts, g, th, n, tmax) ==
  LET k   == ReachSeg(ts, g, th, n, tmax, 1)
      top == Top(th, k)
      tt  == IF k = 1 THEN ts ELSE BottomTemp(ts, g, th, k - 1)
  IN RAdd(top, RDiv(RSub(tmax, tt), g[k]))
BHTDepth(ts, g, th, n, tmax, depth) == RMin(depth, ZMax(ts, g, th, n, tmax))
BHT(ts, g, th, n, tmax, depth) == TempAt(ts, g, th, n, BHTDepth(ts, g, th, n, tmax, depth))
=============================================================================
