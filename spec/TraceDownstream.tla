-------------------------- MODULE TraceDownstream --------------------------
(***************************************************************************)
(* M3 for Downstream.tla: one recorded trace per real run that has add-ons *)
(* and / or S-DAC-GT switched on.  The harness wraps the two modules'      *)
(* bound Calculate methods and records the plant's annual series before    *)
(* the first of them ran, after each of them, every input they read and    *)
(* every figure they produced.  The trace specification replays the        *)
(* actions of Downstream.tla on exact rationals:                           *)
(*   AddOns -> SdacYear(0..L-1) -> SdacDeduct(0..L-1) -> Finish            *)
(* Clauses are named fit_ds_*: this is beyond the listed properties, a     *)
(* failing clause is reported as model drift of the check that hosts the   *)
(* corpus (C02), never as a violation of a listed property.                *)
(***************************************************************************)
EXTENDS DownstreamDef, Verdict, TLC, Json, IOUtils

Traces == JsonDeserialize(IOEnv.TRACE_FILE)
Tol == "1e-9"

VARIABLES tid, ph, i, v
vars == <<tid, ph, i, v>>
T == Traces[tid]
Init == tid = 1 /\ ph = "addons" /\ i = 0 /\ v = V0

Same(name, got, want, scale, wit) ==
  Clause(name, RDef(got) /\ RDef(want) /\ RDef(scale), RClose(got, want, scale, Tol),
         [observed |-> RDec(got, 15), expected |-> RDec(want, 15)] @@ wit)
Mag(a, b) == RAdd(RAbs(a), RAbs(b))
HasA == "addon" \in DOMAIN T
HasS == "sdac" \in DOMAIN T
A == T.addon
S == T.sdac
At(s, k) == s[k + 1]

(* the series S-DAC-GT starts from: the add-ons' result when they ran, the plant's own otherwise *)
Mid == IF HasA THEN A.post ELSE T.pre

SeriesClause(name, got, base, delta, touched) ==
  LET bad == {y \in 1..T.L : LET d == IF touched THEN delta[y] ELSE "0"
                             IN ~(RDef(got[y]) /\ RDef(base[y]) /\ RDef(d) /\ RClose(got[y], RAdd(base[y], d), Mag(base[y], d), Tol))}
  IN Clause(name, Len(got) = T.L /\ Len(base) = T.L, bad = {}, [years |-> bad])

Const(x) == [y \in 1..T.L |-> x]

AddOnClauses ==
  LET cy   == T.cy
      rev(y) == AddOnRevenue(T.enduse, A.egain, A.hgain, A.pe[y], A.ph[y], A.profit, A.opex)
      badrev == {y \in 1..T.L : ~RClose(A.rev[y], rev(y), RAdd(Mag(A.profit, A.opex), RAbs(rev(y))), Tol)}
      flowok == /\ Len(A.flow) = T.L + cy
                /\ \A k \in 1..cy : RClose(A.flow[k], RNeg(RDiv(A.capex, cy)), RAbs(A.capex), Tol)
                /\ \A y \in 1..T.L : A.flow[cy + y] = A.rev[y]
      pf(y)  == ProjectFlow(T.enduse, A.rev[y], A.post.netkwh[y], A.post.heatkwh[y], A.pe[y], A.ph[y], A.coam)
      badpf  == {y \in 1..T.L : ~RClose(A.pflow[cy + y], pf(y), RAdd(RAbs(pf(y)), RAbs(A.coam)), Tol)}
      pfcap  == \A k \in 1..cy : RClose(A.pflow[k], RNeg(RDiv(A.adjcapex, cy)), RAbs(A.adjcapex), Tol)
      cumok(f, c) == Len(f) = Len(c) /\ LET r == Running(f) IN \A k \in 1..Len(f) : RClose(c[k], r[k], RSumAbs(SubSeq(f, 1, k)), Tol)
      cross  == {k \in 2..Len(A.cum) : RGt(A.cum[k], 0) /\ RLeq(A.cum[k - 1], 0)}
      lastx  == CHOOSE k \in cross : \A j \in cross : j <= k
      wantpb == RAdd(lastx - 1, RDiv(RAbs(A.cum[lastx - 1]), RAdd(A.cum[lastx], RAbs(A.cum[lastx - 1]))))
  IN VAll(<<
       Same("fit_ds_addon_capex_total", A.capex, RSum(A.capex_list), RSumAbs(A.capex_list), <<>>),
       Same("fit_ds_addon_opex_total", A.opex, RSum(A.opex_list), RSumAbs(A.opex_list), <<>>),
       Same("fit_ds_addon_elec_total", A.egain, RSum(A.egain_list), RSumAbs(A.egain_list), <<>>),
       Same("fit_ds_addon_heat_total", A.hgain, RSum(A.hgain_list), RSumAbs(A.hgain_list), <<>>),
       Same("fit_ds_addon_profit_total", A.profit, RSum(A.profit_list), RSumAbs(A.profit_list), <<>>),
       SeriesClause("fit_ds_addon_net_electricity", A.post.netkwh, T.pre.netkwh, Const(A.egain), TouchesElec(T.enduse)),
       SeriesClause("fit_ds_addon_gross_electricity", A.post.totkwh, T.pre.totkwh, Const(A.egain), TouchesElec(T.enduse)),
       SeriesClause("fit_ds_addon_heat", A.post.heatkwh, T.pre.heatkwh, Const(A.hgain), TouchesHeat(T.enduse)),
       Same("fit_ds_addon_adjusted_capex", A.adjcapex, RAdd(A.ccap, A.capex), Mag(A.ccap, A.capex), <<>>),
       Same("fit_ds_addon_adjusted_opex", A.adjopex, RAdd(A.coam, A.opex), Mag(A.coam, A.opex), <<>>),
       Clause("fit_ds_addon_revenue", Len(A.rev) = T.L /\ Len(A.pe) = T.L /\ Len(A.ph) = T.L, badrev = {}, [years |-> badrev]),
       Clause("fit_ds_addon_cashflow", TRUE, flowok, [cy |-> cy, n |-> Len(A.flow)]),
       Clause("fit_ds_addon_cumulative", TRUE, cumok(A.flow, A.cum), <<>>),
       Clause("fit_ds_project_cashflow", Len(A.pflow) = T.L + cy, badpf = {} /\ pfcap, [years |-> badpf]),
       Clause("fit_ds_project_cumulative", TRUE, cumok(A.pflow, A.pcum), <<>>),
       IF cross = {} THEN Clause("fit_ds_addon_payback", FALSE, TRUE, <<>>)
       ELSE Same("fit_ds_addon_payback", A.payback, wantpb, lastx, [year |-> lastx]),
       Same("fit_ds_project_vir", A.vir, RAdd(1, RDiv(A.npv, A.adjcapex)), RAdd(1, RAbs(RDiv(A.npv, A.adjcapex))), <<>>),
       Same("fit_ds_project_moic", A.moic, RDiv(A.pcum[Len(A.pcum)], RAdd(A.adjcapex, RMul(A.adjopex, T.L))),
            RAbs(RDiv(A.pcum[Len(A.pcum)], RAdd(A.adjcapex, RMul(A.adjopex, T.L)))), <<>>) >>)

AddOns == /\ tid <= Len(Traces) /\ ph = "addons"
          /\ v' = (IF HasA THEN AddOnClauses ELSE V0)
          /\ ph' = (IF HasS THEN "capture" ELSE "fin") /\ i' = 0 /\ UNCHANGED tid

(* S-DAC-GT, scalar part (evaluated once, on entering the capture loop) *)
O == S.out
Opex == RMul(S.opex_in, S.opex_mult)
Therm == RMul(S.therm_in, S.therm_index)
Crf == CRF(S.wacc, T.L)
Cpt == CapexPerTonne(S.capex, Crf, S.cmult)
PerTonne == HeatPerTonne(S.elec, S.eff, Therm)
Cost == CostPerTonne(Cpt, Opex, S.storage, S.transport)
PowerCost == RMul(S.elec, S.power)
SdacScalars ==
  LET lcoh  == GeoLCOH(S.power, S.cmult, S.opex_mult, S.depthft, S.tprodavg, S.tinj, S.flow, Crf)
      ratio == GeoRatio(S.depthft, S.tprodavg, S.tinj, S.flow)
      ng    == RMul(Therm, RDiv(S.ng_price, S.ng_density))
      lc(h, want) == Same(h, want[1], LCOD(Cpt, Opex, PowerCost, want[2], S.storage, S.transport),
                          LCOD(RAbs(Cpt), RAbs(Opex), RAbs(PowerCost), RAbs(want[2]), RAbs(S.storage), RAbs(S.transport)), <<>>)
      co2p  == RMul(RDiv(S.elec, 1000), S.co2p)
  IN VAll(<<
       Same("fit_ds_sdac_crf", O.crf, Crf, RAbs(Crf), <<>>),
       Same("fit_ds_sdac_opex_scaled", O.opex, Opex, RAbs(Opex), <<>>),
       Same("fit_ds_sdac_therm_scaled", O.therm, Therm, RAbs(Therm), <<>>),
       Same("fit_ds_sdac_lcoh", O.lcoh, lcoh, RAbs(lcoh), <<>>),
       Same("fit_ds_sdac_energy_ratio", O.ratio, ratio, RAbs(ratio), <<>>),
       lc("fit_ds_sdac_lcod_electric", <<O.lcod_elec, RMul(Therm, S.power)>>),
       lc("fit_ds_sdac_lcod_gas", <<O.lcod_ng, ng>>),
       lc("fit_ds_sdac_lcod_geothermal", <<O.lcod_geo, RMul(lcoh, Therm)>>),
       Same("fit_ds_sdac_co2_electric", O.co2_elec, RAdd(co2p, RMul(RDiv(Therm, 1000), S.co2p)), Mag(co2p, RMul(RDiv(Therm, 1000), S.co2p)), <<>>),
       Same("fit_ds_sdac_co2_gas", O.co2_ng, RAdd(co2p, RMul(RDiv(Therm, 1000), S.co2ng)), Mag(co2p, RMul(RDiv(Therm, 1000), S.co2ng)), <<>>),
       Same("fit_ds_sdac_co2_geothermal", O.co2_geo, RAdd(co2p, RMul(RDiv(RMul(Therm, ratio), 1000), S.co2p)),
            Mag(co2p, RMul(RDiv(RMul(Therm, ratio), 1000), S.co2p)), <<>>),
       Same("fit_ds_sdac_heat_per_tonne", O.heatpt, PerTonne, RAbs(PerTonne), <<>>),
       Same("fit_ds_sdac_cost_per_tonne", O.costpt, Cost, RAbs(Cost), <<>>),
       Same("fit_ds_sdac_heat_share", O.pct, RDiv(Therm, PerTonne), 1, <<>>),
       Clause("fit_ds_sdac_rows", TRUE, Len(O.carbon) = T.L /\ Len(O.cumcarbon) = T.L /\ Len(O.annualcost) = T.L /\ Len(O.cumcost) = T.L
                                        /\ Len(O.cumcostpt) = T.L /\ Len(S.hext) = T.L, [L |-> T.L, n |-> Len(O.carbon)]) >>)

(* SdacYear(y): the first loop of the code, one year per step *)
YearClauses(y) ==
  LET w  == [year |-> y]
      c  == At(O.carbon, y)
      wc == Captured(S.split, At(S.hext, y), PerTonne)
      pc == IF y = 0 THEN "0" ELSE At(O.cumcarbon, y - 1)
      pk == IF y = 0 THEN "0" ELSE At(O.cumcost, y - 1)
  IN VAll(<<
       Same("fit_ds_sdac_captured", c, wc, RAbs(wc), w),
       Same("fit_ds_sdac_running_capture", At(O.cumcarbon, y), RAdd(pc, c), Mag(pc, c), w),
       Same("fit_ds_sdac_annual_cost", At(O.annualcost, y), RMul(c, Cost), RAbs(RMul(c, Cost)), w),
       Same("fit_ds_sdac_running_cost", At(O.cumcost, y), RAdd(pk, At(O.annualcost, y)), Mag(pk, At(O.annualcost, y)), w),
       \* Downstream!RunningSums: the running cost per tonne is the cost per tonne, every year in which anything was captured
       IF REq(At(O.cumcarbon, y), 0) THEN V0
       ELSE Same("fit_ds_sdac_running_cost_per_tonne", At(O.cumcostpt, y), Cost, RAbs(Cost), w) >>)

SdacYear == /\ tid <= Len(Traces) /\ ph = "capture" /\ i < T.L
            /\ v' = VJoin(v, IF i = 0 THEN VJoin(SdacScalars, YearClauses(0)) ELSE YearClauses(i))
            /\ i' = i + 1 /\ UNCHANGED <<tid, ph>>
CaptureDone == /\ tid <= Len(Traces) /\ ph = "capture" /\ i = T.L
               /\ v' = VJoin(v, Same("fit_ds_sdac_total", O.total, RSum(O.carbon), RSumAbs(O.carbon), <<>>))
               /\ ph' = "deduct" /\ i' = 0 /\ UNCHANGED tid

(* SdacDeduct(y): the second loop *)
DeductClauses(y) ==
  LET w  == [year |-> y]
      c  == At(O.carbon, y)
      ue == IF TouchesElec(T.enduse) THEN RMul(c, S.elec) ELSE "0"
      uh == IF TouchesHeat(T.enduse) THEN RMul(c, Therm) ELSE "0"
      one(name, f, use) == IF Len(S.post[f]) # T.L \/ Len(Mid[f]) # T.L THEN Clause(name, FALSE, TRUE, <<>>)   \* a series this end-use does not have
                           ELSE Same(name, At(S.post[f], y), RSub(At(Mid[f], y), use), Mag(At(Mid[f], y), use), w)
  IN VAll(<< one("fit_ds_sdac_net_electricity", "netkwh", ue), one("fit_ds_sdac_gross_electricity", "totkwh", ue),
             one("fit_ds_sdac_heat", "heatkwh", uh) >>)
SdacDeduct == /\ tid <= Len(Traces) /\ ph = "deduct" /\ i < T.L
              /\ v' = VJoin(v, DeductClauses(i))
              /\ i' = i + 1 /\ UNCHANGED <<tid, ph>>
DeductDone == /\ tid <= Len(Traces) /\ ph = "deduct" /\ i = T.L
              /\ ph' = "fin" /\ UNCHANGED <<tid, i, v>>

(* Finish: what the economics module finally priced is the last module's result (nobody else touched the series) *)
Finish == /\ tid <= Len(Traces) /\ ph = "fin"
          /\ LET last == IF HasS THEN S.post ELSE IF HasA THEN A.post ELSE T.pre
                 diff == {f \in DOMAIN last : last[f] # T.final[f]}
                 fin  == VJoin(v, Clause("fit_ds_priced_is_last", "final" \in DOMAIN T, diff = {}, [series |-> diff]))
             IN PrintT(ToJson([tid |-> T.tid, e |-> fin.e, f |-> fin.f, s |-> fin.s, w |-> fin.w]))
          /\ tid' = tid + 1 /\ ph' = "addons" /\ i' = 0 /\ v' = V0

Next == AddOns \/ SdacYear \/ CaptureDone \/ SdacDeduct \/ DeductDone \/ Finish
Spec == Init /\ [][Next]_vars
=============================================================================
