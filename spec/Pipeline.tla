------------------------------- MODULE Pipeline -------------------------------
(***************************************************************************)
(* The run pipeline's class-selection ladder (Model.__init__ and the       *)
(* surface-plant re-selection in Model.read_parameters) and stage order    *)
(* (properties C19, C20, C08; stage order for every trace spec).           *)
(* Configuration axes = the lines of the input file the ladder looks at:   *)
(*   res   "none" | "0".."8"     Reservoir Model                           *)
(*   ags   BOOLEAN               Is AGS                                    *)
(*   econ  "none" | "1".."4"     Economic Model                            *)
(*   pt    "none" | "1".."9"     Power Plant Type                          *)
(*   eu    "none" | "1" | "2" | "31" .. "52"   End-Use Option              *)
(*   addons, sdacgt  BOOLEAN                                               *)
(* Actions: Instantiate (or FailInit), ReadParameters (or FailRead),       *)
(* Calculate stages, Print, WriteJson.  `classes` is what C19 needs: the   *)
(* set of module classes a run of this configuration uses.                 *)
(***************************************************************************)
EXTENDS Integers, Sequences, FiniteSets, TLC, Json

CONSTANTS ResModels, EconModels, PlantTypes, EndUses, Dump

VARIABLES stage, cfg, reserv, wellbores, plant, econ, outputs, extra
vars == <<stage, cfg, reserv, wellbores, plant, econ, outputs, extra>>

ReservoirOf(r) ==
  CASE r = "0" -> "CylindricalReservoir" [] r = "1" -> "MPFReservoir" [] r = "2" -> "LHSReservoir" [] r = "3" -> "SFReservoir"
    [] r = "5" -> "UPPReservoir" [] r = "6" -> "TOUGH2Reservoir" [] r = "7" -> "SUTRAReservoir" [] r = "8" -> "SBTReservoir"
    [] OTHER -> "TDPReservoir"
PlantOfType(t) ==
  CASE t = "1" -> "SurfacePlantSubcriticalOrc" [] t = "2" -> "SurfacePlantSupercriticalOrc" [] t = "3" -> "SurfacePlantSingleFlash"
    [] t = "4" -> "SurfacePlantDoubleFlash" [] t = "5" -> "SurfacePlantAbsorptionChiller" [] t = "6" -> "SurfacePlantHeatPump"
    [] t = "7" -> "SurfacePlantDistrictHeating" [] t = "8" -> "SurfacePlantSUTRA" [] t = "9" -> "SurfacePlantIndustrialHeat"
    [] OTHER -> "unchanged"
HeatOnly(u) == u = "2"
EffectivePT(c) == IF c.pt = "none" THEN "1" ELSE c.pt       \* declared default: 1 (subcritical ORC)
EffectiveEU(c) == IF c.eu = "none" THEN "1" ELSE c.eu       \* declared default: 1 (electricity)

Init == /\ stage = "parsed"
        /\ cfg \in [res : ResModels, ags : BOOLEAN, econ : EconModels, pt : PlantTypes, eu : EndUses, addons : BOOLEAN, sdacgt : BOOLEAN]
        /\ reserv = "none" /\ wellbores = "none" /\ plant = "none" /\ econ = "none" /\ outputs = "none" /\ extra = {}

\* 'Is AGS' looks up InputParameters['Economic Model'] unconditionally (unless the reservoir is SBT): KeyError without that line
InitFails == cfg.ags /\ cfg.res # "8" /\ cfg.econ = "none"

Instantiate ==
  /\ stage = "parsed" /\ ~InitFails
  /\ LET sutra == cfg.res = "7"   sbt == cfg.res = "8"
         r0 == ReservoirOf(cfg.res)
         w0 == IF sutra THEN "SUTRAWellBores" ELSE IF sbt THEN "SBTWellbores" ELSE "WellBores"
         p0 == IF sutra THEN "SurfacePlantSUTRA" ELSE "SurfacePlantIndustrialHeat"
         e0 == IF sutra THEN "SUTRAEconomics" ELSE IF sbt THEN "SBTEconomics" ELSE "Economics"
         o0 == IF sutra THEN "SUTRAOutputs" ELSE "Outputs"
         clgs == cfg.ags /\ ~sbt                       \* CLGS / Wanju branch replaces all five objects
         p1 == IF clgs THEN "SurfacePlantAGS" ELSE p0
         pT == PlantOfType(cfg.pt)
     IN /\ reserv' = IF clgs THEN "CylindricalReservoir" ELSE r0
        /\ wellbores' = IF clgs THEN "AGSWellBores" ELSE w0
        /\ econ' = IF clgs THEN "AGSEconomics" ELSE e0
        /\ outputs' = IF clgs THEN "AGSOutputs" ELSE o0
        /\ plant' = IF pT = "unchanged" THEN p1 ELSE pT
        /\ extra' = (IF cfg.addons THEN {"EconomicsAddOns"} ELSE {}) \cup (IF cfg.sdacgt THEN {"EconomicsS_DAC_GT"} ELSE {})
  /\ stage' = "model_created" /\ UNCHANGED cfg
FailInit == stage = "parsed" /\ InitFails /\ stage' = "failed_init" /\ UNCHANGED <<cfg, reserv, wellbores, plant, econ, outputs, extra>>

\* Model.read_parameters: every module reads, then the surface plant is re-selected from end-use and plant type and read again
Reselected ==
  IF HeatOnly(EffectiveEU(cfg))
  THEN CASE EffectivePT(cfg) = "5" -> "SurfacePlantAbsorptionChiller" [] EffectivePT(cfg) = "6" -> "SurfacePlantHeatPump"
         [] EffectivePT(cfg) = "7" -> "SurfacePlantDistrictHeating" [] EffectivePT(cfg) = "8" -> "SurfacePlantSUTRA"
         [] OTHER -> "SurfacePlantIndustrialHeat"
  ELSE CASE EffectivePT(cfg) = "1" -> "SurfacePlantSubcriticalOrc" [] EffectivePT(cfg) = "2" -> "SurfacePlantSupercriticalOrc"
         [] EffectivePT(cfg) = "3" -> "SurfacePlantSingleFlash" [] OTHER -> "SurfacePlantDoubleFlash"
\* district heating demand is computed right after reading: with a non-heat end-use (or an AGS run, whose plant becomes
\* SurfacePlantAGS) the re-selected plant has no such method; the SUTRA economics does not admit economic model 4
ReadFails == \/ EffectivePT(cfg) = "7" /\ (cfg.ags \/ ~HeatOnly(EffectiveEU(cfg)))
             \/ cfg.res = "7" /\ cfg.econ = "4" /\ ~cfg.ags
ReadParameters ==
  /\ stage = "model_created" /\ ~ReadFails
  \* an AGS run (default: one lateral, initial temperature below 375 C) gets SurfacePlantAGS, whatever was asked for
  /\ plant' = IF cfg.ags THEN "SurfacePlantAGS" ELSE Reselected
  /\ stage' = "params_read" /\ UNCHANGED <<cfg, reserv, wellbores, econ, outputs, extra>>
FailRead == stage = "model_created" /\ ReadFails /\ stage' = "failed_read" /\ UNCHANGED <<cfg, reserv, wellbores, plant, econ, outputs, extra>>

CalcReservoir == stage = "params_read" /\ stage' = "reservoir_calculated" /\ UNCHANGED <<cfg, reserv, wellbores, plant, econ, outputs, extra>>
CalcWellbores == stage = "reservoir_calculated" /\ stage' = "wellbores_calculated" /\ UNCHANGED <<cfg, reserv, wellbores, plant, econ, outputs, extra>>
CalcPlant == stage = "wellbores_calculated" /\ stage' = "surfaceplant_calculated" /\ UNCHANGED <<cfg, reserv, wellbores, plant, econ, outputs, extra>>
\* district heating: the three modules are calculated a second time
SecondPass == stage = "surfaceplant_calculated" /\ plant = "SurfacePlantDistrictHeating" /\ stage' = "params_read_again"
              /\ UNCHANGED <<cfg, reserv, wellbores, plant, econ, outputs, extra>>
CalcEconomics == stage \in {"surfaceplant_calculated", "second_pass_done"} /\ stage' = "economics_calculated"
                 /\ UNCHANGED <<cfg, reserv, wellbores, plant, econ, outputs, extra>>
SecondPassDone == stage = "params_read_again" /\ stage' = "second_pass_done" /\ UNCHANGED <<cfg, reserv, wellbores, plant, econ, outputs, extra>>
PrintReport == stage = "economics_calculated" /\ stage' = "printed" /\ UNCHANGED <<cfg, reserv, wellbores, plant, econ, outputs, extra>>
WriteJson == /\ stage = "printed" /\ stage' = "json_written"
             /\ (Dump => PrintT(ToJson([cfg |-> cfg, classes |-> {reserv, wellbores, plant, econ, outputs} \cup extra])))
             /\ UNCHANGED <<cfg, reserv, wellbores, plant, econ, outputs, extra>>
EmitFailure == /\ stage \in {"failed_init", "failed_read"} /\ stage' = "reported_failure"
               /\ (Dump => PrintT(ToJson([cfg |-> cfg, failed |-> stage])))
               /\ UNCHANGED <<cfg, reserv, wellbores, plant, econ, outputs, extra>>
Next == Instantiate \/ FailInit \/ ReadParameters \/ FailRead \/ CalcReservoir \/ CalcWellbores \/ CalcPlant \/ SecondPass
        \/ SecondPassDone \/ CalcEconomics \/ PrintReport \/ WriteJson \/ EmitFailure
Spec == Init /\ [][Next]_vars

\* sanity: a SUTRA reservoir comes with its whole family; an SBT reservoir with its well bores and economics
FamiliesConsistent == stage = "model_created" =>
  /\ (reserv = "SUTRAReservoir" => wellbores = "SUTRAWellBores" /\ econ = "SUTRAEconomics" /\ outputs = "SUTRAOutputs")
  /\ (reserv = "SBTReservoir" => wellbores = "SBTWellbores" /\ econ = "SBTEconomics")
  /\ (wellbores = "AGSWellBores" => reserv = "CylindricalReservoir" /\ econ = "AGSEconomics")
=============================================================================
