----------------------------- MODULE LevelizedDef -----------------------------
(***************************************************************************)
(* Levelized cost of electricity / heat / cooling (property C01): the      *)
(* documented definition of the three economic models (Beckers & McCabe    *)
(* 2019, GEOPHIRES v2 theory), one operator per model, one CASE per        *)
(* end-use class, as in Economics.CalculateLCOELCOHLCOC.                   *)
(*                                                                         *)
(* A record q carries what the run itself reports:                         *)
(*   L        plant lifetime (years)                                       *)
(*   ccap, coam, ratio (electricity share of CAPEX/OPEX for cogeneration)  *)
(*   ic       inflation (accrued financing) during construction            *)
(*   eE, eH, eC   yearly energy sold (kWh): net electricity, heat, cooling *)
(*   xP, xHP, xNG yearly other costs (MUSD): pumping electricity bought,   *)
(*            heat-pump electricity, district-heating peaking fuel         *)
(*   aP, aHP, aNG their reported annual averages (FCR model)               *)
(*   dem      annual district-heating demand (GWh, scalar)                 *)
(*   fcr | d | fib, bir, eir, ctr, gtr, ptr, itc, infl   model rates       *)
(* Units: costs MUSD, energy kWh => 1E8 gives cents/kWh; heat and cooling  *)
(* are quoted in USD/MMBTU (x 2.931); district heating demand is in GWh    *)
(* (=> 1E2).                                                               *)
(***************************************************************************)
EXTENDS Integers, Sequences, Rat, TLC, Json

Mean(s) == RDiv(RSum(s), Len(s))
Scale(s, c) == [k \in 1..Len(s) |-> RMul(s[k], c)]
AddS(s, t) == [k \in 1..Len(s) |-> RAdd(s[k], t[k])]
Const(n, c) == [k \in 1..n |-> c]
ToMMBTU(x) == RMul(x, "2.931")
Cents(x) == RMul(x, 100000000)

Branches == {"elec", "heat", "cogen", "chiller", "heatpump", "dh"}

(* ---------------- fixed charge rate ---------------- *)
FCRCost(q, cap, om, extra, energy, factor) ==
  RMul(RDiv(RAdd3(RMul3(q.fcr, RAdd(1, q.ic), cap), om, extra), energy), factor)

LCFCR(q, b) ==
  LET capE == RMul(q.ccap, q.ratio)  omE == RMul(q.coam, q.ratio)
      capH == RMul(q.ccap, RSub(1, q.ratio))  omH == RMul(q.coam, RSub(1, q.ratio))
      zero == "0"
  IN CASE b = "elec"     -> [lcoe |-> FCRCost(q, q.ccap, q.coam, zero, Mean(q.eE), 100000000), lcoh |-> zero, lcoc |-> zero]
       [] b = "heat"     -> [lcoe |-> zero, lcoh |-> ToMMBTU(FCRCost(q, q.ccap, q.coam, q.aP, Mean(q.eH), 100000000)), lcoc |-> zero]
       [] b = "cogen"    -> [lcoe |-> FCRCost(q, capE, omE, zero, Mean(q.eE), 100000000),
                             lcoh |-> ToMMBTU(FCRCost(q, capH, omH, q.aP, Mean(q.eH), 100000000)), lcoc |-> zero]
       [] b = "chiller"  -> [lcoe |-> zero, lcoh |-> zero, lcoc |-> ToMMBTU(FCRCost(q, q.ccap, q.coam, q.aP, Mean(q.eC), 100000000))]
       [] b = "heatpump" -> [lcoe |-> zero, lcoh |-> ToMMBTU(FCRCost(q, q.ccap, q.coam, RAdd(q.aP, q.aHP), Mean(q.eH), 100000000)), lcoc |-> zero]
       [] b = "dh"       -> [lcoe |-> zero, lcoh |-> ToMMBTU(FCRCost(q, q.ccap, q.coam, RAdd(q.aP, q.aNG), q.dem, 100)), lcoc |-> zero]

(* ---------------- standard discounted levelized cost: years t = 0 .. L-1 ---------------- *)
DiscStd(q) == [k \in 1..q.L |-> RPow(RAdd(1, q.d), -(k - 1))]
StdCost(q, cap, omseries, energyseries, factor) ==
  LET dv == DiscStd(q)
  IN RMul(RDiv(RAdd(RMul(RAdd(1, q.ic), cap), RDot(omseries, dv)), RDot(energyseries, dv)), factor)

LCStd(q, b) ==
  LET capE == RMul(q.ccap, q.ratio)  omE == RMul(q.coam, q.ratio)
      capH == RMul(q.ccap, RSub(1, q.ratio))  omH == RMul(q.coam, RSub(1, q.ratio))
      zero == "0"
      om(c) == Const(q.L, c)
  IN CASE b = "elec"     -> [lcoe |-> StdCost(q, q.ccap, om(q.coam), q.eE, 100000000), lcoh |-> zero, lcoc |-> zero]
       [] b = "heat"     -> [lcoe |-> zero, lcoh |-> ToMMBTU(StdCost(q, q.ccap, AddS(om(q.coam), q.xP), q.eH, 100000000)), lcoc |-> zero]
       [] b = "cogen"    -> [lcoe |-> StdCost(q, capE, om(omE), q.eE, 100000000),
                             lcoh |-> ToMMBTU(StdCost(q, capH, AddS(om(omH), q.xP), q.eH, 100000000)), lcoc |-> zero]
       [] b = "chiller"  -> [lcoe |-> zero, lcoh |-> zero, lcoc |-> ToMMBTU(StdCost(q, q.ccap, AddS(om(q.coam), q.xP), q.eC, 100000000))]
       [] b = "heatpump" -> [lcoe |-> zero, lcoh |-> ToMMBTU(StdCost(q, q.ccap, AddS(AddS(om(q.coam), q.xP), q.xHP), q.eH, 100000000)), lcoc |-> zero]
       [] b = "dh"       -> [lcoe |-> zero, lcoh |-> ToMMBTU(StdCost(q, q.ccap, AddS(AddS(om(q.coam), q.xP), q.xNG), Const(q.L, q.dem), 100)), lcoc |-> zero]

(* ---------------- BICYCLE: years t = 1 .. L ---------------- *)
IAve(q) == RAdd(RMul3(q.fib, q.bir, RSub(1, q.ctr)), RMul(RSub(1, q.fib), q.eir))
CRF(q)  == RDiv(IAve(q), RSub(1, RPow(RAdd(1, IAve(q)), -q.L)))
InflV(q) == [k \in 1..q.L |-> RPow(RAdd(1, q.infl), k)]
DiscB(q) == [k \in 1..q.L |-> RPow(RAdd(1, IAve(q)), -k)]
InflDisc(q) == [k \in 1..q.L |-> RMul(InflV(q)[k], DiscB(q)[k])]

BicCost(q, cap, omseries, energyseries, factor) ==
  LET c1     == RMul(RAdd(1, q.ic), cap)
      sd     == RSum(DiscB(q))
      id     == InflDisc(q)
      npvcap == RMul3(c1, CRF(q), sd)
      npvfc  == RMul3(c1, q.ptr, RSum(id))
      npvit  == RMul3(RDiv(q.ctr, RSub(1, q.ctr)), RSub(RMul(c1, CRF(q)), RDiv(cap, q.L)), sd)
      npvitc == RDiv(RMul(c1, q.itc), RSub(1, q.ctr))
      npvom  == RDot(omseries, id)
      base   == RSub(RAdd4(npvcap, npvom, npvfc, npvit), npvitc)
      npvgrt == RMul(RDiv(q.gtr, RSub(1, q.gtr)), base)
  IN RMul(RDiv(RAdd(base, npvgrt), RDot(energyseries, id)), factor)

LCBic(q, b) ==
  LET capE == RMul(q.ccap, q.ratio)  omE == RMul(q.coam, q.ratio)
      capH == RMul(q.ccap, RSub(1, q.ratio))  omH == RMul(q.coam, RSub(1, q.ratio))
      zero == "0"
      om(c) == Const(q.L, c)
  IN CASE b = "elec"     -> [lcoe |-> BicCost(q, q.ccap, om(q.coam), q.eE, 100000000), lcoh |-> zero, lcoc |-> zero]
       [] b = "heat"     -> [lcoe |-> zero, lcoh |-> ToMMBTU(BicCost(q, q.ccap, AddS(om(q.coam), q.xP), q.eH, 100000000)), lcoc |-> zero]
       \* cogeneration, BICYCLE: the heat side carries its O&M share only (no pumping electricity) -- as coded
       [] b = "cogen"    -> [lcoe |-> BicCost(q, capE, om(omE), q.eE, 100000000),
                             lcoh |-> ToMMBTU(BicCost(q, capH, om(omH), q.eH, 100000000)), lcoc |-> zero]
       [] b = "chiller"  -> [lcoe |-> zero, lcoh |-> zero, lcoc |-> ToMMBTU(BicCost(q, q.ccap, AddS(om(q.coam), q.xP), q.eC, 100000000))]
       [] b = "heatpump" -> [lcoe |-> zero, lcoh |-> ToMMBTU(BicCost(q, q.ccap, AddS(AddS(om(q.coam), q.xP), q.xHP), q.eH, 100000000)), lcoc |-> zero]
       [] b = "dh"       -> [lcoe |-> zero, lcoh |-> ToMMBTU(BicCost(q, q.ccap, AddS(AddS(om(q.coam), q.xP), q.xNG), Const(q.L, q.dem), 100)), lcoc |-> zero]

LC(q, m, b) == CASE m = "FCR" -> LCFCR(q, b) [] m = "STD" -> LCStd(q, b) [] m = "BICYCLE" -> LCBic(q, b)
=============================================================================
