--------------------------- MODULE TraceCashFlow ---------------------------
(***************************************************************************)
(* Trace validation for C04: recorded economics snapshots of real runs are *)
(* stepped through CashFlow's year structure, one TLC state per project    *)
(* year, evaluating every clause exactly.  The running sum continues from  *)
(* the REPORTED cumulative value so one wrong year is reported once.       *)
(*                                                                         *)
(* trace record: L, Cy, ccap, coam, rate (percent), excel (BOOLEAN),       *)
(*   elecE, heatE, coolE (energy sold per operating year, kWh; <<>> when   *)
(*   the product is not sold), elecP, heatP, coolP, carbP (price per       *)
(*   project year, zero padded), elecR, heatR, coolR, carbR (revenue per   *)
(*   project year), carbon (BOOLEAN), grid, ng (CO2 intensities), celec,   *)
(*   cheat (which energies earn carbon credit), cf, cum, npv, irr (per     *)
(*   cent, 0 = none), vir, moic, payback, shown ("N/A" | "value" | "").    *)
(*   series "extra" (optional): add-on project series checked with the     *)
(*   same finishing clauses.                                               *)
(***************************************************************************)
EXTENDS Integers, Sequences, Rat, Verdict, TLC, Json, IOUtils

Traces == JsonDeserialize(IOEnv.TRACE_FILE)
Tol == "1e-9"

VARIABLES tid, i, cum, v
vars == <<tid, i, cum, v>>

T == Traces[tid]
N == T.L + T.Cy
At(s, k) == s[k + 1]
Get(s, k) == IF k + 1 <= Len(s) THEN s[k + 1] ELSE "0"

Init == tid = 1 /\ i = 0 /\ cum = "0" /\ v = V0

(* revenue of one product in project year k: energy sold that year times that year's price *)
ProdRev(E, P, k) == IF k < T.Cy \/ Len(E) = 0 THEN "0" ELSE RDiv(RMul(At(E, k - T.Cy), At(P, k)), 1000000)

CarbonRev(k) ==
  IF k < T.Cy \/ ~T.carbon THEN "0"
  ELSE LET e == IF T.celec THEN Get(T.netE, k - T.Cy) ELSE "0"
           h == IF T.cheat THEN Get(T.heatEall, k - T.Cy) ELSE "0"
       IN RDiv(RMul(RAdd(RMul(e, T.grid), RMul(h, T.ng)), At(T.carbP, k)), 1000000)

RevClause(name, R, E, P, k) ==
  LET want == ProdRev(E, P, k)  got == At(R, k)
  IN Clause(name, RDef(want) /\ RDef(got), RClose(got, want, RAbs(want), Tol),
            [year |-> k, observed |-> RDec(got, 15), expected |-> RDec(want, 15)])

RowsOK == \A nm \in {"cf", "cum", "elecR", "heatR", "coolR", "carbR", "elecP", "heatP", "coolP", "carbP"} : Len(T[nm]) = N

SkipYears == /\ tid <= Len(Traces) /\ i = 0 /\ N > 0 /\ ~RowsOK
             /\ i' = N /\ UNCHANGED <<tid, cum, v>>

Year ==
  /\ tid <= Len(Traces) /\ i < N /\ RowsOK
  /\ LET rev  == RAdd4(At(T.elecR, i), At(T.heatR, i), At(T.coolR, i), At(T.carbR, i))
         cf   == IF i < T.Cy THEN RNeg(RDiv(T.ccap, T.Cy)) ELSE RSub(rev, T.coam)
         mag  == RAdd3(RAbs(rev), RAbs(T.coam), RAbs(T.ccap))
         c    == IF i = 0 THEN cf ELSE RAdd(cum, cf)
         cw   == LET want == CarbonRev(i) got == At(T.carbR, i)
                 IN Clause("C04_rev_carbon", RDef(want) /\ RDef(got), RClose(got, want, RAbs(want), Tol),
                           [year |-> i, observed |-> RDec(got, 15), expected |-> RDec(want, 15)])
     IN /\ v' = VAll(<< v,
               RevClause("C04_rev_elec", T.elecR, T.elecE, T.elecP, i),
               RevClause("C04_rev_heat", T.heatR, T.heatE, T.heatP, i),
               RevClause("C04_rev_cool", T.coolR, T.coolE, T.coolP, i),
               cw,
               Clause("C04_cf", RDef(cf) /\ RDef(At(T.cf, i)), RClose(At(T.cf, i), cf, mag, Tol),
                      [year |-> i, observed |-> RDec(At(T.cf, i), 15), expected |-> RDec(cf, 15)]),
               Clause("C04_cum", RDef(c) /\ RDef(At(T.cum, i)), RClose(At(T.cum, i), c, RAdd(RAbs(c), mag), Tol),
                      [year |-> i, observed |-> RDec(At(T.cum, i), 15), expected |-> RDec(c, 15)]) >>)
        /\ cum' = At(T.cum, i)
  /\ i' = i + 1 /\ UNCHANGED tid

(* ---- finishing clauses on a (cf, cum) pair with its reported metrics ---- *)
Disc(cfs, r, sh) == [k \in 1..Len(cfs) |-> RDiv(cfs[k], RPow(RAdd(1, r), k - 1 + sh))]

PaybackOK(cums, p) ==
  \/ REq(p, 0)
  \/ LET y == RFloor(p)
     IN /\ y \in 1..(Len(cums) - 1)
        /\ RLeq(At(cums, y - 1), 0) /\ RGt(At(cums, y), 0)
        /\ RClose(RSub(p, y), RDiv(RAbs(At(cums, y - 1)), RAdd(At(cums, y), RAbs(At(cums, y - 1)))), 1, Tol)

Metrics(pre, cfs, cums, rate, excel, npv, irr, vir, moic, payback, capex, opexL, shown) ==
  LET r     == RDiv(rate, 100)
      terms == Disc(cfs, r, IF excel THEN 1 ELSE 0)
      want  == RSum(terms)
      ir    == RDiv(irr, 100)
      iterm == Disc(cfs, ir, 0)
      den   == RAdd(capex, opexL)
      never == \A k \in 1..Len(cums) : RLeq(cums[k], 0)
  IN VAll(<<
     Clause(pre \o "npv", AllDef(terms) /\ RDef(npv), RClose(npv, want, RSumAbs(terms), Tol),
            [observed |-> RDec(npv, 15), expected |-> RDec(want, 15)]),
     Clause(pre \o "irr", RDef(irr) /\ ~REq(irr, 0) /\ RGt(RAdd(1, ir), 0) /\ AllDef(iterm),
            RClose(RSum(iterm), 0, RSumAbs(iterm), "1e-6"),
            [irr_percent |-> RDec(irr, 15), residual |-> RDec(RSum(iterm), 12), scale |-> RDec(RSumAbs(iterm), 12)]),
     Clause(pre \o "vir", RDef(vir) /\ RDef(npv) /\ ~REq(capex, 0),
            RClose(vir, RAdd(1, RDiv(npv, capex)), RAdd(1, RAbs(RDiv(npv, capex))), Tol),
            [observed |-> RDec(vir, 15), expected |-> RDec(RAdd(1, RDiv(npv, capex)), 15)]),
     Clause(pre \o "moic", RDef(moic) /\ ~REq(den, 0) /\ Len(cums) > 0,
            RClose(moic, RDiv(cums[Len(cums)], den), RAbs(RDiv(cums[Len(cums)], den)), Tol),
            [observed |-> RDec(moic, 15), expected |-> RDec(RDiv(cums[Len(cums)], den), 15)]),
     Clause(pre \o "payback", RDef(payback) /\ AllDef(cums), PaybackOK(cums, payback),
            [payback |-> RDec(payback, 15), floor |-> RFloor(payback)]),
     Clause(pre \o "na", RDef(payback) /\ AllDef(cums), never => REq(payback, 0),
            [payback |-> RDec(payback, 15)]),
     \* a series that does turn from non-positive to positive has a payback period (it is not "N/A")
     Clause(pre \o "payback_reported", RDef(payback) /\ AllDef(cums) /\ shown # "skip",
            (\E k \in 2..Len(cums) : RLeq(cums[k - 1], 0) /\ RGt(cums[k], 0)) => ~REq(payback, 0),
            [payback |-> RDec(payback, 15)]),
     Clause(pre \o "na_shown", shown \notin {"", "skip"} /\ RDef(payback) /\ AllDef(cums),
            (never => shown = "N/A") /\ (shown = "N/A" <=> REq(payback, 0)),
            [payback |-> RDec(payback, 15), shown |-> shown]) >>)

RunningSum(cfs, cums) ==
  Clause("C04_x_cum", AllDef(cfs) /\ AllDef(cums) /\ Len(cfs) = Len(cums),
         \A k \in 1..Len(cums) : RClose(cums[k], RSum(SubSeq(cfs, 1, k)), RSumAbs(SubSeq(cfs, 1, k)), Tol),
         [series |-> "extra"])

Finish ==
  /\ tid <= Len(Traces) /\ i = N
  /\ LET rows == Clause("C04_rows", TRUE, RowsOK, [rows |-> Len(T.cf), expected |-> N])
         m    == Metrics("C04_", T.cf, T.cum, T.rate, T.excel, T.npv, T.irr, T.vir, T.moic, T.payback,
                         T.ccap, RMul(T.coam, T.L), T.shown)
         x    == IF "extra" \in DOMAIN T
                 THEN LET X == T.extra
                      IN VJoin(RunningSum(X.cf, X.cum),
                               Metrics("C04_x_", X.cf, X.cum, X.rate, X.excel, X.npv, X.irr, X.vir, X.moic, "0",
                                       X.capex, RMul(X.opex, T.L), "skip"))
                 ELSE V0
         a    == IF "addon" \in DOMAIN T
                 THEN LET A == T.addon
                      IN VAll(<< Clause("C04_a_cum", AllDef(A.cf) /\ AllDef(A.cum) /\ Len(A.cf) = Len(A.cum),
                                        \A k \in 1..Len(A.cum) : RClose(A.cum[k], RSum(SubSeq(A.cf, 1, k)), RSumAbs(SubSeq(A.cf, 1, k)), Tol),
                                        [series |-> "addon"]),
                                 Clause("C04_a_payback", RDef(A.payback) /\ AllDef(A.cum), PaybackOK(A.cum, A.payback),
                                        [payback |-> RDec(A.payback, 15)]) >>)
                 ELSE V0
         fin  == VAll(<<v, rows, m, x, a>>)
     IN PrintT(ToJson([tid |-> T.tid, e |-> fin.e, f |-> fin.f, s |-> fin.s, w |-> fin.w]))
  /\ tid' = tid + 1 /\ i' = 0 /\ cum' = "0" /\ v' = V0

Next == Year \/ SkipYears \/ Finish
Spec == Init /\ [][Next]_vars
=============================================================================
