---------------------------- MODULE HydraulicsDef ----------------------------
(***************************************************************************)
(* Modelled reservoir pressures (property C15): closed forms of            *)
(* WellBores.ReservoirPressurePredictor / InjectionReservoirPressure-      *)
(* Predictor.  p0 = hydrostatic (kPa), ov = overpressure (%), rate =       *)
(* depletion (%/yr): the overpressure is gone after D = floor(100/rate*n)  *)
(* time steps; never below hydrostatic.  Injection: p0 + infl/n * t.       *)
(***************************************************************************)
EXTENDS Integers, Sequences, Rat

DepletionSteps(rate, n) == RFloor(RMul(RDiv(100, rate), n))
Start(p0, ov) == RMul(p0, RDiv(ov, 100))
Unfloored(p0, ov, D, t) == RSub(Start(p0, ov), RMul(RDiv(RSub(Start(p0, ov), p0), D), t))
(* the production-reservoir pressure at step t given D depletion steps *)
Production(p0, ov, D, t) ==
  IF REq(ov, 100) THEN RNorm(p0)
  ELSE IF t = 0 THEN Start(p0, ov)
  ELSE RMax(Unfloored(p0, ov, D, t), p0)
Injection(p0, infl, n, t) == RAdd(p0, RMul(RDiv(infl, n), t))
=============================================================================
