SPECIFICATION Spec
CONSTANTS
  Sizes = {"1/2", "1", "3"}
  Fracs = {"1/4", "1/2", "1"}
  Heats = {"1/2", "1", "4"}
  Ks = {"1/2", "2", "10"}
INVARIANT C17_vol_rock
INVARIANT C17_vol_fluid
INVARIANT C17_stored_sum
INVARIANT C17_avail_le_stored
INVARIANT C17_prod_le_avail
INVARIANT C17_area_homog
INVARIANT C17_thick_homog
CHECK_DEADLOCK FALSE
