-------------------------------- MODULE Str --------------------------------
(* Substring search on strings.  TLC evaluates the definition below as is;  *)
(* spec/Str.java overrides it with String.contains for speed (same result). *)
LOCAL INSTANCE Naturals
LOCAL INSTANCE Sequences
StrLen(a) == Len(a)
StrContains(a, b) == \E k \in 1..(Len(a) - Len(b) + 1) : SubSeq(a, k, k + Len(b) - 1) = b
=============================================================================
