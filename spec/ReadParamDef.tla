---------------------------- MODULE ReadParamDef ----------------------------
(***************************************************************************)
(* The decision table of Parameter.ReadParameter for scalar numeric and    *)
(* option inputs (property C07).  A parameter p is a record                *)
(*   kind "float" | "int", lo, hi (float bounds), allow (int members),     *)
(*   def (declared default), cur (working value when the read starts).     *)
(* The order of the tests matters and is the code's: equality with the     *)
(* default, equality with the working value, then the range test.          *)
(***************************************************************************)
EXTENDS Integers, Sequences, Rat

InDomain(p, v) == IF p.kind = "float" THEN RLeq(p.lo, v) /\ RLeq(v, p.hi)
                  ELSE \E k \in 1..Len(p.allow) : REq(p.allow[k], v)
(* the documented "not provided" marker: a declared default that lies outside the declared domain *)
IsSentinel(p, v) == REq(v, p.def) /\ ~InDomain(p, p.def)

Rejected == [outcome |-> "rejected", value |-> "undef"]
Kept(p)  == [outcome |-> "accepted", value |-> RNorm(p.cur)]
Set(v)   == [outcome |-> "accepted", value |-> RNorm(v)]

ReadFloat(p, v) ==
  IF REq(v, p.cur) THEN Kept(p)                 \* early return, no range test (Provided set when v = default)
  ELSE IF ~InDomain(p, v) THEN Rejected
  ELSE Set(v)

(* IntEarly: the pinned code also returned early when v equals the DECLARED default, leaving a different working  *)
(* value in place (a documented member accepted but not used); the repaired code does not.                        *)
ReadInt(p, v, IntEarly) ==
  IF IntEarly /\ REq(v, p.def) THEN Kept(p)
  ELSE IF REq(v, p.cur) THEN Kept(p)
  ELSE IF ~InDomain(p, v) THEN Rejected
  ELSE Set(v)

Read(p, v, IntEarly) == IF p.kind = "float" THEN ReadFloat(p, v) ELSE ReadInt(p, v, IntEarly)

(* ---- property C07 on one read ---- *)
RejectOK(p, v, r) == (~InDomain(p, v) /\ ~IsSentinel(p, v)) => r.outcome = "rejected"
AcceptOK(p, v, r) == InDomain(p, v) => (r.outcome = "accepted" /\ REq(r.value, v))
NeverAltered(p, v, r) == r.outcome = "accepted" => REq(r.value, v)        \* never clamped, defaulted or replaced
=============================================================================
