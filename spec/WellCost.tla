------------------------------- MODULE WellCost -------------------------------
(***************************************************************************)
(* The 17 well-drilling cost correlations (OptionList.WellDrillingCost-    *)
(* Correlation: cost = c2 z^2 + c1 z + c0 [USD], z in m; correlation 5 is  *)
(* the per-metre cost) -- the lemma C18 needs: within the validity window  *)
(* 500..7000 m the cost of a well does not decrease with depth, and the    *)
(* sub-500 m fallback to the per-metre cost is non-decreasing too.         *)
(* Every (correlation, depth) is dumped and replayed into the real         *)
(* calculate_cost_of_one_vertical_well.                                    *)
(***************************************************************************)
EXTENDS Integers, Sequences, Rat, TLC, Json

Coeff == <<
  <<"0.258496", "357.967", "738531.58">>, <<"0.240624", "646.1621", "503625.06">>, <<"0.248458", "935.8985", "626586.68">>,
  <<"0.217333", "1362.93", "301066.16">>, <<"0", "1000", "0">>,
  <<"0.13710", "129.61033", "1205587.57100">>, <<"0.00804", "455.60507", "921007.68680">>, <<"0.15340", "120.31700", "1431801.54400">>,
  <<"0.00854", "506.08357", "1057330.39000">>, <<"0.18927", "293.45174", "1326526.31300">>, <<"0.00315", "782.69676", "983620.25270">>,
  <<"0.19950", "296.13011", "1697867.70900">>, <<"0.00380", "838.90249", "1181947.04400">>, <<"0.00252", "439.44503", "590611.90110">>,
  <<"0.00719", "455.85233", "753377.73080">>, <<"-0.00240", "752.93946", "524337.65380">>, <<"0.00376", "762.52696", "765103.07690">> >>
PerMetre == "1000"       \* default All-in Vertical Drilling Costs, USD/m
Lo == 500
Hi == 7000

(* cost of one vertical well [MUSD] as calculate_cost_of_one_vertical_well computes it (adjustment factor 1) *)
Cost(c, z) == IF c = 5 \/ z < Lo THEN RDiv(RMul(PerMetre, z), 1000000)
              ELSE RDiv(RAdd3(RMul3(Coeff[c][1], z, z), RMul(Coeff[c][2], z), Coeff[c][3]), 1000000)
Slope(c, z) == RAdd(RMul3(2, Coeff[c][1], z), Coeff[c][2])

CONSTANTS Step, Dump
VARIABLES c, z
vars == <<c, z>>
Init == c \in 1..17 /\ z = 100
Deeper == /\ z + Step <= Hi + 1000 /\ z' = z + Step /\ UNCHANGED c
          /\ (Dump => PrintT(ToJson([c |-> c, z |-> z', cost |-> Cost(c, z')])))
Next == Deeper
Spec == Init /\ [][Next]_vars

\* the derivative is linear in z: non-negative at both ends of the window = non-negative throughout
SlopeNonNegativeInWindow == c # 5 => RLeq(0, Slope(c, Lo)) /\ RLeq(0, Slope(c, Hi))
\* on the grid: a deeper well inside the window (or below it, on the fallback) is never cheaper
NonDecreasingInWindow == (z >= Lo /\ z + Step <= Hi) => RLeq(Cost(c, z), Cost(c, z + Step))
NonDecreasingBelowWindow == (z + Step < Lo) => RLeq(Cost(c, z), Cost(c, z + Step))
=============================================================================
