SPECIFICATION TraceSpec
CHECK_DEADLOCK FALSE
