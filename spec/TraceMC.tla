------------------------------- MODULE TraceMC -------------------------------
(***************************************************************************)
(* Trace validation for C13 / C14: one recorded Monte Carlo run per trace. *)
(*  inputs   <<[name, dist, a, b, c]>> (distribution parameters, rationals)*)
(*  outputs  <<names>>        iterations                                   *)
(*  procs    one event sequence per worker process, in per-process         *)
(*           sequence-number order; events task_start, drawn (vals = the   *)
(*           sampled values, rationals; texts = as written), simulated,    *)
(*           lock_acquired (t), row_written (row, outs, names, vals,       *)
(*           replayed), lock_released (t)                                  *)
(*  file_rows  the data rows of the result file (texts)                    *)
(*  stats    per output: json minimum/maximum/median/mean/average/std and  *)
(*           the same figures as printed in the text block                 *)
(* Each process is stepped through MonteCarlo.tla's per-worker program     *)
(* counter; run-level clauses are evaluated at the end.                    *)
(***************************************************************************)
EXTENDS Integers, Sequences, FiniteSets, Rat, Verdict, TLC, Json, IOUtils

Traces == JsonDeserialize(IOEnv.TRACE_FILE)
VARIABLES tid, p, i, pc, v
vars == <<tid, p, i, pc, v>>
T == Traces[tid]

Init == tid = 1 /\ p = 1 /\ i = 1 /\ pc = "idle" /\ v = V0

(* the per-worker program of MonteCarlo.tla: which events are enabled from which control state *)
NextPc(c, ev) ==
  CASE ev = "task_start"    /\ c \in {"idle", "drawn"} -> "started"        \* from "drawn": the previous task failed in simulation
    [] ev = "drawn"         /\ c = "started"   -> "drawn"
    [] ev = "simulated"     /\ c = "drawn"     -> "simulated"
    [] ev = "lock_acquired" /\ c = "simulated" -> "locked"
    [] ev = "row_written"   /\ c = "locked"    -> "written"
    [] ev = "lock_released" /\ c \in {"written", "locked"} -> "idle"       \* from "locked": lock not obtained, row dropped
    [] OTHER -> "error"

InSupport(inp, x) ==
  CASE inp.dist = "uniform"    -> RLeq(inp.a, x) /\ RLeq(x, inp.b)
    [] inp.dist = "triangular" -> RLeq(inp.a, x) /\ RLeq(x, inp.c)
    [] inp.dist = "lognormal"  -> RGt(x, 0)
    [] inp.dist = "binomial"   -> RLeq(0, x) /\ RLeq(x, inp.a) /\ REq(x, RFloor(x))
    [] OTHER -> TRUE

EventClauses(ev) ==
  CASE ev.ev = "drawn" ->
         LET bad == {k \in 1..Len(T.inputs) : k > Len(ev.vals) \/ ~InSupport(T.inputs[k], ev.vals[k])}
         IN VJoin(Clause("C13_support", Len(ev.vals) = Len(T.inputs) /\ AllDef(ev.vals), bad = {},
                         [inputs |-> bad, sampled |-> ev.texts]),
                  Clause("C13_one_value_per_input", TRUE, Len(ev.vals) = Len(T.inputs), [sampled |-> ev.texts]))
    [] ev.ev = "row_written" ->
         VAll(<< Clause("C14_columns", TRUE,
                        Len(ev.outs) = Len(T.outputs) /\ ev.names = [k \in 1..Len(T.inputs) |-> T.inputs[k].name],
                        [row |-> ev.row]),
                 Clause("C14_row_carries_own_sample", TRUE, ev.vals = ev.drawn, [row |-> ev.row, drawn |-> ev.drawn]),
                 Clause("C14_replay", ev.replayed # <<"skipped">>, ev.replayed = ev.outs,
                        [row |-> ev.row, resimulated |-> ev.replayed]) >>)
    [] ev.ev = "lock_released" ->
         Clause("C13_row_not_dropped", TRUE, pc = "written", [process |-> p])
    [] OTHER -> V0

Event ==
  /\ tid <= Len(Traces) /\ p <= Len(T.procs) /\ i <= Len(T.procs[p])
  /\ LET ev == T.procs[p][i]
         np == NextPc(pc, ev.ev)
     IN /\ v' = VAll(<<v, Clause("fit_event_order", TRUE, np # "error", [process |-> p, position |-> i, event |-> ev.ev, from |-> pc]),
                       EventClauses(ev)>>)
        /\ pc' = IF np = "error" THEN pc ELSE np
  /\ i' = i + 1 /\ UNCHANGED <<tid, p>>
ProcDone == /\ tid <= Len(Traces) /\ p <= Len(T.procs) /\ i = Len(T.procs[p]) + 1
            /\ p' = p + 1 /\ i' = 1 /\ pc' = "idle" /\ UNCHANGED <<tid, v>>

(* ---- run-level clauses ---- *)
AllEvents == [pp \in 1..Len(T.procs) |-> T.procs[pp]]
Ev(kind) == {<<pp, k>> \in UNION {{<<q, j>> : j \in 1..Len(T.procs[q])} : q \in 1..Len(T.procs)} : T.procs[pp][k].ev = kind}
CountText(seq, x) == Cardinality({k \in 1..Len(seq) : seq[k] = x})

Med(sorted) == LET n == Len(sorted) IN IF n % 2 = 1 THEN sorted[(n + 1) \div 2] ELSE RDiv(RAdd(sorted[n \div 2], sorted[n \div 2 + 1]), 2)

StatClauses(k) ==
  LET st   == T.stats[k]
      xs   == st.values                \* this output's column of the rows, as rationals, sorted ascending by the harness
      n    == Len(xs)
      mean == RDiv(RSum(xs), n)
      var  == RDiv(RSum([j \in 1..n |-> RMul(RSub(xs[j], mean), RSub(xs[j], mean))]), n)
      sc   == RAdd(RSumAbs(xs), 1)
      near(a, b) == RClose(a, b, sc, "1e-9")
      shown(a, b) == RLeq(RAbs(RSub(a, b)), RAdd("0.005", RMul("1e-9", sc)))
      sorted == \A j \in 1..(n - 1) : RLeq(xs[j], xs[j + 1])
  IN VAll(<< Clause("C14_stats_min", n > 0 /\ sorted, near(st.json.minimum, xs[1]), [output |-> st.name]),
             Clause("C14_stats_max", n > 0 /\ sorted, near(st.json.maximum, xs[n]), [output |-> st.name]),
             Clause("C14_stats_median", n > 0 /\ sorted, near(st.json.median, Med(xs)), [output |-> st.name]),
             Clause("C14_stats_mean", n > 0, near(st.json.mean, mean) /\ near(st.json.average, mean), [output |-> st.name]),
             Clause("C14_stats_std", n > 0, RClose(RMul(st.json.std, st.json.std), var, RAdd(var, "1e-12"), "1e-6"),
                    [output |-> st.name, std |-> RDec(st.json.std, 12), variance |-> RDec(var, 12)]),
             Clause("C14_text_equals_json", n > 0,
                    /\ shown(st.text.minimum, st.json.minimum) /\ shown(st.text.maximum, st.json.maximum)
                    /\ shown(st.text.median, st.json.median) /\ shown(st.text.mean, st.json.mean)
                    /\ shown(st.text.average, st.json.average) /\ shown(st.text.std, st.json.std), [output |-> st.name]) >>)

Finish ==
  /\ tid <= Len(Traces) /\ p = Len(T.procs) + 1
  /\ LET drawn   == Ev("drawn")
         written == Ev("row_written")
         sims    == Ev("simulated")
         vecs    == {T.procs[e[1]][e[2]].cont : e \in drawn}         \* continuous components only
         texts   == {T.procs[e[1]][e[2]].row : e \in written}
         cnt(x)  == Cardinality({e \in written : T.procs[e[1]][e[2]].row = x})
         NS      == Len(T.sections)
         overlap == {<<a, b>> \in (1..NS) \X (1..NS) : a < b /\ T.sections[a].lo < T.sections[b].hi /\ T.sections[b].lo < T.sections[a].hi}
         run == VAll(<<
           Clause("C13_distinct", T.has_continuous, Cardinality(vecs) = Cardinality(drawn),
                  [iterations_drawn |-> Cardinality(drawn), distinct_vectors |-> Cardinality(vecs)]),
           Clause("C13_iterations_all_started", TRUE, Cardinality(Ev("task_start")) = T.iterations,
                  [started |-> Cardinality(Ev("task_start")), requested |-> T.iterations]),
           Clause("C13_rows", TRUE,
                  /\ Len(T.file_rows) = Cardinality(sims)
                  /\ \A x \in texts \cup {T.file_rows[k] : k \in 1..Len(T.file_rows)} : CountText(T.file_rows, x) = cnt(x),
                  [file_rows |-> Len(T.file_rows), simulated_ok |-> Cardinality(sims), rows_written |-> Cardinality(written)]),
           Clause("fit_lock_sections_do_not_overlap", TRUE, overlap = {}, [overlapping |-> Cardinality(overlap)]),
           \* a result file with rows is summarised: one block of statistics per requested output
           Clause("C14_stats_present", Len(T.file_rows) > 0, Len(T.stats) = Len(T.outputs),
                  [rows |-> Len(T.file_rows), outputs_requested |-> Len(T.outputs), outputs_summarised |-> Len(T.stats)]),
           IF Len(T.stats) > 0 THEN VAll([k \in 1..Len(T.stats) |-> StatClauses(k)]) ELSE V0 >>)
         fin == VJoin(v, run)
     IN PrintT(ToJson([tid |-> T.tid, e |-> fin.e, f |-> fin.f, s |-> fin.s, w |-> fin.w]))
  /\ tid' = tid + 1 /\ p' = 1 /\ i' = 1 /\ pc' = "idle" /\ v' = V0

Next == Event \/ ProcDone \/ Finish
Spec == Init /\ [][Next]_vars
=============================================================================
