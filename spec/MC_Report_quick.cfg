SPECIFICATION Spec
CONSTANTS
  MaxL = 3
  MaxCy = 2
  MaxTsy = 2
  Missing = {}
INVARIANT TypeOK
INVARIANT NeverCrashes
INVARIANT OneRowPerYear
INVARIANT PrefixOK
INVARIANT ProfilesPresent
INVARIANT LadderTotal
PROPERTY Terminates
CHECK_DEADLOCK FALSE
