------------------------------ MODULE TraceHipRa ------------------------------
(***************************************************************************)
(* Trace validation for C17: one HIP-RA-X run per trace: the input record  *)
(* h (HipRaDef) assembled from the run's own parameter values, and o, the  *)
(* run's output parameters.  One TLC step per clause group.                *)
(***************************************************************************)
EXTENDS HipRaDef, Verdict, TLC, Json, IOUtils
Traces == JsonDeserialize(IOEnv.TRACE_FILE)
Tol == "1e-9"
VARIABLES tid, v
vars == <<tid, v>>
T == Traces[tid]
Init == tid = 1 /\ v = V0
Same(name, got, want) == Clause(name, RDef(got) /\ RDef(want), RClose(got, want, RAbs(want), Tol), [observed |-> RDec(got, 12), expected |-> RDec(want, 12)])
Run ==
  /\ tid <= Len(Traces)
  /\ LET o == T.o  h == T.h
         res == VAll(<<
           Same("C17_volume", o.volume, RMul(h.area, h.thick)),
           Same("C17_vol_rock", o.volume_rock, RMul(o.volume, RSub(1, RDiv(h.por, 100)))),
           Same("C17_vol_fluid", o.volume_fluid, RMul3(o.volume, RDiv(h.por, 100), h.fluidfactor)),
           Same("C17_stored_sum", o.stored, RAdd(o.stored_rock, o.stored_fluid)),
           Clause("C17_avail_le_stored", RDef(o.available) /\ RDef(o.stored), RLeq(o.available, RMul(o.stored, "1.000000001")),
                  [available |-> RDec(o.available, 12), stored |-> RDec(o.stored, 12)]),
           Clause("C17_prod_le_avail", RDef(o.producible) /\ RDef(o.available), RLeq(o.producible, RMul(o.available, "1.000000001")),
                  [producible |-> RDec(o.producible, 12), available |-> RDec(o.available, 12)]),
           Same("C17_recovery_def", o.recovery, RDiv(o.producible, o.stored)),
           Same("C17_heat_per_area", o.heat_per_area, RDiv(o.producible, h.area)),
           Same("C17_heat_per_volume", o.heat_per_volume, RDiv(o.producible, o.volume)),
           Same("C17_elec_per_area", o.elec_per_area, RDiv(o.electricity, h.area)),
           Same("C17_elec_per_volume", o.elec_per_volume, RDiv(o.electricity, o.volume)) >>)
     IN PrintT(ToJson([tid |-> T.tid, e |-> res.e, f |-> res.f, s |-> res.s, w |-> res.w]))
  /\ tid' = tid + 1 /\ UNCHANGED v
Next == Run
Spec == Init /\ [][Next]_vars
=============================================================================
