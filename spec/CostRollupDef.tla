---------------------------- MODULE CostRollupDef ----------------------------
(***************************************************************************)
(* Capital and O&M roll-up (property C03): closed forms over a record c of *)
(* what a run reports (Economics.Calculate, "capital costs" .. "Add in the *)
(* AnnualLicenseEtc and TaxRelief").  Fields:                              *)
(*  flags   wellfixed injgiven stimfixed gathfixed plantfixed explfixed    *)
(*          totalcap oamwellfixed oamplantfixed oamwaterfixed totaloam     *)
(*          itcgiven chiller                                               *)
(*  inputs  in_well in_inj in_stim in_gath in_plant in_expl in_totalcap    *)
(*          in_oamwell in_oamplant in_oamwater in_totaloam ritc flat inc   *)
(*          grant annualfee relief                                         *)
(*  reported c1prod c1inj nprod ninj lateral cwell cstim cgath cplant      *)
(*          cexpl cpiping cdh ccap ritcvalue coamwell coamplant coamwater  *)
(*          chilleropex cdhoam coam redrill L                              *)
(***************************************************************************)
EXTENDS Integers, Sequences, Rat

Indirect == "1.05"      \* 5 % indirect cost on correlated (not user-fixed) well costs

WellSum(c) == RAdd(RMul(c.c1prod, c.nprod), IF c.ninj = 0 THEN "0" ELSE RMul(c.c1inj, c.ninj))
WellField(c) == IF c.wellfixed THEN WellSum(c) ELSE RMul(Indirect, RAdd(WellSum(c), c.lateral))

CapexBeforeCredits(c) ==
  IF c.totalcap THEN RNorm(c.in_totalcap)
  ELSE RSum(<<c.cexpl, c.cwell, c.cstim, c.cgath, c.cplant, c.cpiping, c.cdh>>)
ITC(c) == IF c.itcgiven THEN RMul(c.ritc, CapexBeforeCredits(c)) ELSE "0"
Capex(c) == RSub(RSub(RAdd(RSub(CapexBeforeCredits(c), ITC(c)), c.flat), c.inc), c.grant)
CapexScale(c) == RAdd(RSumAbs(<<c.cexpl, c.cwell, c.cstim, c.cgath, c.cplant, c.cpiping, c.cdh, c.in_totalcap>>),
                      RSumAbs(<<c.flat, c.inc, c.grant>>))

OamBeforeExtras(c) ==
  IF c.totaloam THEN RNorm(c.in_totaloam)
  ELSE RSum(<<c.coamwell, c.coamplant, c.coamwater, IF c.chiller THEN c.chilleropex ELSE "0", c.cdhoam>>)
Redrilling(c) == IF c.redrill > 0 THEN RDiv(RMul(RAdd(c.cwell, c.cstim), c.redrill), c.L) ELSE "0"
Oam(c) == RSub(RAdd3(OamBeforeExtras(c), Redrilling(c), c.annualfee), c.relief)
OamScale(c) == RAdd(RSumAbs(<<c.coamwell, c.coamplant, c.coamwater, c.chilleropex, c.cdhoam, c.in_totaloam>>),
                    RSumAbs(<<Redrilling(c), c.annualfee, c.relief>>))
=============================================================================
