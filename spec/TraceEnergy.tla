----------------------------- MODULE TraceEnergy -----------------------------
(***************************************************************************)
(* Trace validation for C02.  One recorded snapshot per run, taken right   *)
(* after the surface plant's Calculate (before add-ons mutate the annual   *)
(* series).  Phases per trace: Step(t) for every time step, YearEnd(y) for *)
(* every year, DHYear(y) for district heating, Finish.                     *)
(*                                                                         *)
(* plant: "power" | "heat" | "heatpump" | "chiller" | "dh"                 *)
(* cogen: "none" | "elec" | "topping" | "bottoming" | "parallel"           *)
(***************************************************************************)
EXTENDS EnergyDef, Verdict, TLC, Json, IOUtils

Traces == JsonDeserialize(IOEnv.TRACE_FILE)
Tol == "1e-9"

VARIABLES tid, ph, i, v
vars == <<tid, ph, i, v>>
T == Traces[tid]
NT == Len(T.tprod)

Init == tid = 1 /\ ph = "step" /\ i = 0 /\ v = V0

Same(name, got, want, scale, wit) ==
  Clause(name, RDef(got) /\ RDef(want), RClose(got, want, scale, Tol),
         [observed |-> RDec(got, 15), expected |-> RDec(want, 15)] @@ wit)

At(s, t) == s[t + 1]
Has(f) == f \in DOMAIN T /\ Len(T[f]) = NT

StepClauses(t) ==
  LET w    == [step |-> t]
      hx   == At(T.hext, t)
      want == Extracted(T.nprod, T.flow, T.cp, At(T.tprod, t), T.tinj)
      sc   == RDiv(RMul(RMul3(T.nprod, T.flow, T.cp), RAdd(RAbs(At(T.tprod, t)), RAbs(T.tinj))), 1000000)
      ex   == Same("C02_extract", hx, want, sc, w)
      net  == IF T.plant = "power" /\ Has("net") /\ Has("elec") /\ Has("pump")
              THEN Same("C02_net", At(T.net, t), RSub(At(T.elec, t), At(T.pump, t)), RAdd(RAbs(At(T.elec, t)), RAbs(At(T.pump, t))), w)
              ELSE V0
      hp   == IF Has("hprod") THEN At(T.hprod, t) ELSE "undef"
      use  == CASE T.plant \in {"heat", "dh"} -> Same("C02_useful_heat", hp, RMul(T.eta, hx), RAbs(hx), w)
                [] T.plant = "heatpump" ->
                     VJoin(Same("C02_useful_heatpump", hp, RMul(RDiv(RMul(hx, T.cop), RSub(T.cop, 1)), T.eta), RAbs(RDiv(RMul(hx, T.cop), RSub(T.cop, 1))), w),
                           Same("C02_heatpump_electricity", At(T.hpelec, t), RDiv(hx, RSub(T.cop, 1)), RAbs(RDiv(hx, RSub(T.cop, 1))), w))
                [] T.plant = "chiller" ->
                     VJoin(Same("C02_useful_chiller_heat", hp, hx, RAbs(hx), w),
                           Same("C02_useful_cooling", At(T.cool, t), RMul3(hx, T.cop, T.eta), RAbs(RMul(hx, T.cop)), w))
                [] T.plant = "power" ->
                     LET fl   == At(T.firstlaw, t)
                         hete == RDiv(At(T.net, t), fl)     \* heat extracted towards electricity (first-law efficiency = net / it)
                         okfl == RDef(fl) /\ ~REq(fl, 0) /\ ~REq(At(T.net, t), 0)
                     IN CASE T.cogen = "elec" ->
                               IF okfl THEN Same("C02_conservation_elec", hete, hx, RAbs(hx), w) ELSE V0
                          [] T.cogen = "topping" ->
                               IF okfl THEN Same("C02_conservation_topping", RAdd(RDiv(hp, T.eta), hete), hx, RAdd(RAbs(hx), RAbs(hete)), w) ELSE V0
                          [] T.cogen = "bottoming" ->
                               VJoin(Same("C02_useful_bottoming", hp,
                                          RMul(T.eta, Extracted(T.nprod, T.flow, T.cp, At(T.tprod, t), T.tbottom)), sc, w),
                                     IF okfl THEN Same("C02_conservation_bottoming", RAdd(RDiv(hp, T.eta), hete), hx, RAdd(RAbs(hx), RAbs(hete)), w) ELSE V0)
                          [] T.cogen = "parallel" ->
                               VJoin(Same("C02_useful_parallel", hp, RMul3(T.eta, T.chp, hx), RAbs(hx), w),
                                     IF okfl THEN Same("C02_conservation_parallel", hete, RMul(RSub(1, T.chp), hx), RAbs(hx), w) ELSE V0)
                          [] OTHER -> V0
                [] OTHER -> V0
  IN VAll(<<ex, net, use>>)

Step == /\ tid <= Len(Traces) /\ ph = "step" /\ i < NT
        /\ v' = VJoin(v, StepClauses(i))
        /\ i' = i + 1 /\ UNCHANGED <<tid, ph>>
StepsDone == /\ tid <= Len(Traces) /\ ph = "step" /\ i = NT
             /\ ph' = "year" /\ i' = 0 /\ UNCHANGED <<tid, v>>

Util(y) == IF T.plant = "dh" THEN T.utilarr[y + 1] ELSE T.util

AnnualClause(name, series, annual, y) ==
  IF ~(series \in DOMAIN T /\ annual \in DOMAIN T) \/ Len(T[series]) # NT \/ Len(T[annual]) # T.L THEN V0
  ELSE LET want == Annual(T[series], y, T.n, Util(y))
           got  == T[annual][y + 1]
           sl   == Slice(T[series], y, T.n)
           prev == IF Len(sl) = 1 /\ y * T.n >= 1 THEN RAbs(T[series][y * T.n]) ELSE "0"   \* the delta's other operand
           sc   == RMul3(RMul(RAdd(RMul(2, RSumAbs(sl)), prev), HoursPerYear), 1000, RAbs(Util(y)))
           full == FullSlice(T[series], y, T.n)
       IN Same((IF full THEN "C02_annual_" ELSE "fit_annual_lastyear_") \o name, got, want, sc, [year |-> y])

YearClauses(y) ==
  VAll(<< AnnualClause("extracted", "hext", "hextkwh", y),
          AnnualClause("pumping", "pump", "pumpkwh", y),
          IF T.plant = "power" THEN VJoin(AnnualClause("gross", "elec", "grosskwh", y), AnnualClause("net", "net", "netkwh", y)) ELSE V0,
          IF T.cogen # "elec" THEN AnnualClause("heat", "hprod", "hprodkwh", y) ELSE V0,
          IF T.plant = "chiller" THEN AnnualClause("cooling", "cool", "coolkwh", y) ELSE V0,
          IF T.plant = "heatpump" THEN AnnualClause("heatpump_electricity", "hpelec", "hpeleckwh", y) ELSE V0,
          IF Len(T.remaining) = T.L /\ Len(T.hextkwh) = T.L
          THEN Same("C02_heatcontent", T.remaining[y + 1], Remaining(T.initial, T.hextkwh, y),
                    RAdd(RAbs(T.initial), RDiv(RMul(RSumAbs(SubSeq(T.hextkwh, 1, y + 1)), 3600000), "1000000000000000")), [year |-> y])
          ELSE V0 >>)

YearEnd == /\ tid <= Len(Traces) /\ ph = "year" /\ i < T.L
           /\ v' = VJoin(v, YearClauses(i))
           /\ i' = i + 1 /\ UNCHANGED <<tid, ph>>
YearsDone == /\ tid <= Len(Traces) /\ ph = "year" /\ i = T.L
             /\ ph' = (IF T.plant = "dh" THEN "dh" ELSE "fin") /\ i' = 0 /\ UNCHANGED <<tid, v>>

(* district heating, year y: every day geothermal + peaking supply = demand / 24 and geothermal supply does not     *)
(* exceed what the wells deliver (the larger of the two samples bracketing the day: linear interpolation lies        *)
(* between its neighbours)                                                                                           *)
DHClauses(y) ==
  LET day(j)  == y * 365 + j
      geo(j)  == T.dhgeo[day(j) + 1]
      ng(j)   == T.dhng[day(j) + 1]
      dem(j)  == RDiv(T.demand[j + 1], 24)
      \* sample index at or before the day, and the next one (clamped)
      lo(j)   == Min(((y * 365 + j) * T.n) \div 365, NT - 1)
      hi(j)   == Min(lo(j) + 1, NT - 1)
      cap(j)  == RMax(At(T.hprod, lo(j)), At(T.hprod, hi(j)))
      badsum  == {j \in 0..364 : ~RClose(RAdd(geo(j), ng(j)), dem(j), RAbs(dem(j)), Tol)}
      badcap  == {j \in 0..364 : ~RLeq(geo(j), RAdd(cap(j), RMul(Tol, RAbs(cap(j)))))}
      def     == Len(T.dhgeo) = 365 * T.L /\ Len(T.dhng) = 365 * T.L /\ Len(T.demand) = 365
  IN IF ~def THEN Clause("C02_dh_balance", FALSE, TRUE, <<>>)
     ELSE VJoin(Clause("C02_dh_balance", TRUE, badsum = {}, [year |-> y, days |-> badsum]),
                Clause("C02_dh_geothermal_le_wells", TRUE, badcap = {}, [year |-> y, days |-> badcap]))

DHYear == /\ tid <= Len(Traces) /\ ph = "dh" /\ i < T.L
          /\ v' = VJoin(v, DHClauses(i))
          /\ i' = i + 1 /\ UNCHANGED <<tid, ph>>
DHDone == /\ tid <= Len(Traces) /\ ph = "dh" /\ i = T.L
          /\ ph' = "fin" /\ UNCHANGED <<tid, i, v>>

Finish == /\ tid <= Len(Traces) /\ ph = "fin"
          /\ LET rows == Clause("C02_rows", TRUE, Len(T.hext) = NT /\ NT = T.L * T.n /\ Len(T.hextkwh) = T.L,
                                [steps |-> NT, L |-> T.L, n |-> T.n])
                 \* what is reported at the end of Model.Calculate() is what balanced when the surface plant finished: the economics
                 \* modules (add-ons, S-DAC-GT) may add to the energy SOLD, never to the flows extracted, pumped or remaining
                 changed == IF "final" \in DOMAIN T THEN {k \in DOMAIN T.final : T.final[k] # T[k]} ELSE {}
                 kept == Clause("C02_reported_unchanged", "final" \in DOMAIN T, changed = {}, [series |-> changed])
                 fin == VJoin(VJoin(v, rows), kept)
             IN PrintT(ToJson([tid |-> T.tid, e |-> fin.e, f |-> fin.f, s |-> fin.s, w |-> fin.w]))
          /\ tid' = tid + 1 /\ ph' = "step" /\ i' = 0 /\ v' = V0

Next == Step \/ StepsDone \/ YearEnd \/ YearsDone \/ DHYear \/ DHDone \/ Finish
Spec == Init /\ [][Next]_vars
=============================================================================
