----------------------------- MODULE TraceParser -----------------------------
(***************************************************************************)
(* Trace validation for C10: one report per trace.                         *)
(*  fields: for every scalar field the client exposes                      *)
(*    [category, name, client ("none" | [value, unit]), exact (the value / *)
(*     unit tokens of the exact-label lines of the field's own section, by *)
(*     an independent lexical tokenisation), distinct (how many different  *)
(*     lines match the client's substring pattern anywhere in the report)] *)
(*  tables: [name, client (rows of cells), report (rows of cells), arity]  *)
(*  csv / json: pre-flattened sequences to compare                         *)
(* One TLC step per field, per table, then the whole-report clauses.       *)
(***************************************************************************)
EXTENDS Integers, Sequences, FiniteSets, Rat, Verdict, TLC, Json, IOUtils
Traces == JsonDeserialize(IOEnv.TRACE_FILE)
VARIABLES tid, ph, i, v
vars == <<tid, ph, i, v>>
T == Traces[tid]
Init == tid = 1 /\ ph = "fields" /\ i = 1 /\ v = V0

SameTok(c, e) == /\ (c.value = e.value \/ (RDef(c.value) /\ RDef(e.value) /\ REq(c.value, e.value)))
                 /\ c.unit = e.unit

Field ==
  /\ tid <= Len(Traces) /\ ph = "fields" /\ i <= Len(T.fields)
  /\ LET f == T.fields[i]
         w == [category |-> f.category, field |-> f.name]
     IN v' = VAll(<< v,
          IF ~f.client.present
          \* a figure the report prints under that exact label in that section must be returned
          THEN Clause("C10_field_returned", TRUE, Len(f.exact) = 0, w @@ [printed |-> f.exact])
          ELSE Clause("C10_field", TRUE, \E k \in 1..Len(f.exact) : SameTok(f.client, f.exact[k]),
                      w @@ [client |-> f.client, printed |-> f.exact]),
          \* lines matching the client's pattern must not differ (set.pop() would pick by hash order)
          Clause("C10_unambiguous", f.distinct > 0, f.distinct = 1, w @@ [differing_lines |-> f.distinct]) >>)
  /\ i' = i + 1 /\ UNCHANGED <<tid, ph>>
FieldsDone == /\ tid <= Len(Traces) /\ ph = "fields" /\ i = Len(T.fields) + 1
              /\ ph' = "tables" /\ i' = 1 /\ UNCHANGED <<tid, v>>

Table ==
  /\ tid <= Len(Traces) /\ ph = "tables" /\ i <= Len(T.tables)
  /\ LET t == T.tables[i]
         w == [table |-> t.name]
         rowsok == Len(t.client) = Len(t.report)
         badcells == IF rowsok THEN {<<r, c>> \in (1..Len(t.report)) \X (1..t.arity) :
                                       ~(c <= Len(t.client[r]) /\ c <= Len(t.report[r]) /\
                                         (t.client[r][c] = t.report[r][c] \/ REq(t.client[r][c], t.report[r][c])))}
                     ELSE {}
     IN v' = VAll(<< v,
          Clause("C10_table_rows", TRUE, rowsok, w @@ [client_rows |-> Len(t.client), report_rows |-> Len(t.report)]),
          Clause("C10_table_arity", TRUE, t.header_arity = t.arity /\ \A r \in 1..Len(t.client) : Len(t.client[r]) = t.arity,
                 w @@ [header |-> t.header_arity, row |-> t.arity]),
          Clause("C10_table_cells", rowsok, badcells = {}, w @@ [cells |-> badcells]) >>)
  /\ i' = i + 1 /\ UNCHANGED <<tid, ph>>
Finish ==
  /\ tid <= Len(Traces) /\ ph = "tables" /\ i = Len(T.tables) + 1
  /\ LET fin == VAll(<< v,
           Clause("C10_csv", TRUE, T.csv_rows = T.flat_rows, [csv |-> Len(T.csv_rows), flattened |-> Len(T.flat_rows)]),
           Clause("C10_json", Len(T.json) > 0, \A k \in 1..Len(T.json) : T.json[k].ok, [quantities |-> {T.json[k].name : k \in {j \in 1..Len(T.json) : ~T.json[j].ok}}]),
           Clause("C10_stable", Len(T.seeds) > 1, \A k \in 1..Len(T.seeds) : T.seeds[k] = T.seeds[1], [digests |-> T.seeds]) >>)
     IN PrintT(ToJson([tid |-> T.tid, e |-> fin.e, f |-> fin.f, s |-> fin.s, w |-> fin.w]))
  /\ tid' = tid + 1 /\ ph' = "fields" /\ i' = 1 /\ v' = V0
Next == Field \/ FieldsDone \/ Table \/ Finish
Spec == Init /\ [][Next]_vars
=============================================================================
