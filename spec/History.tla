------------------------------- MODULE History -------------------------------
(***************************************************************************)
(* "A result is a function of the abstract input" (C08, C12, C20, and the  *)
(* pair/ladder properties).  A history is a sequence of completed runs;    *)
(* each run carries the identity of its ABSTRACT input (the last-wins      *)
(* parameter set, whatever the file layout, entry point, directory, hash   *)
(* seed or what ran before) and a digest of its numeric result.            *)
(* M1: any history over few inputs; the memo of a pure function never      *)
(* changes once set.  TraceHistory.tla checks recorded histories.          *)
(***************************************************************************)
EXTENDS Integers, Sequences, TLC

CONSTANTS Inputs, MaxRuns, Pure      \* Pure = FALSE lets a run's result depend on the previous run (contamination)

VARIABLES runs, memo, last
vars == <<runs, memo, last>>

Result(i, prev) == IF Pure THEN <<"r", i>> ELSE <<"r", i, prev>>

Init == runs = <<>> /\ memo = [i \in {} |-> <<>>] /\ last = "none"

Run(i) == /\ Len(runs) < MaxRuns
          /\ LET r == Result(i, last) IN
             /\ runs' = Append(runs, [input |-> i, result |-> r])
             /\ memo' = IF i \in DOMAIN memo THEN memo ELSE [x \in DOMAIN memo \cup {i} |-> IF x = i THEN r ELSE memo[x]]
          /\ last' = i
Next == \E i \in Inputs : Run(i)
Spec == Init /\ [][Next]_vars

\* the property: equal abstract inputs => equal results, whatever happened in between
SameInputSameResult == \A a, b \in 1..Len(runs) : runs[a].input = runs[b].input => runs[a].result = runs[b].result
=============================================================================
