SPECIFICATION Spec
CONSTANTS MaxL = 2  MaxE = 2  MaxGain = 1  MaxC = 2
INVARIANT Accounting
INVARIANT Untouched
INVARIANT RunningSums
INVARIANT Monotone
PROPERTY PlantFixed
PROPERTY OnlyThere
PROPERTY Ends
CHECK_DEADLOCK FALSE
