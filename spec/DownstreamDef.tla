--------------------------- MODULE DownstreamDef ---------------------------
(***************************************************************************)
(* Definitions shared by Downstream.tla (M1) and TraceDownstream.tla (M3): *)
(* what the two downstream economics modules - add-ons                     *)
(* (EconomicsAddOns.Calculate) and S-DAC-GT (EconomicsS_DAC_GT.Calculate)  *)
(* - do to the plant's annual energy series and what they report.          *)
(* Beyond the listed properties (DESIGN.md section 9): C02 stops at the    *)
(* surface plant, C01/C04 start from the series the economics finally      *)
(* sees; this module is the step in between.                               *)
(***************************************************************************)
EXTENDS Rat, Naturals, Sequences

(* -------- add-ons -------------------------------------------------------*)
(* which of the plant's series an end-use lets the add-ons / S-DAC-GT touch *)
TouchesElec(enduse) == enduse # "HEAT"
TouchesHeat(enduse) == enduse # "ELECTRICITY"

(* add-on revenue of operating year y (1-based), MUSD; prices in USD/kWh *)
AddOnRevenue(enduse, egain, hgain, pe, ph, profit, opex) ==
  RSub(RAdd3(RDiv(RMul(IF TouchesElec(enduse) THEN egain ELSE 0, pe), 1000000),
             RDiv(RMul(IF TouchesHeat(enduse) THEN hgain ELSE 0, ph), 1000000), profit), opex)

(* project cash flow of operating year y with add-ons, MUSD *)
ProjectFlow(enduse, addrev, enet, eheat, pe, ph, coam) ==
  RSub(RAdd(addrev, RDiv(RAdd(RMul(IF TouchesElec(enduse) THEN enet ELSE 0, pe),
                              RMul(IF TouchesHeat(enduse) THEN eheat ELSE 0, ph)), 1000000)), coam)

RECURSIVE Running(_)
Running(s) == IF Len(s) = 0 THEN << >>
              ELSE LET r == Running(SubSeq(s, 1, Len(s) - 1))
                   IN Append(r, IF Len(r) = 0 THEN s[Len(s)] ELSE RAdd(r[Len(r)], s[Len(s)]))

(* -------- S-DAC-GT ------------------------------------------------------*)
CRF(waccPct, L) == LET w == RDiv(waccPct, 100)
                       p == RPow(RAdd(1, w), L)
                   IN RDiv(RMul(w, p), RSub(p, 1))

CapexPerTonne(capex, crf, cmult) == RMul3(capex, crf, cmult)
CostPerTonne(capexpt, opex, storage, transport) == RAdd4(capexpt, opex, storage, transport)
HeatPerTonne(elec, eff, therm) == RAdd(RDiv(elec, eff), therm)
Captured(split, hextkwh, perTonne) == RDiv(RMul(split, hextkwh), perTonne)

(* the NREL-2016-based levelised cost of geothermal heat used by S-DAC-GT (geo_therm_cost) *)
Inflation == "1.189"
DrillEff  == "1.61"
H2OCap    == "0.001163"
CapFactor == "0.9"
NRELDepth == 4101
GeoPumpKWh(depthft) == RMul(depthft, RDiv(1980215, NRELDepth))
GeoThermTotal(tprod, tinj, flow) == RMul(RMul(RMul3(RSub(tprod, tinj), flow, H2OCap), 3600), RMul(8760, CapFactor))
GeoLCOH(power, cmult, omult, depthft, tprod, tinj, flow, crf) ==
  LET capex  == RAdd(RMul3(3712500, Inflation, cmult),
                     RDiv(RMul(depthft, RDiv(RMul(2112500, Inflation), NRELDepth)), DrillEff))
      opex   == RAdd4(RMul(GeoPumpKWh(depthft), power), RMul3(50000, Inflation, omult), RMul3(100000, Inflation, omult),
                      RMul(RMul(RDiv(RMul(127130, Inflation), NRELDepth), depthft), omult))
  IN RDiv(RAdd(RMul(capex, crf), opex), GeoThermTotal(tprod, tinj, flow))
GeoRatio(depthft, tprod, tinj, flow) == RDiv(GeoPumpKWh(depthft), GeoThermTotal(tprod, tinj, flow))

LCOD(capexpt, opex, power, heatcost, storage, transport) == RAdd(RAdd3(capexpt, opex, power), RAdd3(heatcost, storage, transport))
=============================================================================
