-------------------------------- MODULE Energy --------------------------------
(***************************************************************************)
(* M1 for C02: the per-year slice/trapezoid machine of                     *)
(* SurfacePlant.integrate_time_series_slice and the cumulative heat        *)
(* content, explored over every small (L, n, series).  One action per year *)
(* (the loop body "for i in range(0, plant_lifetime)").                    *)
(***************************************************************************)
EXTENDS EnergyDef, TLC, Json

CONSTANTS MaxL, MaxN, Vals, Utils, Dump

VARIABLES pc, L, n, s, util, y, annual, remaining
vars == <<pc, L, n, s, util, y, annual, remaining>>

Init == /\ pc = "years" /\ y = 0 /\ annual = <<>> /\ remaining = <<>>
        /\ L \in 1..MaxL /\ n \in 1..MaxN /\ util \in Utils
        /\ \E f \in [1..(MaxL * MaxN) -> Vals] : s = SubSeq(f, 1, L * n)

Year == /\ pc = "years" /\ y < L
        /\ annual' = Append(annual, Annual(s, y, n, util))
        /\ y' = y + 1 /\ UNCHANGED <<pc, L, n, s, util, remaining>>
HeatContent == /\ pc = "years" /\ y = L
               /\ remaining' = [k \in 1..L |-> Remaining("1000", annual, k - 1)]
               /\ pc' = "done"
               /\ (Dump => PrintT(ToJson([L |-> L, n |-> n, s |-> s, util |-> util, annual |-> annual, remaining |-> remaining])))
               /\ UNCHANGED <<L, n, s, util, y, annual>>
Next == Year \/ HeatContent
Spec == Init /\ [][Next]_vars

\* every year has at least one sample and at most n + 1
SliceNeverEmpty == \A k \in 0..(L - 1) : Len(Slice(s, k, n)) >= 1 /\ Len(Slice(s, k, n)) <= n + 1
\* consecutive years share exactly their boundary sample; no sample is skipped
SlicesTile == \A k \in 0..(L - 2) : SliceHi(s, k, n) = SliceLo(k + 1, n)
\* whole years add up to the trapezoid over the whole span (additivity of the integral)
WholeYearsAddUp ==
  pc = "done" /\ L >= 2 =>
    LET span == SubSeq(s, 1, (L - 1) * n + 1)
    IN REq(RSum(SubSeq(annual, 1, L - 1)), RMul3(Trapz(span, RDiv(HoursPerYear, n)), 1000, util))
\* a constant power gives power x 8760 h x util in every year, the short last year included
ConstantSeries ==
  pc = "done" /\ (\A k \in 1..Len(s) : s[k] = s[1]) =>
    \A k \in 1..L : REq(annual[k], RMul3(RMul(s[1], HoursPerYear), 1000, util))
\* annual figure bounded by min/max power of the year's samples (full years)
Bounded ==
  pc = "done" => \A k \in 0..(L - 1) : FullSlice(s, k, n) =>
    \E a \in 1..Len(Slice(s, k, n)), b \in 1..Len(Slice(s, k, n)) :
       /\ RLeq(RMul3(RMul(Slice(s, k, n)[a], HoursPerYear), 1000, util), annual[k + 1])
       /\ RLeq(annual[k + 1], RMul3(RMul(Slice(s, k, n)[b], HoursPerYear), 1000, util))
\* remaining heat never increases while extraction is non-negative -- except through the single-sample rule: with
\* one step per year the last year is extrapolated linearly and a series falling towards zero (2, 2, 0) yields a
\* NEGATIVE last annual figure (TLC counterexample, recorded in DESIGN.md as an observation on the design)
RemainingMonotone == pc = "done" => \A k \in 1..(L - 1) : Len(Slice(s, k, n)) >= 2 => RLeq(remaining[k + 1], remaining[k])
=============================================================================
