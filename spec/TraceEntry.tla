------------------------------ MODULE TraceEntry ------------------------------
(***************************************************************************)
(* Trace validation for C20: every cell of Entry.tla's matrix executed for *)
(* real.  Event: entry, arg, dir, input, failing (BOOLEAN), signal ("ok" | *)
(* "exit-nonzero" | "raised"), created (paths relative to the sandbox, as  *)
(* sequences of segments), expect_files (from the spec's OutPath), digest  *)
(* (report), json (digest of the JSON side file), ref / refjson (the       *)
(* direct pipeline's result for that input).                               *)
(***************************************************************************)
EXTENDS Integers, Sequences, Verdict, TLC, Json, IOUtils

Traces == JsonDeserialize(IOEnv.TRACE_FILE)
VARIABLES tid, v
vars == <<tid, v>>
T == Traces[tid]
SetOf(s) == {s[k] : k \in 1..Len(s)}

Init == tid = 1 /\ v = V0
Cell ==
  /\ tid <= Len(Traces)
  /\ LET w == [entry |-> T.entry, arg |-> T.arg, dir |-> T.dir, input |-> T.input, hist |-> T.hist]
         res == VAll(<<
           Clause("C20_same", ~T.failing /\ T.signal = "ok", T.digest = T.ref, w),
           Clause("C20_json_same", ~T.failing /\ T.signal = "ok" /\ T.json # "n/a", T.json = T.refjson, w),
           Clause("C20_where", ~T.failing /\ T.entry = "cli", SetOf(T.created) = SetOf(T.expect_files),
                  w @@ [created |-> T.created, expected |-> T.expect_files]),
           Clause("C20_ok_signal", ~T.failing, T.signal = "ok", w @@ [signal |-> T.signal]),
           Clause("C20_fail", T.failing, T.signal \in {"exit-nonzero", "raised"} /\ SetOf(T.created) = {},
                  w @@ [signal |-> T.signal, created |-> T.created]) >>)
     IN PrintT(ToJson([tid |-> T.tid, e |-> res.e, f |-> res.f, s |-> res.s, w |-> res.w]))
  /\ tid' = tid + 1 /\ UNCHANGED v
Next == Cell
Spec == Init /\ [][Next]_vars
=============================================================================
