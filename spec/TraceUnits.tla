------------------------------ MODULE TraceUnits ------------------------------
(***************************************************************************)
(* Trace validation for C06 with the exact factors of Units.tla.           *)
(* kind "input":  one real read of `name, x user` (Model() +               *)
(*   read_parameters + the pre-print unit pass): outcome, used (the number *)
(*   Calculate will read, in useunit), echo (value, unit label) -- the     *)
(*   events ReadWithUnit / Use / ConvertBack / Echo of UnitTrack.tla       *)
(* kind "output": one `Units:<output>, <req>` directive against the same   *)
(*   run without it: outcome, lines that changed (each with old/new value  *)
(*   and unit tokens and whether it is a line of that output)              *)
(***************************************************************************)
EXTENDS Units, Verdict, TLC, Json, IOUtils
Traces == JsonDeserialize(IOEnv.TRACE_FILE)
VARIABLES tid, v
vars == <<tid, v>>
T == Traces[tid]
Init == tid = 1 /\ v = V0

InputClauses ==
  LET w == [parameter |-> T.name, written |-> T.text, preferred |-> T.pref] IN
  VAll(<<
    Clause("C06_accepts", TRUE, T.outcome = "ok", w @@ [error |-> T.error]),
    Clause("C06_compute", T.outcome = "ok" /\ Known(T.useunit), SameQuantity(T.used, T.useunit, T.x, T.user),
           w @@ [used |-> RDec(T.used, 12), in_unit |-> T.useunit, expected |-> RDec(Convert(T.x, T.user, T.useunit), 12)]),
    Clause("C06_echo", T.outcome = "ok" /\ T.echoed, Known(T.echo_unit) /\ SameQuantity(T.echo_value, T.echo_unit, T.x, T.user),
           w @@ [echo |-> RDec(T.echo_value, 12), echo_unit |-> T.echo_unit]) >>)

LineOK(l) == /\ l.own /\ l.new_unit = T.req /\ Known(l.old_unit) /\ Convertible(l.old_unit, T.req)
             /\ RLeq(RAbs(RSub(l.new_value, Convert(l.old_value, l.old_unit, T.req))),
                     RAdd(l.slack, RMul("1e-9", RAbs(l.new_value))))
OutputClauses ==
  LET w == [output |-> T.name, requested |-> T.req, preferred |-> T.pref] IN
  VAll(<<
    Clause("C06_output_accepts", TRUE, T.outcome = "ok", w @@ [error |-> T.error]),
    Clause("C06_output_only_itself", T.outcome = "ok", \A k \in 1..Len(T.changed) : T.changed[k].own,
           w @@ [foreign_lines |-> {T.changed[k].label : k \in {j \in 1..Len(T.changed) : ~T.changed[j].own}}]),
    Clause("C06_output_value_and_label", T.outcome = "ok" /\ \E k \in 1..Len(T.changed) : T.changed[k].own,
           \A k \in 1..Len(T.changed) : T.changed[k].own => LineOK(T.changed[k]),
           w @@ [lines |-> {T.changed[k].label : k \in {j \in 1..Len(T.changed) : T.changed[j].own /\ ~LineOK(T.changed[j])}}]) >>)

Case == /\ tid <= Len(Traces)
        /\ LET res == IF T.kind = "input" THEN InputClauses ELSE OutputClauses
           IN PrintT(ToJson([tid |-> T.tid, e |-> res.e, f |-> res.f, s |-> res.s, w |-> res.w]))
        /\ tid' = tid + 1 /\ UNCHANGED v
Next == Case
Spec == Init /\ [][Next]_vars
=============================================================================
