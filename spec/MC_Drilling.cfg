SPECIFICATION Spec
CONSTANTS
  Depths = {"1/2", "2", "3"}
  Lengths = {"1/4", "1"}
  Counts = {0, 1, 2, 3}
  Dump = TRUE
INVARIANT TotalIsSum
INVARIANT NoLateralsWhenVertical
INVARIANT MonotoneInDepth
CHECK_DEADLOCK FALSE
