--------------------------- MODULE TraceSchedule ---------------------------
(***************************************************************************)
(* Trace validation for C16 (code -> spec).  A batch of recorded runs is   *)
(* read from $TRACE_FILE.  kind = "run": per product the schedule inputs   *)
(* and the price series the run reported (zero-padded for construction);   *)
(* one TLC step per (product, project year).  kind = "pair": two runs that *)
(* differ only in ITC / grants / incentives / fees / tax relief.           *)
(* Clauses never disable a step (Verdict.tla); one JSON verdict per trace. *)
(***************************************************************************)
EXTENDS Integers, Sequences, Rat, Verdict, TLC, Json, IOUtils

Traces == JsonDeserialize(IOEnv.TRACE_FILE)
Tol == "1e-9"

VARIABLES tid, k, i, v
vars == <<tid, k, i, v>>

T == Traces[tid]
Max(a, b) == IF a >= b THEN a ELSE b

(* closed form = the property (same text as Schedule.tla) *)
Base(y, st, en, es, rr) == RMin(RAdd(st, RMul(Max(0, y - es), rr)), en)
PTCOf(y, d, p, a, inf) == IF y < d THEN (IF a THEN RMul(p, RPow(RAdd(1, inf), y)) ELSE RNorm(p)) ELSE "0"

Init == tid = 1 /\ k = 1 /\ i = 0 /\ v = V0

YearClauses(pr, y) ==
  LET obs  == pr.series[y + 1]
      N    == T.L + T.Cy
  IN IF y < T.Cy
     THEN Clause("C16_pad", RDef(obs), REq(obs, 0), [product |-> pr.name, year |-> y, observed |-> RDec(obs, 12)])
     ELSE LET yy   == y - T.Cy
              b    == Base(yy, pr.start, pr.end, pr.s, pr.r)
              c1   == PTCOf(yy, T.dur, pr.P, T.adj, T.infl)
              c2   == PTCOf(yy, T.dur, pr.Palt, T.adj, T.infl)
              sc   == RAdd4(RAbs(pr.start), RAbs(RMul(Max(0, yy - pr.s), pr.r)), RAbs(c1), RAbs(pr.end))
              def  == RDef(obs) /\ RDef(b) /\ RDef(c1)
          IN VJoin(
               Clause("C16_price", def,
                      RClose(obs, RAdd(b, c1), sc, Tol) \/ RClose(obs, RAdd(b, c2), sc, Tol),
                      [product |-> pr.name, year |-> yy, observed |-> RDec(obs, 15), expected |-> RDec(RAdd(b, c1), 15)]),
               Clause("C16_cap", def,
                      RLeq(RSub(obs, c1), RAdd(pr.end, RMul(Tol, sc))) \/ RLeq(RSub(obs, c2), RAdd(pr.end, RMul(Tol, sc))),
                      [product |-> pr.name, year |-> yy, observed |-> RDec(obs, 15), cap |-> RDec(pr.end, 15)]))

Year == /\ tid <= Len(Traces) /\ T.kind = "run" /\ k <= Len(T.products)
        /\ LET pr == T.products[k]
               N  == T.L + T.Cy
           IN IF Len(pr.series) # N
              THEN /\ v' = VJoin(v, Clause("C16_rows", TRUE, FALSE, [product |-> pr.name, rows |-> Len(pr.series), expected |-> N]))
                   /\ k' = k + 1 /\ i' = 0
              ELSE /\ v' = VJoin(v, VJoin(Clause("C16_rows", TRUE, TRUE, <<>>), YearClauses(pr, i)))
                   /\ IF i + 1 < N THEN i' = i + 1 /\ k' = k ELSE i' = 0 /\ k' = k + 1
        /\ UNCHANGED tid

PairClauses ==
  LET itc   == RMul(T.ritc, T.ccapA)
      ccapE == RAdd(RSub(RSub(RSub(T.ccapA, itc), T.incentives), T.grants), T.flatfee)
      coamE == RSub(RAdd(T.coamA, T.annualfee), T.relief)
      scC   == RAdd4(RAbs(T.ccapA), RAbs(T.incentives), RAbs(T.grants), RAbs(T.flatfee))
      scO   == RAdd3(RAbs(T.coamA), RAbs(T.annualfee), RAbs(T.relief))
  IN VAll(<<
       Clause("C16_itc", RDef(T.itcvalueB) /\ RDef(itc), RClose(T.itcvalueB, itc, RAbs(T.ccapA), Tol),
              [observed |-> RDec(T.itcvalueB, 15), expected |-> RDec(itc, 15)]),
       Clause("C16_capex_delta", RDef(T.ccapB) /\ RDef(ccapE), RClose(T.ccapB, ccapE, scC, Tol),
              [observed |-> RDec(T.ccapB, 15), expected |-> RDec(ccapE, 15)]),
       Clause("C16_oam_delta", RDef(T.coamB) /\ RDef(coamE), RClose(T.coamB, coamE, scO, Tol),
              [observed |-> RDec(T.coamB, 15), expected |-> RDec(coamE, 15)]) >>)

Pair == /\ tid <= Len(Traces) /\ T.kind = "pair" /\ k = 1
        /\ v' = VJoin(v, PairClauses)
        /\ k' = 2 /\ UNCHANGED <<tid, i>>

Finish == /\ tid <= Len(Traces)
          /\ \/ T.kind = "run" /\ k > Len(T.products)
             \/ T.kind = "pair" /\ k = 2
          /\ PrintT(ToJson([tid |-> T.tid, e |-> v.e, f |-> v.f, s |-> v.s, w |-> v.w]))
          /\ tid' = tid + 1 /\ k' = 1 /\ i' = 0 /\ v' = V0

Next == Year \/ Pair \/ Finish
Spec == Init /\ [][Next]_vars
=============================================================================
