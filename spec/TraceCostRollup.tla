--------------------------- MODULE TraceCostRollup ---------------------------
(***************************************************************************)
(* Trace validation for C03: each recorded economics snapshot (record c of *)
(* CostRollupDef) is stepped through the assembly stages in code order;    *)
(* each stage evaluates its clause exactly.                                *)
(***************************************************************************)
EXTENDS CostRollupDef, Verdict, TLC, Json, IOUtils

Traces == JsonDeserialize(IOEnv.TRACE_FILE)
Tol == "1e-9"
Stages == <<"wells", "components", "capex", "itc", "oam">>

VARIABLES tid, k, v
vars == <<tid, k, v>>
T == Traces[tid]
c == T.c

Init == tid = 1 /\ k = 1 /\ v = V0

Same(name, def, got, want, scale, wit) ==
  Clause(name, def /\ RDef(got) /\ RDef(want), RClose(got, want, scale, Tol),
         [observed |-> RDec(got, 15), expected |-> RDec(want, 15)] @@ wit)

Fixed(name, flag, got, in) ==
  IF flag THEN Same(name, TRUE, got, in, RAbs(in), [figure |-> name]) ELSE V0

\* end-use equipment costs the user may supply directly (0 is a cost, only the documented sentinel means "not provided")
Equip == IF "equip" \in DOMAIN T THEN T.equip ELSE << >>
EquipClauses == VAll([j \in 1..Len(Equip) |->
                       Same("C03_given_equipment", Equip[j].applies, Equip[j].got, Equip[j].given, RAdd(RAbs(Equip[j].given), "1e-6"),
                            [figure |-> Equip[j].name])])

StageClauses(st) ==
  CASE st = "wells" ->
         VAll(<< Same("C03_wellfield", TRUE, c.cwell, WellField(c), RAbs(WellField(c)),
                      [fixed |-> c.wellfixed, nprod |-> c.nprod, ninj |-> c.ninj]),
                 Fixed("C03_fixed_well", c.wellfixed, c.c1prod, c.in_well),
                 Fixed("C03_fixed_injwell", c.wellfixed /\ c.injgiven /\ c.ninj > 0, c.c1inj, c.in_inj),
                 Fixed("C03_fixed_injwell_default", c.wellfixed /\ ~c.injgiven /\ c.ninj > 0, c.c1inj, c.in_well) >>)
    [] st = "components" ->
         VAll(<< Fixed("C03_fixed_stim", c.stimfixed, c.cstim, c.in_stim),
                 Fixed("C03_fixed_gath", c.gathfixed, c.cgath, c.in_gath),
                 Fixed("C03_fixed_plant", c.plantfixed, c.cplant, c.in_plant),
                 Fixed("C03_fixed_expl", c.explfixed /\ ~c.totalcap, c.cexpl, c.in_expl),
                 Fixed("C03_fixed_oamwell", c.oamwellfixed /\ ~c.totaloam, c.coamwell, c.in_oamwell),
                 Fixed("C03_fixed_oamplant", c.oamplantfixed /\ ~c.totaloam, c.coamplant, c.in_oamplant),
                 Fixed("C03_fixed_oamwater", c.oamwaterfixed /\ ~c.totaloam, c.coamwater, c.in_oamwater),
                 EquipClauses >>)
    [] st = "capex" ->
         Same(IF c.totalcap THEN "C03_capex_override" ELSE "C03_capex_sum", TRUE, c.ccap, Capex(c), CapexScale(c),
              [total_given |-> c.totalcap, itc |-> c.itcgiven])
    [] st = "itc" ->
         IF c.itcgiven THEN Same("C03_itc", TRUE, c.ritcvalue, ITC(c), RAbs(CapexBeforeCredits(c)), <<>>) ELSE V0
    [] st = "oam" ->
         Same(IF c.totaloam THEN "C03_oam_override" ELSE "C03_oam_sum", TRUE, c.coam, Oam(c), OamScale(c),
              [total_given |-> c.totaloam, redrill |-> c.redrill, L |-> c.L])

Stage == /\ tid <= Len(Traces) /\ k <= Len(Stages)
         /\ v' = VJoin(v, StageClauses(Stages[k]))
         /\ k' = k + 1 /\ UNCHANGED tid

Finish == /\ tid <= Len(Traces) /\ k = Len(Stages) + 1
          /\ PrintT(ToJson([tid |-> T.tid, e |-> v.e, f |-> v.f, s |-> v.s, w |-> v.w]))
          /\ tid' = tid + 1 /\ k' = 1 /\ v' = V0

Next == Stage \/ Finish
Spec == Init /\ [][Next]_vars
=============================================================================
