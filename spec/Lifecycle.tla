------------------------------ MODULE Lifecycle ------------------------------
(***************************************************************************)
(* The life of one simulation run (beyond the listed properties: this is   *)
(* the skeleton every other specification hangs its observations on).      *)
(*                                                                         *)
(* Stages are the hook points of GEOPHIRESv3.main() plus the four module   *)
(* Calculate() calls (observed by wrapping the bound methods):             *)
(*   model_created, params_read,                                           *)
(*   reservoir, wellbores, surfaceplant            (Model.Calculate)       *)
(*   [reservoir, wellbores, surfaceplant]          once more for district  *)
(*                                                 heating (demand-driven  *)
(*                                                 flow is recomputed)     *)
(*   economics, calculated, printed, json_written                          *)
(* A run may fail in any stage; nothing later then happens, the report     *)
(* exists only once `printed` is reached and the JSON only after that.     *)
(***************************************************************************)
EXTENDS LifecycleDef, TLC

VARIABLES dh, hist, failed, report, json
vars == <<dh, hist, failed, report, json>>

Init == dh \in BOOLEAN /\ hist = << >> /\ failed = FALSE /\ report = FALSE /\ json = FALSE
Step == /\ ~failed /\ Len(hist) < Len(Expected(dh))
        /\ LET s == Expected(dh)[Len(hist) + 1] IN
             /\ hist' = Append(hist, s)
             /\ report' = (report \/ s = "printed")
             /\ json' = (json \/ s = "json_written")
        /\ UNCHANGED <<dh, failed>>
Fail == /\ ~failed /\ Len(hist) < Len(Expected(dh))
        /\ failed' = TRUE
        /\ UNCHANGED <<dh, hist, report, json>>
Next == Step \/ Fail
Spec == Init /\ [][Next]_vars /\ WF_vars(Step \/ Fail)

Count(s, x) == LET RECURSIVE C(_) C(k) == IF k = 0 THEN 0 ELSE C(k - 1) + (IF s[k] = x THEN 1 ELSE 0) IN C(Len(s))

Ordered          == IsPrefix(hist, Expected(dh))
ReportAfterCalc  == report => \E k \in 1..Len(hist) : hist[k] = "calculated"
JsonAfterReport  == json => report
EconomicsOnce    == Count(hist, "economics_calculated") <= 1
ModulesBeforeEco == \A k \in 1..Len(hist) : hist[k] = "economics_calculated" =>
                      Count(SubSeq(hist, 1, k), "surfaceplant_calculated") = (IF dh THEN 2 ELSE 1)
Ends             == <>(failed \/ hist = Expected(dh))
=============================================================================
