-------------------------------- MODULE Rat --------------------------------
(***************************************************************************)
(* Exact rational arithmetic.  Values are canonical strings "p/q" (or "p"  *)
(* when q = 1); TLC integers and decimal literals ("0.25", "1e-9") are     *)
(* accepted as arguments.  The definitions below are placeholders: TLC     *)
(* loads the Java module override Rat.class (spec/Rat.java, BigInteger).   *)
(* RatTLA.tla gives the same operators in pure TLA+ over <<num, den>>      *)
(* pairs and RatSelfTest.tla checks override = pure definition on a grid.  *)
(*                                                                         *)
(* Undefined values ("nan", "inf", "undef", division by zero) propagate    *)
(* as "undef"; comparisons on them are FALSE; guard with RDef.             *)
(***************************************************************************)
LOCAL INSTANCE Naturals
LOCAL INSTANCE Sequences

RDef(a)     == TRUE
RNorm(a)    == a
RAdd(a, b)  == a
RSub(a, b)  == a
RMul(a, b)  == a
RDiv(a, b)  == a
RNeg(a)     == a
RAbs(a)     == a
RPow(a, n)  == a
RLeq(a, b)  == TRUE
RLt(a, b)   == TRUE
REq(a, b)   == TRUE
RMin(a, b)  == a
RMax(a, b)  == a
RFloor(a)   == 0
RSum(s)     == "0"
RSumAbs(s)  == "0"
RDot(s, t)  == "0"
RClose(a, b, scale, tol) == TRUE
RDec(a, digits) == a
RSign(a)    == 0

(* derived helpers (pure TLA+, on top of the primitives) *)
RGeq(a, b) == RLeq(b, a)
RGt(a, b)  == RLt(b, a)
RAdd3(a, b, c) == RAdd(RAdd(a, b), c)
RAdd4(a, b, c, d) == RAdd(RAdd(a, b), RAdd(c, d))
RMul3(a, b, c) == RMul(RMul(a, b), c)
ROne == "1"
RZero == "0"
AllDef(s) == \A k \in DOMAIN s : RDef(s[k])
=============================================================================
