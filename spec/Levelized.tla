------------------------------ MODULE Levelized ------------------------------
(***************************************************************************)
(* M1 for C01 (+ lemmas for C11 and C18): the levelized-cost definitions   *)
(* of LevelizedDef.tla explored exhaustively over small constants, one     *)
(* action per economic-model branch of CalculateLCOELCOHLCOC.              *)
(***************************************************************************)
EXTENDS LevelizedDef


CONSTANTS MaxL, Costs, Energies, Extras, Rates, Ratios, Dump

VARIABLES pc, m, b, q, out
vars == <<pc, m, b, q, out>>

SeqsOf(S, n) == [1..n -> S]

Init == /\ pc = "cfg" /\ out = [lcoe |-> "0", lcoh |-> "0", lcoc |-> "0"]
        /\ m \in {"FCR", "STD", "BICYCLE"} /\ b \in Branches
        /\ \E L \in 1..MaxL, cc \in Costs, co \in Costs, ra \in Ratios, ic \in Rates, r1 \in Rates, r2 \in Rates,
              e \in SeqsOf(Energies, MaxL), x \in SeqsOf(Extras, MaxL) :
             q = [L |-> L, ccap |-> cc, coam |-> co, ratio |-> ra, ic |-> ic,
                  eE |-> SubSeq(e, 1, L), eH |-> SubSeq(e, 1, L), eC |-> SubSeq(e, 1, L),
                  xP |-> SubSeq(x, 1, L), xHP |-> SubSeq(x, 1, L), xNG |-> SubSeq(x, 1, L),
                  aP |-> Mean(SubSeq(x, 1, L)), aHP |-> Mean(SubSeq(x, 1, L)), aNG |-> Mean(SubSeq(x, 1, L)),
                  dem |-> e[1], fcr |-> r1, d |-> r1,
                  fib |-> "1/2", bir |-> r1, eir |-> "1/4", ctr |-> r2, gtr |-> r2, ptr |-> r1, itc |-> r2, infl |-> r1]

LevelizeFCR     == pc = "cfg" /\ m = "FCR" /\ out' = LCFCR(q, b) /\ pc' = "done" /\ UNCHANGED <<m, b, q>>
LevelizeStd     == pc = "cfg" /\ m = "STD" /\ out' = LCStd(q, b) /\ pc' = "done" /\ UNCHANGED <<m, b, q>>
LevelizeBicycle == pc = "cfg" /\ m = "BICYCLE" /\ out' = LCBic(q, b) /\ pc' = "done" /\ UNCHANGED <<m, b, q>>
Report == /\ pc = "done" /\ pc' = "reported"
          /\ (Dump => PrintT(ToJson([m |-> m, b |-> b, q |-> q, out |-> out])))
          /\ UNCHANGED <<m, b, q, out>>

Next == LevelizeFCR \/ LevelizeStd \/ LevelizeBicycle \/ Report
Spec == Init /\ [][Next]_vars

Done == pc = "done"
Outs == {"lcoe", "lcoh", "lcoc"}

\* non-negative inputs give non-negative levelized costs
NonNegative == Done => \A o \in Outs : RDef(out[o]) => RLeq(0, out[o])

\* lemma for C11: multiplying every cost (capital, O&M, other annual costs) by k multiplies each levelized cost by k
ScaleCosts(r, k) == [r EXCEPT !.ccap = RMul(@, k), !.coam = RMul(@, k), !.xP = Scale(@, k), !.xHP = Scale(@, k),
                              !.xNG = Scale(@, k), !.aP = RMul(@, k), !.aHP = RMul(@, k), !.aNG = RMul(@, k)]
Homogeneous == Done => \A k \in {"1/2", "3"} : \A o \in Outs :
                 RDef(out[o]) => REq(LC(ScaleCosts(q, k), m, b)[o], RMul(k, out[o]))

\* lemma for C18: no levelized cost decreases when capital or O&M cost increases
\* (BICYCLE: while the tax/credit rates keep the capital multiplier non-negative, which the small domain ensures)
MonotoneInCost == Done => \A o \in Outs : RDef(out[o]) =>
                    /\ RLeq(out[o], LC([q EXCEPT !.coam = RAdd(@, 1)], m, b)[o])
                    /\ (m # "BICYCLE" => RLeq(out[o], LC([q EXCEPT !.ccap = RAdd(@, 1)], m, b)[o]))

\* exactly the outputs of the branch are produced
BranchOutputs == Done => /\ (b \in {"elec"} => out.lcoh = "0" /\ out.lcoc = "0")
                         /\ (b \in {"heat", "heatpump", "dh"} => out.lcoe = "0" /\ out.lcoc = "0")
                         /\ (b = "chiller" => out.lcoe = "0" /\ out.lcoh = "0")
                         /\ (b = "cogen" => out.lcoc = "0")
=============================================================================
