SPECIFICATION Spec
CONSTANTS
  MaxCy = 2
  MaxL = 3
  Capex = {"-1", "0", "1", "3"}
  Opex = {"0", "1", "2"}
  Revs = {"0", "1", "2", "3"}
  ScanStart = 1
INVARIANT CashFlowDef
INVARIANT CumIsRunningSum
INVARIANT NPVAtZeroRate
INVARIANT PaybackInCrossingYear
INVARIANT NAWhenNeverPositive
INVARIANT ReportedWhenCrossing
CHECK_DEADLOCK FALSE
