SPECIFICATION Spec
CONSTANTS
  MaxL = 4
  MaxCy = 1
  Prices = {"0", "1", "2", "3"}
  Rates = {"0", "1/2", "1", "2"}
  PTCs = {"0", "1", "2"}
  Infls = {"0", "1/2", "1"}
  Dump = TRUE
INVARIANT TypeOK
INVARIANT ShapePTC
INVARIANT ShapePrice
INVARIANT CappedAtEnd
INVARIANT StartsAtStart
INVARIANT NonDecreasingBase
INVARIANT ShapePadded
CHECK_DEADLOCK FALSE
