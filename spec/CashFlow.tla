------------------------------ MODULE CashFlow ------------------------------
(***************************************************************************)
(* Project cash flow, cumulative cash flow and payback scan (property C04) *)
(* as the loop machine of Economics.Calculate (Economics.py, "Calculate    *)
(* cashflow and cumulative cash flow" .. "Calculate the project payback    *)
(* period").  One action per loop iteration, in code order:                *)
(*   Revenue(i)       TotalRevenue[i] = sum of product revenues, i >= Cy   *)
(*   Construction(i)  TotalRevenue[i] = TotalCumm[i] = -CCap/Cy, i < Cy    *)
(*   Opex(i)          TotalRevenue[i] -= Coam, i >= Cy                     *)
(*   Accumulate(i)    TotalCumm[i] = TotalCumm[i-1] + TotalRevenue[i]      *)
(*   Scan(i)          payback scan; ScanStart = 0 is the pinned design     *)
(*                    (its i = 0 step reads cum[-1], the LAST year),       *)
(*                    ScanStart = 1 the repaired one.                      *)
(* Years are 0-based in the code, sequences 1-based here: year k is k + 1. *)
(***************************************************************************)
EXTENDS Integers, Sequences, Rat, TLC

CONSTANTS MaxCy, MaxL, Capex, Opex, Revs, ScanStart

VARIABLES pc, Cy, L, ccap, coam, i, rev, cf, cum, payback
vars == <<pc, Cy, L, ccap, coam, i, rev, cf, cum, payback>>
params == <<Cy, L, ccap, coam>>

N == Cy + L

Init == /\ pc = "rev" /\ Cy \in 1..MaxCy /\ L \in 1..MaxL /\ ccap \in Capex /\ coam \in Opex
        /\ i = Cy /\ rev = <<>>
        /\ cf = [k \in 1..(Cy + L) |-> "0"] /\ cum = [k \in 1..(Cy + L) |-> "0"]
        /\ payback = "0"

Revenue == /\ pc = "rev" /\ i < N
           /\ \E x \in Revs : /\ rev' = Append(rev, x)
                              /\ cf' = [cf EXCEPT ![i + 1] = RNorm(x)]
           /\ i' = i + 1 /\ UNCHANGED <<pc, cum, payback, params>>
RevenueDone == pc = "rev" /\ i = N /\ pc' = "constr" /\ i' = 0 /\ UNCHANGED <<rev, cf, cum, payback, params>>

Construction == /\ pc = "constr" /\ i < Cy
                /\ LET share == RNeg(RDiv(ccap, Cy))
                   IN cf' = [cf EXCEPT ![i + 1] = share] /\ cum' = [cum EXCEPT ![i + 1] = share]
                /\ i' = i + 1 /\ UNCHANGED <<pc, rev, payback, params>>
ConstructionDone == pc = "constr" /\ i = Cy /\ pc' = "opex" /\ UNCHANGED <<i, rev, cf, cum, payback, params>>

OpexYear == /\ pc = "opex" /\ i < N
            /\ cf' = [cf EXCEPT ![i + 1] = RSub(cf[i + 1], coam)]
            /\ i' = i + 1 /\ UNCHANGED <<pc, rev, cum, payback, params>>
OpexDone == pc = "opex" /\ i = N /\ pc' = "accum" /\ i' = 1 /\ UNCHANGED <<rev, cf, cum, payback, params>>

Accumulate == /\ pc = "accum" /\ i < N
              /\ cum' = [cum EXCEPT ![i + 1] = RAdd(cum[i], cf[i + 1])]
              /\ i' = i + 1 /\ UNCHANGED <<pc, rev, cf, payback, params>>
AccumulateDone == pc = "accum" /\ i = N /\ pc' = "scan" /\ i' = ScanStart /\ UNCHANGED <<rev, cf, cum, payback, params>>

Prev(k) == IF k = 0 THEN cum[N] ELSE cum[k]        \* Python cum[k - 1]; k = 0 wraps to the last element
Scan == /\ pc = "scan" /\ i < N
        /\ IF RGt(cum[i + 1], 0) /\ RLeq(Prev(i), 0)
           THEN payback' = RAdd(i, RDiv(RAbs(Prev(i)), RAdd(cum[i + 1], RAbs(Prev(i)))))
           ELSE UNCHANGED payback
        /\ i' = i + 1 /\ UNCHANGED <<pc, rev, cf, cum, params>>
ScanDone == pc = "scan" /\ i = N /\ pc' = "done" /\ UNCHANGED <<i, rev, cf, cum, payback, params>>

Next == Revenue \/ RevenueDone \/ Construction \/ ConstructionDone \/ OpexYear \/ OpexDone
        \/ Accumulate \/ AccumulateDone \/ Scan \/ ScanDone
Spec == Init /\ [][Next]_vars

(* ---- the property, on the finished machine ---- *)
Done == pc = "done"

CashFlowDef == Done => /\ \A k \in 0..(Cy - 1) : REq(cf[k + 1], RNeg(RDiv(ccap, Cy)))
                       /\ \A k \in Cy..(N - 1) : REq(cf[k + 1], RSub(rev[k - Cy + 1], coam))

CumIsRunningSum == Done => \A k \in 1..N : REq(cum[k], RSum(SubSeq(cf, 1, k)))

NPV(r, sh) == RSum([k \in 1..N |-> RDiv(cf[k], RPow(RAdd(1, r), k - 1 + sh))])
NPVAtZeroRate == Done => REq(NPV(0, 0), cum[N]) /\ REq(NPV(0, 1), cum[N])

\* payback lies within a year in which the cumulative series turns from non-positive to positive
PaybackInCrossingYear ==
  Done /\ ~REq(payback, 0) =>
    LET y == RFloor(payback)
    IN /\ y \in 1..(N - 1)
       /\ RLeq(cum[y], 0) /\ RGt(cum[y + 1], 0)
       /\ REq(RSub(payback, y), RDiv(RAbs(cum[y]), RAdd(cum[y + 1], RAbs(cum[y]))))

\* ... and is "N/A" (0) when the cumulative series never turns positive
NAWhenNeverPositive == Done /\ (\A k \in 1..N : RLeq(cum[k], 0)) => REq(payback, 0)

\* a crossing that exists is reported
ReportedWhenCrossing == Done /\ (\E k \in 1..(N - 1) : RLeq(cum[k], 0) /\ RGt(cum[k + 1], 0)) => ~REq(payback, 0)
=============================================================================
