---------------------------- MODULE TraceRelation ----------------------------
(***************************************************************************)
(* Pair and ladder relations between real runs (C11, C17, C18): a trace is *)
(* a ladder of runs that differ in one thing; rung r carries x (the varied *)
(* quantity) and ys (a sequence of observed figures, e.g. a whole series). *)
(* kind:                                                                   *)
(*   "nondecreasing" / "nonincreasing"   ys component-wise along the ladder*)
(*   "equal"           all rungs equal                                     *)
(*   "scaled"          ys(r) = (x(r) / x(1)) * ys(1)                       *)
(*   "same_direction"  ys moves strictly in the direction x moves          *)
(* One TLC step per adjacent pair of rungs.                                *)
(***************************************************************************)
EXTENDS Integers, Sequences, Rat, Verdict, TLC, Json, IOUtils

Traces == JsonDeserialize(IOEnv.TRACE_FILE)
VARIABLES tid, i, v
vars == <<tid, i, v>>
T == Traces[tid]
Tol == IF "tol" \in DOMAIN T THEN T.tol ELSE "1e-9"

Init == tid = 1 /\ i = 1 /\ v = V0

PairOK(a, b) ==
  LET n == Len(a.ys)
      sc(k) == RAdd(RAbs(a.ys[k]), RAbs(b.ys[k]))
  IN CASE T.kind = "nondecreasing" -> \A k \in 1..n : RLeq(a.ys[k], RAdd(b.ys[k], RMul(Tol, sc(k))))
       [] T.kind = "nonincreasing" -> \A k \in 1..n : RLeq(b.ys[k], RAdd(a.ys[k], RMul(Tol, sc(k))))
       [] T.kind = "equal"         -> \A k \in 1..n : RClose(a.ys[k], b.ys[k], sc(k), Tol)
       [] T.kind = "scaled"        -> \A k \in 1..n : RClose(b.ys[k], RMul(RDiv(b.x, T.rungs[1].x), T.rungs[1].ys[k]),
                                                            RAdd(RAbs(b.ys[k]), RAbs(RMul(RDiv(b.x, T.rungs[1].x), T.rungs[1].ys[k]))), Tol)
       [] T.kind = "same_direction" -> \A k \in 1..n : RSign(RSub(b.ys[k], a.ys[k])) = RSign(RSub(b.x, a.x))

Pair ==
  /\ tid <= Len(Traces) /\ i < Len(T.rungs)
  /\ LET a == T.rungs[i]  b == T.rungs[i + 1]
         def == Len(a.ys) = Len(b.ys) /\ AllDef(a.ys) /\ AllDef(b.ys) /\ RDef(a.x) /\ RDef(b.x)
         firstbad == IF def /\ ~PairOK(a, b)
                     THEN LET bad == {k \in 1..Len(a.ys) : ~PairOK([x |-> a.x, ys |-> <<a.ys[k]>>], [x |-> b.x, ys |-> <<b.ys[k]>>])}
                          IN IF bad = {} THEN 0 ELSE CHOOSE k \in bad : \A j \in bad : k <= j
                     ELSE 0
     IN v' = VJoin(v, Clause(T.clause, def, PairOK(a, b),
                             [rung |-> i, x_lo |-> RDec(a.x, 12), x_hi |-> RDec(b.x, 12), component |-> firstbad,
                              y_lo |-> IF firstbad > 0 THEN RDec(a.ys[firstbad], 12) ELSE "", y_hi |-> IF firstbad > 0 THEN RDec(b.ys[firstbad], 12) ELSE ""]))
  /\ i' = i + 1 /\ UNCHANGED tid
Finish == /\ tid <= Len(Traces) /\ i >= Len(T.rungs)
          /\ PrintT(ToJson([tid |-> T.tid, e |-> v.e, f |-> v.f, s |-> v.s, w |-> v.w]))
          /\ tid' = tid + 1 /\ i' = 1 /\ v' = V0
Next == Pair \/ Finish
Spec == Init /\ [][Next]_vars
=============================================================================
