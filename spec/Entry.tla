-------------------------------- MODULE Entry --------------------------------
(***************************************************************************)
(* Entry points and output-path resolution (property C20).                 *)
(*   CLI(arg, dir)      python -m geophires_x <in> [<out>] started in dir  *)
(*   ClientCall         GeophiresXClient (output in the temp directory)    *)
(*   MCEmbedded         the run embedded in a Monte Carlo work package     *)
(*   Direct             the Model pipeline driven as main() does           *)
(* A run either completes (report + JSON written where OutPath says) or    *)
(* fails (read / calculate) and then writes nothing and signals failure.   *)
(* The reachable states are also the test matrix that the harness executes *)
(* for real (Dump).                                                        *)
(* hist: the command line always starts a fresh process ("cold"); the      *)
(* client and the direct pipeline run inside a process that may already    *)
(* have served other inputs ("warm").  The report is a function of the     *)
(* input only, so the history must not show.  "rewritten": the client has  *)
(* already served the same input FILE in this process when it held other,  *)
(* succeeding, content (the client derives its result path from the file   *)
(* path): what that run left on disk is not the answer to this request.    *)
(***************************************************************************)
EXTENDS Integers, Sequences, TLC, Json

CONSTANTS Dirs, Inputs, FailingInputs, Dump
Entries == {"cli", "client", "mc", "direct"}
Args == {"none", "relative", "absolute", "relative_plain", "absolute_plain", "relative_tilde", "relative_link"}
  \* _plain: a name without extension under a directory with a dot in its name
  \* _tilde: a name in the start directory whose first character is "~" (a legal file name; no home-directory expansion is documented)
  \* _link : the requested name exists as a symbolic link to a file elsewhere; the report is written through it, the JSON goes next to
  \*         the requested name (the link's target itself is not counted as a separate file)

Hists == {"cold", "warm", "rewritten"}

VARIABLES pc, entry, arg, dir, input, hist, created, signal, report
vars == <<pc, entry, arg, dir, input, hist, created, signal, report>>

(* where the report and its JSON side file go *)
OutPath(e, a, d) ==
  CASE e = "cli" /\ a = "none"     -> [out |-> <<d, "HDR.out">>, json |-> <<d, "HDR.json">>]
    [] e = "cli" /\ a = "relative" -> [out |-> <<d, "rel", "case.out">>, json |-> <<d, "rel", "case.json">>]
    [] e = "cli" /\ a = "absolute" -> [out |-> <<"abs", "case.out">>, json |-> <<"abs", "case.json">>]
    [] e = "cli" /\ a = "relative_plain" -> [out |-> <<d, "rel.v2", "case">>, json |-> <<d, "rel.v2", "case.json">>]
    [] e = "cli" /\ a = "absolute_plain" -> [out |-> <<"abs.d", "case">>, json |-> <<"abs.d", "case.json">>]
    [] e = "cli" /\ a = "relative_tilde" -> [out |-> <<d, "~case.out">>, json |-> <<d, "~case.json">>]
    [] e = "cli" /\ a = "relative_link"  -> [out |-> <<d, "rel", "latest.out">>, json |-> <<d, "rel", "latest.json">>]
    [] OTHER                       -> [out |-> <<"tmp", "result.out">>, json |-> <<"tmp", "result.json">>]

Init == /\ pc = "start" /\ entry \in Entries /\ arg \in Args /\ dir \in Dirs /\ input \in Inputs
        /\ (entry # "cli" => arg = "none")
        /\ hist \in Hists /\ (entry \in {"cli", "mc"} => hist = "cold") /\ (hist = "rewritten" => entry = "client")
        /\ created = {} /\ signal = "none" /\ report = "none"

RunOk == /\ pc = "start" /\ input \notin FailingInputs
         /\ created' = {OutPath(entry, arg, dir).out, OutPath(entry, arg, dir).json}
         /\ report' = <<"report-of", input>>          \* a function of the input only
         /\ signal' = "ok" /\ pc' = "done"
         /\ UNCHANGED <<entry, arg, dir, input, hist>>
RunFail == /\ pc = "start" /\ input \in FailingInputs
           /\ created' = {} /\ report' = "none"
           /\ signal' = IF entry = "cli" THEN "exit-nonzero" ELSE "raised"
           /\ pc' = "done"
           /\ UNCHANGED <<entry, arg, dir, input, hist>>
Emit == /\ pc = "done" /\ pc' = "emitted"
        /\ (Dump => PrintT(ToJson([entry |-> entry, arg |-> arg, dir |-> dir, input |-> input, hist |-> hist,
                                   expect_files |-> IF input \in FailingInputs THEN <<>> ELSE <<OutPath(entry, arg, dir).out, OutPath(entry, arg, dir).json>>,
                                   expect_signal |-> signal])))
        /\ UNCHANGED <<entry, arg, dir, input, hist, created, signal, report>>
Next == RunOk \/ RunFail \/ Emit
Spec == Init /\ [][Next]_vars

C20_same  == pc = "done" /\ signal = "ok" => report = <<"report-of", input>>
C20_where == pc = "done" /\ signal = "ok" => created = {OutPath(entry, arg, dir).out, OutPath(entry, arg, dir).json}
C20_fail  == pc = "done" /\ input \in FailingInputs => created = {} /\ signal \in {"exit-nonzero", "raised"}
=============================================================================
