SPECIFICATION Spec
CONSTANTS
  MaxLines = 2
  Names = {"A", "B b"}
  Values = {"1", "2 m"}
  Pads <- PadSetSmall
  Trails = {"", ", note", ", a, b,c", ",--- [km]"}
  Eols <- EolSet
  Decorations = {"", "   ", "# A, 9", "-- A, 9", "* A, 9", "   # B b, 9", "no comma here"}
  Dump = TRUE
INVARIANT LayoutIrrelevant
INVARIANT LoadAgrees
CHECK_DEADLOCK FALSE
