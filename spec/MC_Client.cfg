SPECIFICATION Spec
CONSTANTS
  Clients = {"cached", "plain"}
  CachingClients = {"cached"}
  Paths = {"a", "b"}
  Versions = {"v1", "v2", "bad"}
  BadVersions = {"bad"}
  Dirs = {"d1", "d2"}
  MaxOps = 5
  RestoreOnFailure = TRUE
  KeyIncludesContent = TRUE
  Dump = FALSE
INVARIANT C08_restore
INVARIANT C08_fresh
CHECK_DEADLOCK FALSE
