import tlc2.value.impl.BoolValue;
import tlc2.value.impl.IntValue;
import tlc2.value.impl.StringValue;
import tlc2.value.impl.Value;

/** Java module override for Str.tla: substring search on TLA+ strings (the pure definition is in Str.tla). */
public class Str {
    public static Value StrContains(Value a, Value b) {
        return ((StringValue) a).val.toString().contains(((StringValue) b).val.toString()) ? BoolValue.ValTrue : BoolValue.ValFalse;
    }
    public static Value StrLen(Value a) {
        return IntValue.gen(((StringValue) a).val.toString().length());
    }
}
