----------------------------- MODULE TraceHistory -----------------------------
(***************************************************************************)
(* Validation of recorded histories.  A trace is a sequence of events      *)
(*   [input |-> abstract input id, digest |-> result digest,               *)
(*    how |-> free text (variant / entry point / history position)]        *)
(* consumed one per TLC step; `memo` remembers the first digest per input. *)
(* Clause <prefix>_same: an input seen before yields the same digest.      *)
(***************************************************************************)
EXTENDS Integers, Sequences, Verdict, TLC, Json, IOUtils

Traces == JsonDeserialize(IOEnv.TRACE_FILE)
VARIABLES tid, i, memo, v
vars == <<tid, i, memo, v>>
T == Traces[tid]

Init == tid = 1 /\ i = 1 /\ memo = [x \in {} |-> [digest |-> "", how |-> ""]] /\ v = V0

(* an event may also say whether the caller's working directory and argument vector were as before (`restored`): C08_restore *)
WithRestore(vv, ev) ==
  IF "restored" \in DOMAIN ev
  THEN VJoin(vv, Clause("C08_restore", TRUE, ev.restored, [input |-> ev.input, how |-> ev.how]))
  ELSE vv

Event ==
  /\ tid <= Len(Traces) /\ i <= Len(T.events)
  /\ LET ev == T.events[i] IN
     IF ev.input \in DOMAIN memo
     THEN /\ v' = WithRestore(VJoin(v, Clause(T.clause, TRUE, memo[ev.input].digest = ev.digest,
                                  [input |-> ev.input, first |-> memo[ev.input].how, differs |-> ev.how, position |-> i])), ev)
          /\ UNCHANGED memo
     ELSE /\ memo' = [x \in DOMAIN memo \cup {ev.input} |-> IF x = ev.input THEN [digest |-> ev.digest, how |-> ev.how] ELSE memo[x]]
          /\ v' = WithRestore(VJoin(v, Clause(T.clause \o "_first_seen", TRUE, TRUE, <<>>)), ev)
  /\ i' = i + 1 /\ UNCHANGED tid

Finish == /\ tid <= Len(Traces) /\ i = Len(T.events) + 1
          /\ PrintT(ToJson([tid |-> T.tid, e |-> v.e, f |-> v.f, s |-> v.s, w |-> v.w]))
          /\ tid' = tid + 1 /\ i' = 1 /\ memo' = [x \in {} |-> [digest |-> "", how |-> ""]] /\ v' = V0

Next == Event \/ Finish
Spec == Init /\ [][Next]_vars
=============================================================================
