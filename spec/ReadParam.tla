------------------------------ MODULE ReadParam ------------------------------
(***************************************************************************)
(* M1 for C07: every small (kind, min, max, default, working value, input) *)
(* through the ReadParameter decision table.  Class invariant assumed of   *)
(* every declared parameter (and checked on the real declarations as a     *)
(* fit_ clause): the working value is in the domain or equals the default. *)
(***************************************************************************)
EXTENDS ReadParamDef, TLC

CONSTANTS Vals, IntEarly
VARIABLES pc, p, v, r
vars == <<pc, p, v, r>>

SmallVals == -1..3
RangeSeq(a, b) == [k \in 1..(b - a + 1) |-> a + k - 1]

Init == /\ pc = "read" /\ r = [outcome |-> "none", value |-> "undef"]
        /\ v \in Vals
        /\ \E kind \in {"float", "int"}, lo \in Vals, hi \in Vals, d \in Vals, c \in Vals :
             /\ lo <= hi
             /\ p = [kind |-> kind, lo |-> lo, hi |-> hi, allow |-> RangeSeq(lo, hi), def |-> d, cur |-> c]
             /\ (InDomain(p, c) \/ c = d)

ReadStep == pc = "read" /\ r' = Read(p, v, IntEarly) /\ pc' = "done" /\ UNCHANGED <<p, v>>
Next == ReadStep
Spec == Init /\ [][Next]_vars

C07_reject == pc = "done" => RejectOK(p, v, r)
C07_accept == pc = "done" => AcceptOK(p, v, r)
C07_never_altered == pc = "done" => NeverAltered(p, v, r)
\* the only out-of-domain value ever accepted is the sentinel default
OnlySentinelSlipsThrough == pc = "done" /\ r.outcome = "accepted" /\ ~InDomain(p, v) => IsSentinel(p, v)
=============================================================================
