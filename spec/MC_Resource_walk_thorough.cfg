SPECIFICATION Spec
CONSTANTS
  MaxSeg = 4
  Grads = {"1", "2", "5"}
  Thicks = {"1", "2"}
  Depths = {"1/2", "1", "2", "3", "4", "5", "7", "9"}
  Tmaxs = {"12", "14", "17", "25", "60"}
  Profiles <- ProfileOne
  Limits = {"1/4"}
  Dump = TRUE
INVARIANT C05_bht
INVARIANT C05_tmax
INVARIANT C05_cap
INVARIANT MonotoneInDepth
INVARIANT MonotoneInGradient
INVARIANT C05_limit
INVARIANT C05_restart
INVARIANT C05_noredrill
CHECK_DEADLOCK FALSE
