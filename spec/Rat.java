import java.math.BigDecimal;
import java.math.BigInteger;
import java.util.concurrent.ConcurrentHashMap;

import tlc2.value.impl.BoolValue;
import tlc2.value.impl.IntValue;
import tlc2.value.impl.StringValue;
import tlc2.value.impl.TupleValue;
import tlc2.value.impl.Value;

/**
 * Java module override for Rat.tla: exact rational arithmetic on canonical strings "p/q" (q > 0, gcd 1; "p" when
 * q = 1).  Arguments may be TLC integers, "p", "p/q" or decimal literals such as "0.25" / "1e-9".  Anything else
 * ("nan", "inf", "undef") is UNDEFINED: arithmetic on it yields "undef", comparisons yield FALSE; callers guard
 * with RDef.  Only java.math.BigInteger is trusted; RatTLA.tla re-defines the operators in pure TLA+ and
 * RatSelfTest.tla compares both on a grid.
 */
public class Rat {
    private static final ConcurrentHashMap<String, BigInteger[]> CACHE = new ConcurrentHashMap<>();
    private static final StringValue UNDEF = new StringValue("undef");

    private static BigInteger[] norm(BigInteger n, BigInteger d) {
        if (d.signum() == 0) return null;
        if (d.signum() < 0) { n = n.negate(); d = d.negate(); }
        BigInteger g = n.gcd(d);
        if (!g.equals(BigInteger.ONE) && g.signum() != 0) { n = n.divide(g); d = d.divide(g); }
        return new BigInteger[] {n, d};
    }

    private static BigInteger[] parseStr(String s) {
        try {
            int k = s.indexOf('/');
            if (k >= 0) {
                return norm(new BigInteger(s.substring(0, k).trim()), new BigInteger(s.substring(k + 1).trim()));
            }
            if (s.isEmpty()) return null;
            char c = s.charAt(s.length() - 1);
            if (!Character.isDigit(c)) return null;
            BigDecimal bd = new BigDecimal(s.trim());
            if (bd.scale() <= 0) return new BigInteger[] {bd.toBigIntegerExact(), BigInteger.ONE};
            return norm(bd.unscaledValue(), BigInteger.TEN.pow(bd.scale()));
        } catch (RuntimeException e) {
            return null;
        }
    }

    static BigInteger[] parse(Value v) {
        if (v instanceof IntValue) return new BigInteger[] {BigInteger.valueOf(((IntValue) v).val), BigInteger.ONE};
        if (v instanceof StringValue) {
            String s = ((StringValue) v).val.toString();
            BigInteger[] r = CACHE.get(s);
            if (r == null) {
                r = parseStr(s);
                if (r == null) return null;
                if (CACHE.size() < 2000000) CACHE.put(s, r);
            }
            return r;
        }
        return null;
    }

    static Value mk(BigInteger[] r) {
        if (r == null) return UNDEF;
        if (r[1].equals(BigInteger.ONE)) return new StringValue(r[0].toString());
        return new StringValue(r[0].toString() + "/" + r[1].toString());
    }

    public static Value RDef(Value a) { return parse(a) != null ? BoolValue.ValTrue : BoolValue.ValFalse; }

    public static Value RNorm(Value a) { return mk(parse(a)); }

    public static Value RAdd(Value a, Value b) {
        BigInteger[] x = parse(a), y = parse(b);
        if (x == null || y == null) return UNDEF;
        return mk(norm(x[0].multiply(y[1]).add(y[0].multiply(x[1])), x[1].multiply(y[1])));
    }

    public static Value RSub(Value a, Value b) {
        BigInteger[] x = parse(a), y = parse(b);
        if (x == null || y == null) return UNDEF;
        return mk(norm(x[0].multiply(y[1]).subtract(y[0].multiply(x[1])), x[1].multiply(y[1])));
    }

    public static Value RMul(Value a, Value b) {
        BigInteger[] x = parse(a), y = parse(b);
        if (x == null || y == null) return UNDEF;
        return mk(norm(x[0].multiply(y[0]), x[1].multiply(y[1])));
    }

    public static Value RDiv(Value a, Value b) {
        BigInteger[] x = parse(a), y = parse(b);
        if (x == null || y == null || y[0].signum() == 0) return UNDEF;
        return mk(norm(x[0].multiply(y[1]), x[1].multiply(y[0])));
    }

    public static Value RNeg(Value a) {
        BigInteger[] x = parse(a);
        if (x == null) return UNDEF;
        return mk(new BigInteger[] {x[0].negate(), x[1]});
    }

    public static Value RAbs(Value a) {
        BigInteger[] x = parse(a);
        if (x == null) return UNDEF;
        return mk(new BigInteger[] {x[0].abs(), x[1]});
    }

    /** integer power, n may be negative */
    public static Value RPow(Value a, Value n) {
        BigInteger[] x = parse(a);
        if (x == null || !(n instanceof IntValue)) return UNDEF;
        int k = ((IntValue) n).val;
        if (k >= 0) return mk(new BigInteger[] {x[0].pow(k), x[1].pow(k)});
        if (x[0].signum() == 0) return UNDEF;
        return mk(norm(x[1].pow(-k), x[0].pow(-k)));
    }

    private static int cmp(BigInteger[] x, BigInteger[] y) {
        return x[0].multiply(y[1]).compareTo(y[0].multiply(x[1]));
    }

    public static Value RLeq(Value a, Value b) {
        BigInteger[] x = parse(a), y = parse(b);
        if (x == null || y == null) return BoolValue.ValFalse;
        return cmp(x, y) <= 0 ? BoolValue.ValTrue : BoolValue.ValFalse;
    }

    public static Value RLt(Value a, Value b) {
        BigInteger[] x = parse(a), y = parse(b);
        if (x == null || y == null) return BoolValue.ValFalse;
        return cmp(x, y) < 0 ? BoolValue.ValTrue : BoolValue.ValFalse;
    }

    public static Value REq(Value a, Value b) {
        BigInteger[] x = parse(a), y = parse(b);
        if (x == null || y == null) return BoolValue.ValFalse;
        return cmp(x, y) == 0 ? BoolValue.ValTrue : BoolValue.ValFalse;
    }

    public static Value RMin(Value a, Value b) {
        BigInteger[] x = parse(a), y = parse(b);
        if (x == null || y == null) return UNDEF;
        return mk(cmp(x, y) <= 0 ? x : y);
    }

    public static Value RMax(Value a, Value b) {
        BigInteger[] x = parse(a), y = parse(b);
        if (x == null || y == null) return UNDEF;
        return mk(cmp(x, y) >= 0 ? x : y);
    }

    /** floor as a TLC integer (must fit in 32 bits) */
    public static Value RFloor(Value a) {
        BigInteger[] x = parse(a);
        if (x == null) return IntValue.gen(-2147483647);
        BigInteger[] qr = x[0].divideAndRemainder(x[1]);
        BigInteger q = qr[0];
        if (qr[1].signum() < 0) q = q.subtract(BigInteger.ONE);
        return IntValue.gen(q.intValueExact());
    }

    /** sum of a sequence / tuple of rationals */
    public static Value RSum(Value s) {
        Value t = s.toTuple();
        if (t == null) return UNDEF;
        Value[] es = ((TupleValue) t).elems;
        BigInteger n = BigInteger.ZERO, d = BigInteger.ONE;
        for (Value e : es) {
            BigInteger[] x = parse(e);
            if (x == null) return UNDEF;
            n = n.multiply(x[1]).add(x[0].multiply(d));
            d = d.multiply(x[1]);
            if (d.bitLength() > 4096) { BigInteger[] r = norm(n, d); n = r[0]; d = r[1]; }
        }
        return mk(norm(n, d));
    }

    /** sum of |x| over a sequence */
    public static Value RSumAbs(Value s) {
        Value t = s.toTuple();
        if (t == null) return UNDEF;
        Value[] es = ((TupleValue) t).elems;
        BigInteger n = BigInteger.ZERO, d = BigInteger.ONE;
        for (Value e : es) {
            BigInteger[] x = parse(e);
            if (x == null) return UNDEF;
            n = n.multiply(x[1]).add(x[0].abs().multiply(d));
            d = d.multiply(x[1]);
            if (d.bitLength() > 4096) { BigInteger[] r = norm(n, d); n = r[0]; d = r[1]; }
        }
        return mk(norm(n, d));
    }

    /** sum over k of a[k] * b[k] (sequences of equal length) */
    public static Value RDot(Value s1, Value s2) {
        Value t1 = s1.toTuple(), t2 = s2.toTuple();
        if (t1 == null || t2 == null) return UNDEF;
        Value[] a = ((TupleValue) t1).elems, b = ((TupleValue) t2).elems;
        if (a.length != b.length) return UNDEF;
        BigInteger n = BigInteger.ZERO, d = BigInteger.ONE;
        for (int i = 0; i < a.length; i++) {
            BigInteger[] x = parse(a[i]), y = parse(b[i]);
            if (x == null || y == null) return UNDEF;
            BigInteger pn = x[0].multiply(y[0]), pd = x[1].multiply(y[1]);
            n = n.multiply(pd).add(pn.multiply(d));
            d = d.multiply(pd);
            if (d.bitLength() > 4096) { BigInteger[] r = norm(n, d); n = r[0]; d = r[1]; }
        }
        return mk(norm(n, d));
    }

    /** |a - b| <= tol * scale, or a = b */
    public static Value RClose(Value a, Value b, Value scale, Value tol) {
        BigInteger[] x = parse(a), y = parse(b), s = parse(scale), t = parse(tol);
        if (x == null || y == null || s == null || t == null) return BoolValue.ValFalse;
        BigInteger dn = x[0].multiply(y[1]).subtract(y[0].multiply(x[1])).abs();
        BigInteger dd = x[1].multiply(y[1]);
        if (dn.signum() == 0) return BoolValue.ValTrue;
        BigInteger bn = s[0].abs().multiply(t[0]);
        BigInteger bd = s[1].multiply(t[1]);
        return dn.multiply(bd).compareTo(bn.multiply(dd)) <= 0 ? BoolValue.ValTrue : BoolValue.ValFalse;
    }

    /** decimal rendering with the given number of significant digits (for witnesses only) */
    public static Value RDec(Value a, Value digits) {
        BigInteger[] x = parse(a);
        if (x == null) return UNDEF;
        int k = (digits instanceof IntValue) ? ((IntValue) digits).val : 12;
        BigDecimal v = new BigDecimal(x[0]).divide(new BigDecimal(x[1]), new java.math.MathContext(k));
        return new StringValue(v.toString());
    }

    /** sign: -1, 0, 1 (0 for undefined) */
    public static Value RSign(Value a) {
        BigInteger[] x = parse(a);
        if (x == null) return IntValue.gen(0);
        return IntValue.gen(x[0].signum());
    }
}
