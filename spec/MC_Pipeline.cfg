SPECIFICATION Spec
CONSTANTS
  ResModels = {"none", "0", "1", "2", "3", "4", "5", "6", "7", "8"}
  EconModels = {"none", "1", "4"}
  PlantTypes = {"none", "1", "2", "3", "4", "5", "6", "7", "8", "9"}
  EndUses = {"none", "1", "2", "31", "52"}
  Dump = TRUE
INVARIANT FamiliesConsistent
CHECK_DEADLOCK FALSE
