SPECIFICATION Spec
CONSTANTS
  Values = {"1", "50", "1/4"}
INVARIANT C06_compute
INVARIANT C06_echo
CHECK_DEADLOCK FALSE
