SPECIFICATION Spec
INVARIANT Ordered
INVARIANT ReportAfterCalc
INVARIANT JsonAfterReport
INVARIANT EconomicsOnce
INVARIANT ModulesBeforeEco
PROPERTY Ends
CHECK_DEADLOCK FALSE
