------------------------------- MODULE Parser -------------------------------
(***************************************************************************)
(* The result parser's field selection (GeophiresXResult._get_result_field)*)
(* on real strings (property C10): a field named f is looked up as the     *)
(* lines CONTAINING  indent \o f \o ": "  anywhere in the report, and      *)
(* set.pop() picks one of them.  The parser is a left inverse of the       *)
(* writer only if no line the writer can print for another label g matches *)
(* f's pattern.  M1: the pairwise collision matrix over every client field *)
(* and every label seen in generated reports (all writer branches).        *)
(***************************************************************************)
EXTENDS Integers, Sequences, Str, TLC, Json, IOUtils

Data == JsonDeserialize(IOEnv.TRACE_FILE)     \* [fields |-> <<[name, indent]>>, labels |-> <<[label, indent]>>]
Spaces(n) == [k \in 1..n |-> " "]
RECURSIVE Blank(_)
Blank(n) == IF n = 0 THEN "" ELSE " " \o Blank(n - 1)
Pattern(f) == Blank(f.indent) \o f.name \o ": "
Line(g) == Blank(g.indent) \o g.label \o ":        1.23 unit"

VARIABLES i, collisions
vars == <<i, collisions>>
Init == i = 1 /\ collisions = {}
(* one step per client field: which foreign labels would its pattern match? *)
CheckField == /\ i <= Len(Data.fields)
              /\ LET f == Data.fields[i]
                     hit == {j \in 1..Len(Data.labels) : Data.labels[j].label # f.name /\ StrContains(Line(Data.labels[j]), Pattern(f))}
                 IN collisions' = collisions \cup {<<f.name, Data.labels[j].label>> : j \in hit}
              /\ i' = i + 1
Report == /\ i = Len(Data.fields) + 1
          /\ PrintT(ToJson([collisions |-> collisions]))
          /\ i' = i + 1 /\ UNCHANGED collisions
Next == CheckField \/ Report
Spec == Init /\ [][Next]_vars
=============================================================================
