SPECIFICATION Spec
CONSTANTS
  Flags = {"well", "inj", "stim", "plant", "totalcap", "oamplant", "totaloam", "itc", "grant", "fee"}
  Corr = {"1", "2"}
  Fixed = "3"
  Amounts = {"1", "100"}
  Dump = FALSE
INVARIANT CapexIsSumOfParts
INVARIANT OamIsSumOfParts
INVARIANT WellFieldIsPerWellTimesCount
INVARIANT ITCIsRateTimesCost
INVARIANT FixedFiguresUsedExactly
CHECK_DEADLOCK FALSE
