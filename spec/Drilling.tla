------------------------------- MODULE Drilling -------------------------------
(***************************************************************************)
(* Total drilled length by well configuration (WellBores.                  *)
(* calculate_total_drilling_lengths_m), part of C03's well-field clause.   *)
(* The Eavor-loop configuration needs a sine and is not modelled.          *)
(* Every state's vector is dumped and replayed into the real function.     *)
(***************************************************************************)
EXTENDS Integers, Sequences, Rat, TLC, Json

CONSTANTS Depths, Lengths, Counts, Dump
Configs == {"ULOOP", "COAXIAL", "VERTICAL", "L"}

VARIABLES pc, cfg, nsec, len, din, dout, nprod, ninj, vert, lat, tot
vars == <<pc, cfg, nsec, len, din, dout, nprod, ninj, vert, lat, tot>>

Init == /\ pc = "in" /\ cfg \in Configs /\ nsec \in Counts /\ len \in Lengths /\ din \in Depths /\ dout \in Depths
        /\ nprod \in Counts \ {0} /\ ninj \in Counts
        /\ vert = "0" /\ lat = "0" /\ tot = "0"

Vertical == IF cfg = "ULOOP" THEN RAdd(RMul3(nprod, din, 1000), RMul3(ninj, dout, 1000))
            ELSE RMul3(nprod + ninj, din, 1000)
Lateral == IF cfg = "VERTICAL" THEN "0" ELSE RMul3(nsec, len, 1000)

Compute == /\ pc = "in" /\ vert' = Vertical /\ lat' = Lateral /\ tot' = RAdd(Vertical, Lateral) /\ pc' = "done"
           /\ (Dump => PrintT(ToJson([cfg |-> cfg, nsec |-> nsec, len |-> len, din |-> din, dout |-> dout, nprod |-> nprod,
                                      ninj |-> ninj, vert |-> Vertical, lat |-> Lateral, tot |-> RAdd(Vertical, Lateral)])))
           /\ UNCHANGED <<cfg, nsec, len, din, dout, nprod, ninj>>
Next == Compute
Spec == Init /\ [][Next]_vars

TotalIsSum == pc = "done" => REq(tot, RAdd(vert, lat))
NoLateralsWhenVertical == pc = "done" /\ cfg = "VERTICAL" => REq(lat, 0)
MonotoneInDepth == pc = "done" => RLeq(0, vert)
=============================================================================
