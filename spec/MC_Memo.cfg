SPECIFICATION Spec
CONSTANTS N = 3
INVARIANT CompleteKeyNeverStale
INVARIANT ChainDetects
INVARIANT GridDetects
PROPERTY Ends
CHECK_DEADLOCK FALSE
