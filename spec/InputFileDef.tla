---------------------------- MODULE InputFileDef ----------------------------
(***************************************************************************)
(* The input-file tokeniser (GeoPHIRESUtils.read_input_file) on real       *)
(* strings: strip; skip lines starting with "#", "--", "*"; split on       *)
(* commas; fewer than two fields => not a parameter line; name = field 1   *)
(* stripped, value = field 2 stripped; later lines win (property C12).     *)
(***************************************************************************)
EXTENDS Integers, Sequences, TLC

Char(s, k) == SubSeq(s, k, k)
IsSpace(c) == c \in {" ", "\t", "\r", "\n", "\f"}

RECURSIVE LStrip(_)
LStrip(s) == IF Len(s) > 0 /\ IsSpace(Char(s, 1)) THEN LStrip(SubSeq(s, 2, Len(s))) ELSE s
RECURSIVE RStrip(_)
RStrip(s) == IF Len(s) > 0 /\ IsSpace(Char(s, Len(s))) THEN RStrip(SubSeq(s, 1, Len(s) - 1)) ELSE s
Strip(s) == RStrip(LStrip(s))

StartsWith(s, p) == Len(s) >= Len(p) /\ SubSeq(s, 1, Len(p)) = p

(* fields of s separated by commas *)
RECURSIVE SplitFrom(_, _, _)
SplitFrom(s, start, k) ==
  IF k > Len(s) THEN <<SubSeq(s, start, Len(s))>>
  ELSE IF Char(s, k) = "," THEN <<SubSeq(s, start, k - 1)>> \o SplitFrom(s, k + 1, k + 1)
  ELSE SplitFrom(s, start, k + 1)
Split(s) == SplitFrom(s, 1, 1)

NoEntry == [name |-> "", value |-> "", ok |-> FALSE]
ParseLine(raw) ==
  LET line == Strip(raw) IN
  IF StartsWith(line, "#") \/ StartsWith(line, "--") \/ StartsWith(line, "*") THEN NoEntry
  ELSE LET el == Split(line) IN
       IF Len(el) < 2 THEN NoEntry ELSE [name |-> Strip(el[1]), value |-> Strip(el[2]), ok |-> TRUE]

(* the dictionary after reading one more raw line (later lines win) *)
Put(dict, raw) == LET e == ParseLine(raw) IN
                  IF e.ok THEN [n \in DOMAIN dict \cup {e.name} |-> IF n = e.name THEN e.value ELSE dict[n]] ELSE dict
RECURSIVE LoadFrom(_, _)
LoadFrom(dict, lines) == IF lines = <<>> THEN dict ELSE LoadFrom(Put(dict, Head(lines)), Tail(lines))
Empty == [n \in {} |-> ""]
Load(lines) == LoadFrom(Empty, lines)
=============================================================================
