------------------------------ MODULE InputFile ------------------------------
(***************************************************************************)
(* M1 for C12: files are built line by line from an alphabet of parameter  *)
(* lines (names with inner blanks, values with a unit, padding, trailing   *)
(* comments with and without further commas, LF / CRLF) and decoration     *)
(* lines (blank, "#", "--", "*" comments, a line without comma).  The      *)
(* tokeniser's dictionary must always equal the abstract meaning: the      *)
(* last-wins map of the parameter lines, whatever surrounds them.          *)
(***************************************************************************)
EXTENDS InputFileDef, Json, FiniteSets

CONSTANTS MaxLines, Names, Values, Pads, Trails, Eols, Decorations, Dump

VARIABLES file, dict, meaning
vars == <<file, dict, meaning>>

EolSet == {"\n", "\r\n"}
PadSet == {"", " ", "\t "}
PadSetSmall == {"", " \t"}
Render(n, val, pl, pr, tr, eol) == pl \o n \o pr \o "," \o pl \o val \o pr \o tr \o eol

Init == file = <<>> /\ dict = Empty /\ meaning = Empty

AddParam == /\ Len(file) < MaxLines
            /\ \E n \in Names, val \in Values, pl \in Pads, pr \in Pads, tr \in Trails, eol \in Eols :
                 LET raw == Render(n, val, pl, pr, tr, eol) IN
                 /\ file' = Append(file, raw)
                 /\ dict' = Put(dict, raw)                                  \* what the code's loop body does
                 /\ meaning' = [x \in DOMAIN meaning \cup {n} |-> IF x = n THEN val ELSE meaning[x]]
AddDecoration == /\ Len(file) < MaxLines
                 /\ \E d \in Decorations, eol \in Eols :
                      /\ file' = Append(file, d \o eol)
                      /\ dict' = Put(dict, d \o eol)
                      /\ UNCHANGED meaning
Emit == /\ Len(file) = MaxLines /\ Dump
        /\ PrintT(ToJson([file |-> file, names |-> [k \in 1..Cardinality(DOMAIN meaning) |-> ""], dict |-> meaning]))
        /\ UNCHANGED vars

\* the file text is a history variable: states are identified by what the reader holds
View == <<dict, meaning, Len(file)>>

Next == AddParam \/ AddDecoration \/ Emit
Spec == Init /\ [][Next]_vars

\* layout is irrelevant: the dictionary is the last-wins meaning of the parameter lines
LayoutIrrelevant == dict = meaning
\* and reading the finished file in one go gives the same
LoadAgrees == Load(file) = meaning
=============================================================================
