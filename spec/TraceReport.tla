----------------------------- MODULE TraceReport -----------------------------
(***************************************************************************)
(* Trace validation for C09: one trace = one real run of the simulator,    *)
(* the Model snapshot taken at the `calculated` hook (before the writer)   *)
(* and the lexical content of the .out file the writer then produced.      *)
(* Every labelled figure and every table cell the specification knows      *)
(* (ReportDef.tla) must equal the computed quantity, expressed in the      *)
(* printed unit (exact factors of Units.tla), rounded to the printed       *)
(* precision; tables must have one row per year, in order.                 *)
(* Lines and tables ReportDef does not know are counted, never failed.     *)
(***************************************************************************)
EXTENDS ReportDef, Units, Verdict, TLC, Json, IOUtils, FiniteSets, SequencesExt
Traces == JsonDeserialize(IOEnv.TRACE_FILE)
VARIABLES tid, v
vars == <<tid, v>>
T == Traces[tid]
Init == tid = 1 /\ v = V0

\* header / label spellings of one unit
Alias(pu, eu) == <<pu, eu>> \in {<<"MWe", "MW">>, <<"MWt", "MW">>, <<"10^15J", "10^15 J">>, <<"GWh", "GWh/year">>, <<"GWh/year", "GWh">>,
                                 <<"tonne/yr", "tonne">>}
SameUnit(pu, eu) == pu = eu \/ Alias(pu, eu)
NoLabel(pu, eu)  == pu = "" /\ eu \in {"", "%", "1", "count"}     \* pure numbers and percentages may go unlabelled
UnitOK(pu, eu)   == SameUnit(pu, eu) \/ NoLabel(pu, eu) \/ Convertible(eu, pu)
\* the computed quantity expressed in the printed unit
InUnit(qty, pu)  == IF SameUnit(pu, qty.u) \/ NoLabel(pu, qty.u) \/ ~Convertible(qty.u, pu) THEN qty.x ELSE Convert(qty.x, qty.u, pu)
\* `tok` (one unit in the last place = q) is `e` rounded to the displayed precision
Rounds(tok, q, e) == RLeq(RAbs(RSub(tok, e)), RAdd(RDiv(q, 2), RMul("1e-12", RAbs(e))))

(***************************************************************************)
(* labelled lines                                                          *)
(***************************************************************************)
FI == 1..Len(T.fields)
F(k) == T.fields[k]
Qty(k) == Field(T, F(k))
Explained(k) == IsField(Qty(k))
Numeric(k) == F(k).num /\ Explained(k) /\ RDef(Qty(k).x)
ValueOK(k) == Rounds(F(k).tok, F(k).q, InUnit(Qty(k), F(k).unit))
BadValue == {k \in FI : Numeric(k) /\ ~ValueOK(k)}
BadUnit  == {k \in FI : F(k).num /\ Explained(k) /\ ~UnitOK(F(k).unit, Qty(k).u)}
\* a payback period that was never reached is shown as N/A (and only then)
NAFields == {k \in FI : Explained(k) /\ RDef(Qty(k).x) /\ F(k).label = "Project Payback Period"}
BadNA == {k \in NAFields : (~F(k).num) # (F(k).text = "N/A" /\ RLeq(Qty(k).x, 0))}
TextFields == {k \in FI : ~F(k).num /\ TextField(T, F(k).label) \notin {"nofield", "?"}}
BadText == {k \in TextFields : F(k).text # TextField(T, F(k).label)}
Show(k) == [label |-> F(k).label, section |-> F(k).sec, printed |-> F(k).raw,
            computed |-> IF Explained(k) /\ RDef(Qty(k).x) THEN RDec(InUnit(Qty(k), F(k).unit), 8) ELSE "-",
            unit_of_quantity |-> IF Explained(k) THEN Qty(k).u ELSE "-"]
All(S) == SetToSeq({Show(k) : k \in S})

FieldClauses ==
  VAll(<<
    Clause("C09_value", \E k \in FI : Numeric(k), BadValue = {}, [bad |-> All(BadValue)]),
    Clause("C09_unit", \E k \in FI : F(k).num /\ Explained(k), BadUnit = {}, [bad |-> All(BadUnit)]),
    Clause("C09_payback_na", NAFields # {}, BadNA = {}, [bad |-> All(BadNA)]),
    Clause("C09_text", TextFields # {}, BadText = {},
           [bad |-> SetToSeq({[label |-> F(k).label, section |-> F(k).sec, printed |-> F(k).text, computed |-> TextField(T, F(k).label)] : k \in BadText})]) >>)

(***************************************************************************)
(* tables                                                                  *)
(***************************************************************************)
TI == 1..Len(T.tables)
Tb(t) == T.tables[t]
KindT(t) == Kind(Tb(t).title, IF Len(Tb(t).head) >= 1 THEN Tb(t).head[1] ELSE "")
KnownT == {t \in TI : KindT(t) # "unknown"}
NR(t) == Len(Tb(t).rows)
RowsOK(t) == NR(t) = Rows(KindT(t), T.cfg)
WidthOK(t) == \A r \in 1..NR(t) : Len(Tb(t).rows[r]) = Columns(KindT(t)) + 1
YearTok(t, r) == Tb(t).rows[r][1].tok
OrderOK(t) == \A r \in 1..NR(t) : Len(Tb(t).rows[r]) >= 1 /\ RDef(YearTok(t, r)) /\ REq(YearTok(t, r), RAdd(YearTok(t, 1), r - 1))
StartOK(t) == NR(t) >= 1 => REq(YearTok(t, 1), YearStart(KindT(t)))

\* the columns whose heading carries a unit in parentheses, in order
UnitCols(k) == IF IsProd(k) THEN [j \in 1..(Columns(k) - 1) |-> j + 1] ELSE [j \in 1..Columns(k) |-> j]
HeaderParsed(t) == Len(Tb(t).units) = Len(UnitCols(KindT(t)))
HeadUnit(t, c) ==     \* the unit announced for column c ("?" when the heading was not understood: the cell is then read in its own unit)
  LET uc == UnitCols(KindT(t)) IN
  IF HeaderParsed(t) /\ \E j \in 1..Len(uc) : uc[j] = c THEN Tb(t).units[CHOOSE j \in 1..Len(uc) : uc[j] = c] ELSE "?"
CellQty(t, r, c) == Cell(T, KindT(t), c, r - 1)
CellOK(t, r, c) ==
  LET cell == Tb(t).rows[r][c + 1]
      qty  == CellQty(t, r, c)
      hu   == HeadUnit(t, c)
  IN ~IsField(qty) \/ ~RDef(qty.x) \/ ~RDef(cell.tok) \/ Rounds(cell.tok, cell.q, IF hu = "?" THEN qty.x ELSE InUnit(qty, hu))
CellDefined(t, r, c) == IsField(CellQty(t, r, c)) /\ RDef(CellQty(t, r, c).x) /\ RDef(Tb(t).rows[r][c + 1].tok)
Cells(t) == {rc \in (1..NR(t)) \X (1..Columns(KindT(t))) : Len(Tb(t).rows[rc[1]]) = Columns(KindT(t)) + 1}
BadCells(t) == {rc \in Cells(t) : ~CellOK(t, rc[1], rc[2])}
UndefCells(t) == {rc \in Cells(t) : ~CellDefined(t, rc[1], rc[2])}
HeadOK(t) == \A c \in 1..Columns(KindT(t)) :
               LET hu == HeadUnit(t, c)  qty == Cell(T, KindT(t), c, 0) IN hu = "?" \/ ~IsField(qty) \/ UnitOK(hu, qty.u)
BranchOK(t) == /\ IsProd(KindT(t)) => KindT(t) = ProdKindOf(T.cfg)
               /\ IsAnnual(KindT(t)) => KindT(t) = AnnualKindOf(T.cfg)

ColShow(t, bad, c) ==
  LET rows == {rc[1] : rc \in {x \in bad : x[2] = c}}
      r == CHOOSE x \in rows : \A y \in rows : x <= y
  IN [column |-> c, n |-> Cardinality(rows), row |-> r, printed |-> Tb(t).rows[r][c + 1].raw,
      computed |-> RDec(CellQty(t, r, c).x, 8), unit_of_quantity |-> CellQty(t, r, c).u, heading_unit |-> HeadUnit(t, c)]
FirstBad(S) == CHOOSE rc \in S : \A o \in S : rc[1] < o[1] \/ (rc[1] = o[1] /\ rc[2] <= o[2])
TableClauses(t) ==
  LET k == KindT(t)
      w == [table |-> Tb(t).title, kind |-> k, L |-> T.cfg.L, Cy |-> T.cfg.Cy, tsy |-> T.cfg.tsy]
      bad == BadCells(t)
  IN VAll(<<
    Clause("C09_rows", TRUE, RowsOK(t), w @@ [rows |-> NR(t), expected |-> Rows(k, T.cfg)]),
    Clause("C09_row_width", NR(t) >= 1, WidthOK(t), w),
    Clause("C09_year_order", NR(t) >= 1, OrderOK(t), w @@ [years |-> [r \in 1..(IF NR(t) < 6 THEN NR(t) ELSE 6) |-> Tb(t).rows[r][1].raw]]),
    Clause("fit_year_start", NR(t) >= 1, StartOK(t), w @@ [first |-> Tb(t).rows[1][1].raw]),
    Clause("C09_cell", Cells(t) # {} /\ Cells(t) # UndefCells(t), bad = {},
           w @@ [bad |-> SetToSeq({ColShow(t, bad, c) : c \in {rc[2] : rc \in bad}})]),
    Clause("C09_table_unit", HeaderParsed(t), HeadOK(t), w @@ [units |-> Tb(t).units]),
    Clause("fit_header_units_parsed", TRUE, HeaderParsed(t), w @@ [units |-> Tb(t).units]),
    Clause("fit_cells_defined", Cells(t) # {}, UndefCells(t) = {},
           IF UndefCells(t) = {} THEN w ELSE w @@ [n |-> Cardinality(UndefCells(t)), first |-> FirstBad(UndefCells(t))]),
    Clause("fit_table_branch", IsProd(k) \/ IsAnnual(k), BranchOK(t), w @@ [enduse |-> T.cfg.enduse, plant |-> T.cfg.plant]) >>)

RECURSIVE TablesFrom(_)
TablesFrom(t) == IF t > Len(T.tables) THEN V0
                 ELSE IF KindT(t) = "unknown" THEN VJoin(Clause("unexplained_table", FALSE, TRUE, [a |-> 1]), TablesFrom(t + 1))
                 ELSE VJoin(TableClauses(t), TablesFrom(t + 1))

\* the three profiles of the main writer are there, once each
Count(P(_)) == Cardinality({t \in KnownT : P(KindT(t))})
IsRev(k) == k = "REV"
Presence == Clause("C09_profiles_present", T.mainwriter, Count(IsProd) = 1 /\ Count(IsAnnual) = 1 /\ Count(IsRev) = 1,
                   [tables |-> [t \in TI |-> Tb(t).title]])

\* the abstraction Report.tla model-checks is the real one: the configuration is an accepted one and the results
\* contain every series the chosen tables read, with the lengths assumed there
ShapeSeries == SubSeries(T.cfg) \cup AnnSeries(T.cfg) \cup TotSeries(T.cfg)
BadShape == {s \in ShapeSeries : s \notin DOMAIN T.S \/ Len(T.S[s]) # SeriesLen(T.cfg, s)}
Shape == VAll(<<
  Clause("fit_config_accepted", T.mainwriter, Accepted(T.cfg), [enduse |-> T.cfg.enduse, plant |-> T.cfg.plant]),
  Clause("fit_results_shape", T.mainwriter /\ Accepted(T.cfg) /\ T.cfg.L * T.cfg.tsy <= T.maxseries, BadShape = {},
         [series |-> BadShape, L |-> T.cfg.L, Cy |-> T.cfg.Cy, tsy |-> T.cfg.tsy]) >>)

Case == /\ tid <= Len(Traces)
        /\ LET res == VAll(<<FieldClauses, TablesFrom(1), Presence, Shape>>)
           IN PrintT(ToJson([tid |-> T.tid, e |-> res.e, f |-> res.f, s |-> res.s, w |-> res.w,
                             explained |-> Cardinality({k \in FI : F(k).num /\ Explained(k)}),
                             unexplained |-> {F(k).label : k \in {j \in FI : F(j).num /\ ~Explained(j)}}]))
        /\ tid' = tid + 1 /\ UNCHANGED v
Next == Case
Spec == Init /\ [][Next]_vars
=============================================================================
