--------------------------- MODULE TraceReadParam ---------------------------
(***************************************************************************)
(* Trace validation for C07: each record is one real read of one parameter *)
(* (Model() + read_parameters on a family base input plus one line).       *)
(*   p (ReadParamDef record), v (the value written, after the documented   *)
(*   unit conversion when a unit suffix was used), outcome "accepted" |    *)
(*   "rejected" | "other", named (error text names the parameter), after   *)
(*   (working value afterwards), factor (documented internal rescaling).   *)
(***************************************************************************)
EXTENDS ReadParamDef, Verdict, TLC, Json, IOUtils

Traces == JsonDeserialize(IOEnv.TRACE_FILE)
VARIABLES tid, v
vars == <<tid, v>>
T == Traces[tid]

Init == tid = 1 /\ v = V0

Case ==
  /\ tid <= Len(Traces)
  /\ LET p    == T.p
         x    == T.v
         want == Read(p, x, FALSE)
         w    == [param |-> T.name, written |-> T.text, outcome |-> T.outcome]
         res  == VAll(<<
           \* out of domain (and not the sentinel) => rejected with an error naming the parameter
           Clause("C07_reject", T.outcome # "other" /\ ~InDomain(p, x) /\ ~IsSentinel(p, x),
                  T.outcome = "rejected" /\ T.named, w),
           \* in the domain (generated at the bounds) => accepted and used as given
           Clause("C07_accept", T.outcome # "other" /\ InDomain(p, x),
                  T.outcome = "accepted" /\ RClose(T.after, RMul(x, T.factor), RAbs(RMul(x, T.factor)), "1e-12"),
                  w @@ [after |-> RDec(T.after, 15)]),
           \* model fit: the working value is in the domain or is the declared default
           Clause("fit_working_value_in_domain", TRUE, InDomain(p, p.cur) \/ REq(p.cur, p.def), w),
           \* model fit: the observed outcome is the decision table's
           Clause("fit_decision_table", T.outcome # "other",
                  want.outcome = T.outcome /\ (want.outcome = "accepted" => RClose(T.after, RMul(want.value, T.factor), RAbs(T.after), "1e-12")),
                  w @@ [expected |-> want.outcome]) >>)
     IN PrintT(ToJson([tid |-> T.tid, e |-> res.e, f |-> res.f, s |-> res.s, w |-> res.w]))
  /\ tid' = tid + 1 /\ UNCHANGED v

Next == Case
Spec == Init /\ [][Next]_vars
=============================================================================
