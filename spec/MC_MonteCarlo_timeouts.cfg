SPECIFICATION Spec
CONSTANTS
  Workers = {"w1", "w2", "w3"}
  NTasks = 4
  Reseed = TRUE
  FailSet = {2}
  LockTimeouts = TRUE
INVARIANT C13_distinct
INVARIANT NoReplica
INVARIANT C13_rows
INVARIANT MutualExclusion
INVARIANT C14_rows_whole
INVARIANT C14_isolated
CHECK_DEADLOCK FALSE
