SPECIFICATION Spec
CONSTANTS
  Inputs = {"a", "b", "c"}
  MaxRuns = 5
  Pure = TRUE
INVARIANT SameInputSameResult
CHECK_DEADLOCK FALSE
