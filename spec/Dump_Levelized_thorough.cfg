SPECIFICATION Spec
CONSTANTS
  MaxL = 2
  Costs = {"0", "1", "2"}
  Energies = {"1", "2"}
  Extras = {"0", "1"}
  Rates = {"0", "1/4", "1/2"}
  Ratios = {"1/4", "1/2"}
  Dump = TRUE
INVARIANT NonNegative
INVARIANT Homogeneous
INVARIANT MonotoneInCost
INVARIANT BranchOutputs
CHECK_DEADLOCK FALSE
