-------------------------------- MODULE Memo --------------------------------
(***************************************************************************)
(* Why the drivers run one-figure neighbours in one process, and why an M2 *)
(* grid gives every argument two values (DESIGN.md 11.7.7a).               *)
(*                                                                         *)
(* A process keeps a table for a function of N arguments, keyed by the     *)
(* argument positions in Key (any subset: a complete key is the correct    *)
(* design, a proper subset is the defect class "memo keyed by too few of   *)
(* its arguments").  A call returns the stored value when its key is in    *)
(* the table and computes and stores it otherwise.  The function is        *)
(* injective (its value is its argument vector), so a call is stale        *)
(* exactly when it returns a value computed for other arguments.           *)
(*                                                                         *)
(* Three driver plans over the same process:                               *)
(*   "unrelated"  calls whose arguments all differ from one call to the    *)
(*                next (what independent random configurations are)        *)
(*   "chain"      a base call, then its N neighbours, each differing from   *)
(*                the base in exactly one position (sim.run_chains)        *)
(*   "grid"       every vector over two values per position (M2 replay)    *)
(* Checked: with a complete key nothing is ever stale; with ANY proper     *)
(* subset as key the chain and the grid end with a stale call, while the   *)
(* unrelated plan stays silent unless the key is empty - which is why the  *)
(* seeded changes of this kind were missed by random configurations alone. *)
(***************************************************************************)
EXTENDS Integers, Sequences, FiniteSets, TLC

CONSTANT N
Pos == 1..N
Vals == {0, 1}
Vec == [Pos -> Vals]
Full == Pos

VARIABLES Key, plan, todo, table, stale, calls
vars == <<Key, plan, todo, table, stale, calls>>

Flip(v, p) == [v EXCEPT ![p] = 1 - @]
Zero == [p \in Pos |-> 0]
One == [p \in Pos |-> 1]

RECURSIVE SeqOf(_)
SeqOf(S) == IF S = {} THEN << >> ELSE LET x == CHOOSE y \in S : TRUE IN <<x>> \o SeqOf(S \ {x})

Plan(p) == CASE p = "unrelated" -> <<Zero, One, Zero>>           \* (every position changes from call to call; the third repeats the first)
             [] p = "chain"     -> <<Zero>> \o [i \in 1..N |-> Flip(Zero, i)]
             [] p = "grid"      -> SeqOf(Vec)

Init == /\ Key \in SUBSET Pos /\ plan \in {"unrelated", "chain", "grid"}
        /\ todo = Plan(plan) /\ table = << >> /\ stale = FALSE /\ calls = 0

KeyOf(v) == [p \in Key |-> v[p]]
Lookup(k) == {j \in 1..Len(table) : table[j].key = k}

Call == /\ todo # << >>
        /\ LET v == Head(todo)  k == KeyOf(v)  hit == Lookup(k) IN
             IF hit # {} THEN /\ stale' = (stale \/ table[CHOOSE j \in hit : TRUE].value # v)
                              /\ UNCHANGED table
             ELSE /\ table' = Append(table, [key |-> k, value |-> v])
                  /\ UNCHANGED stale
        /\ todo' = Tail(todo) /\ calls' = calls + 1
        /\ UNCHANGED <<Key, plan>>
Next == Call
Spec == Init /\ [][Next]_vars /\ WF_vars(Call)

Done == todo = << >>
CompleteKeyNeverStale == Key = Full => ~stale
ChainDetects == (Done /\ plan = "chain" /\ Key # Full) => stale
GridDetects  == (Done /\ plan = "grid" /\ Key # Full) => stale
\* expected to be VIOLATED (MC_Memo_unrelated.cfg): unrelated calls expose only the empty key
UnrelatedDetects == (Done /\ plan = "unrelated" /\ Key # Full) => stale
Ends == <>Done
=============================================================================
