-------------------------------- MODULE Client --------------------------------
(***************************************************************************)
(* The Python client and the process state it touches (properties C08,     *)
(* C20): working directory, argument vector, per-client result cache,      *)
(* input files whose content is rewritten between calls.                   *)
(*   Request(c, p)  GeophiresXClient.get_geophires_result: cache hit, or   *)
(*                  a run (main() chdirs into the package directory and    *)
(*                  replaces sys.argv) that succeeds or fails, then the    *)
(*                  restore of cwd / argv                                  *)
(*   Rewrite(p, v)  the caller edits input file p                          *)
(*   Chdir(d)       the caller changes directory                           *)
(* RestoreOnFailure / KeyIncludesContent = FALSE is the pinned design      *)
(* (restore skipped on the failure path; cache keyed by path only), TRUE   *)
(* the repaired one.  `ops` and `calls` are history variables (hidden by   *)
(* the VIEW); complete histories are dumped for replay into the real       *)
(* client.                                                                 *)
(***************************************************************************)
EXTENDS Integers, Sequences, TLC, Json

CONSTANTS Clients,            \* client ids; Caching[c] says whether it caches
          CachingClients, Paths, Versions, BadVersions, Dirs, MaxOps,
          RestoreOnFailure, KeyIncludesContent, Dump

VARIABLES cwd, argv, files, cache, ops, calls
vars == <<cwd, argv, files, cache, ops, calls>>

HomeArgv == "caller-argv"
Ok(v) == v \notin BadVersions
Key(p) == IF KeyIncludesContent THEN <<p, files[p]>> ELSE <<p>>

Init == /\ cwd \in Dirs /\ argv = HomeArgv
        /\ files \in [Paths -> Versions]
        /\ cache = [c \in Clients |-> [k \in {} |-> 0]]
        /\ ops = <<>> /\ calls = <<>>

Log(op) == Len(ops) < MaxOps /\ ops' = Append(ops, op)

CacheHit(c, p) ==
  /\ c \in CachingClients /\ Key(p) \in DOMAIN cache[c]
  /\ calls' = Append(calls, [how |-> "hit", want |-> files[p], got |-> cache[c][Key(p)], cwd0 |-> cwd, cwd1 |-> cwd, argv1 |-> argv])
  /\ Log([op |-> "request", client |-> c, path |-> p])
  /\ UNCHANGED <<cwd, argv, files, cache>>

RunOk(c, p) ==
  /\ ~(c \in CachingClients /\ Key(p) \in DOMAIN cache[c]) /\ Ok(files[p])
  /\ cache' = IF c \in CachingClients
              THEN [cache EXCEPT ![c] = [k \in DOMAIN cache[c] \cup {Key(p)} |-> IF k = Key(p) THEN files[p] ELSE cache[c][k]]]
              ELSE cache
  /\ calls' = Append(calls, [how |-> "ok", want |-> files[p], got |-> files[p], cwd0 |-> cwd, cwd1 |-> cwd, argv1 |-> argv])
  /\ Log([op |-> "request", client |-> c, path |-> p])
  /\ UNCHANGED <<cwd, argv, files>>

RunFail(c, p) ==
  /\ ~(c \in CachingClients /\ Key(p) \in DOMAIN cache[c]) /\ ~Ok(files[p])
  /\ cwd'  = IF RestoreOnFailure THEN cwd ELSE "package-dir"
  /\ argv' = IF RestoreOnFailure THEN argv ELSE "run-argv"
  /\ calls' = Append(calls, [how |-> "fail", want |-> files[p], got |-> "none", cwd0 |-> cwd, cwd1 |-> cwd', argv1 |-> argv'])
  /\ Log([op |-> "request", client |-> c, path |-> p])
  /\ UNCHANGED <<files, cache>>

Rewrite(p, v) == /\ v # files[p] /\ files' = [files EXCEPT ![p] = v]
                 /\ Log([op |-> "rewrite", path |-> p, version |-> v])
                 /\ UNCHANGED <<cwd, argv, cache, calls>>
Chdir(d) == /\ d # cwd /\ cwd' = d /\ Log([op |-> "chdir", dir |-> d]) /\ UNCHANGED <<argv, files, cache, calls>>

Emit == /\ Len(ops) = MaxOps /\ Dump
        /\ PrintT(ToJson([start |-> [cwd |-> IF calls = <<>> THEN cwd ELSE calls[1].cwd0], ops |-> ops]))
        /\ UNCHANGED vars
Next == \/ \E c \in Clients, p \in Paths : CacheHit(c, p) \/ RunOk(c, p) \/ RunFail(c, p)
        \/ \E p \in Paths, v \in Versions : Rewrite(p, v)
        \/ \E d \in Dirs : Chdir(d)
        \/ Emit
Spec == Init /\ [][Next]_vars

View == <<cwd, argv, files, cache, Len(ops)>>

(* ---- C08 ---- *)
C08_restore == \A k \in 1..Len(calls) : calls[k].cwd1 = calls[k].cwd0 /\ calls[k].argv1 = HomeArgv
C08_fresh   == \A k \in 1..Len(calls) : calls[k].how # "fail" => calls[k].got = calls[k].want
=============================================================================
