SPECIFICATION Spec
CONSTANTS
  MaxL = 3
  MaxN = 3
  Overs = {"100", "150", "200"}
  Rates = {"10", "25", "40", "70", "100", "300"}
  Infls = {"0", "50", "100"}
  Dump = TRUE
INVARIANT C15_start
INVARIANT C15_monotone
INVARIANT C15_floor
INVARIANT C15_rate
INVARIANT C15_inj
INVARIANT C15_inj_rises
CHECK_DEADLOCK FALSE
