------------------------------ MODULE Hydraulics ------------------------------
(***************************************************************************)
(* M1 for C15: the two pressure predictors as loop machines (one action    *)
(* per time step, with the code's "clamp and break") over every small      *)
(* (L, n, overpressure, depletion rate, inflation rate), including rates   *)
(* for which 100/rate*n is not a whole number.                             *)
(***************************************************************************)
EXTENDS HydraulicsDef, TLC, Json

CONSTANTS MaxL, MaxN, Overs, Rates, Infls, Dump
P0 == "1000"

VARIABLES pc, L, n, ov, rate, infl, t, p, q, broke
vars == <<pc, L, n, ov, rate, infl, t, p, q, broke>>
NT == L * n

Init == /\ pc = "deplete" /\ t = 1 /\ broke = FALSE
        /\ L \in 1..MaxL /\ n \in 1..MaxN /\ ov \in Overs /\ rate \in Rates /\ infl \in Infls
        /\ p = [k \in 1..(L * n) |-> IF k = 1 /\ ~REq(ov, 100) THEN Start(P0, ov) ELSE P0]
        /\ q = [k \in 1..(L * n) |-> P0]

\* a depletion rate above 100*n %/yr makes the number of depletion steps zero: the code divides by it and the run dies
\* (ZeroDivisionError on an accepted input -- recorded observation, no listed property); modelled as a crash
Crash == /\ pc = "deplete" /\ ~REq(ov, 100) /\ DepletionSteps(rate, n) = 0
         /\ pc' = "crashed"
         /\ (Dump => PrintT(ToJson([L |-> L, n |-> n, ov |-> ov, rate |-> rate, infl |-> infl, p0 |-> P0, crash |-> TRUE])))
         /\ UNCHANGED <<L, n, ov, rate, infl, t, p, q, broke>>
Deplete == /\ pc = "deplete" /\ t < NT /\ ~broke /\ ~REq(ov, 100) /\ DepletionSteps(rate, n) > 0
           /\ LET D   == DepletionSteps(rate, n)
                  raw == RSub(p[1], RMul(RDiv(RSub(p[1], P0), D), t))
              IN IF RLt(raw, P0) THEN p' = [p EXCEPT ![t + 1] = P0] /\ broke' = TRUE      \* clamp and break
                 ELSE p' = [p EXCEPT ![t + 1] = raw] /\ UNCHANGED broke
           /\ t' = t + 1 /\ UNCHANGED <<pc, L, n, ov, rate, infl, q>>
DepleteDone == /\ pc = "deplete" /\ (t = NT \/ broke \/ REq(ov, 100)) /\ (REq(ov, 100) \/ DepletionSteps(rate, n) > 0)
               /\ pc' = "inflate" /\ t' = 1 /\ UNCHANGED <<L, n, ov, rate, infl, p, q, broke>>
Inflate == /\ pc = "inflate" /\ t < NT /\ ~REq(infl, 0)
           /\ q' = [q EXCEPT ![t + 1] = RAdd(P0, RMul(RDiv(infl, n), t))]
           /\ t' = t + 1 /\ UNCHANGED <<pc, L, n, ov, rate, infl, p, broke>>
InflateDone == /\ pc = "inflate" /\ (t = NT \/ REq(infl, 0))
               /\ pc' = "done"
               /\ (Dump => PrintT(ToJson([L |-> L, n |-> n, ov |-> ov, rate |-> rate, infl |-> infl, p0 |-> P0, p |-> p, q |-> q])))
               /\ UNCHANGED <<L, n, ov, rate, infl, t, p, q, broke>>
Next == Crash \/ Deplete \/ DepleteDone \/ Inflate \/ InflateDone
Spec == Init /\ [][Next]_vars

Done == pc = "done"
C15_start    == Done => REq(p[1], Start(P0, ov))
C15_monotone == Done => \A k \in 1..(NT - 1) : RLeq(p[k + 1], p[k])
C15_floor    == Done => \A k \in 1..NT : RLeq(P0, p[k])
C15_rate     == Done => \A k \in 1..NT : REq(p[k], Production(P0, ov, DepletionSteps(rate, n), k - 1))
C15_inj      == Done => \A k \in 1..NT : REq(q[k], Injection(P0, infl, n, k - 1))
C15_inj_rises == Done => \A k \in 1..(NT - 1) : RLeq(q[k], q[k + 1])
=============================================================================
