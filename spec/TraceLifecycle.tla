--------------------------- MODULE TraceLifecycle ---------------------------
(***************************************************************************)
(* Every real run (accepted or refused) observed by the harness: its stage *)
(* sequence is a behaviour of Lifecycle.tla - a prefix of the expected     *)
(* sequence, complete exactly when the run succeeded, report / JSON on     *)
(* disk exactly when their stage was reached.                              *)
(***************************************************************************)
EXTENDS LifecycleDef, Verdict, Json, IOUtils, TLC
Traces == JsonDeserialize(IOEnv.TRACE_FILE)
VARIABLES tid, v
tvars == <<tid, v>>
T == Traces[tid]
TInit == tid = 1 /\ v = V0
Reached(s) == \E k \in 1..Len(T.stages) : T.stages[k] = s
Case == /\ tid <= Len(Traces)
        /\ LET w == [stages |-> T.stages, district_heating |-> T.dh, status |-> T.status]
               res == VAll(<<
                 Clause("X_lifecycle_order", TRUE, IsPrefix(T.stages, Expected(T.dh)), w),
                 Clause("X_lifecycle_complete", T.status = "ok", T.stages = Expected(T.dh), w),
                 Clause("X_lifecycle_failed_stops", T.status # "ok", T.stages # Expected(T.dh), w),
                 Clause("X_report_iff_printed", TRUE, T.report = Reached("printed"), w @@ [report |-> T.report]),
                 Clause("X_json_iff_written", TRUE, T.json = Reached("json_written"), w @@ [json |-> T.json]) >>)
           IN PrintT(ToJson([tid |-> T.tid, e |-> res.e, f |-> res.f, s |-> res.s, w |-> res.w]))
        /\ tid' = tid + 1 /\ UNCHANGED v
TNext == Case
TraceSpec == TInit /\ [][TNext]_tvars
=============================================================================
