SPECIFICATION Spec
CONSTANTS
  MaxL = 3
  MaxN = 3
  Vals = {"0", "1", "2"}
  Utils = {"1", "1/2"}
  Dump = FALSE
INVARIANT SliceNeverEmpty
INVARIANT SlicesTile
INVARIANT WholeYearsAddUp
INVARIANT ConstantSeries
INVARIANT Bounded
INVARIANT RemainingMonotone
CHECK_DEADLOCK FALSE
