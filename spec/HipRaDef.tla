------------------------------- MODULE HipRaDef -------------------------------
(***************************************************************************)
(* Heat-in-place assessment (property C17): the volumetric cascade of      *)
(* HIP_RA_X.Calculate in statement order.  Water-property values enter as  *)
(* free constants of the run: dh, ds (net enthalpy / entropy between       *)
(* reservoir and rejection temperature), rho_f, eta_rec (RecoverableHeat), *)
(* eta_util (UtilEff_func), t0 (rejection temperature, K).                 *)
(* Input record h: area, thick, por (%), fluidfactor, rho_r, rho_f, cp_r   *)
(* (volumetric rock heat capacity), dT, recrock, dh, ds, t0, eta_rec,      *)
(* eta_util, life (years).                                                 *)
(***************************************************************************)
EXTENDS Integers, Sequences, Rat

Cascade(h) ==
  LET vol      == RMul(h.area, h.thick)
      vrock    == RMul(vol, RSub(1, RDiv(h.por, 100)))
      vfluid   == RMul3(vol, RDiv(h.por, 100), h.fluidfactor)
      mrock    == RMul(vrock, h.rho_r)
      mfluid   == RMul(vfluid, h.rho_f)
      hrock    == RDiv(RMul3(h.cp_r, h.dT, vrock), mrock)
      srock    == RMul3(h.recrock, hrock, mrock)
      sfluid   == RMul(h.dh, mfluid)
      stored   == RAdd(srock, sfluid)
      produced == RDiv(stored, h.dh)                          \* Garg & Combs (2011) eq. 4
      exergy   == RSub(h.dh, RMul(h.t0, h.ds))                \* eq. 7
      avail    == RMul(produced, exergy)                      \* eq. 8
      prod     == RMul(avail, h.eta_rec)
      kw       == RMul(h.eta_util, RDiv(avail, RMul(h.life, 31536000)))
      mw       == RDiv(kw, 1000)
  IN [volume |-> vol, volume_rock |-> vrock, volume_fluid |-> vfluid, mass_rock |-> mrock, stored_rock |-> srock,
      stored_fluid |-> sfluid, stored |-> stored, available |-> avail, producible |-> prod, electricity |-> mw,
      recovery |-> RDiv(prod, stored), enthalpy_rock |-> hrock, enthalpy_fluid |-> exergy,
      heat_per_area |-> RDiv(prod, h.area), heat_per_volume |-> RDiv(prod, vol),
      elec_per_area |-> RDiv(mw, h.area), elec_per_volume |-> RDiv(mw, vol)]

Extensive == {"volume", "volume_rock", "volume_fluid", "mass_rock", "stored_rock", "stored_fluid", "stored", "available", "producible", "electricity"}
IntensiveArea == {"recovery", "enthalpy_rock", "enthalpy_fluid", "heat_per_area", "heat_per_volume", "elec_per_area", "elec_per_volume"}
IntensiveThick == {"recovery", "enthalpy_rock", "enthalpy_fluid", "heat_per_volume", "elec_per_volume"}
=============================================================================
