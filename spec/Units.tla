-------------------------------- MODULE Units --------------------------------
(***************************************************************************)
(* The program's own unit catalogue (Units.py) as a table                  *)
(*    unit text |-> (dimension, scale, offset)                             *)
(* quantity in the dimension's base unit = scale * value + offset.         *)
(* Scales are exact rationals transcribed from the SI / NIST definitions   *)
(* (international foot 0.3048 m, inch 0.0254 m, mile 1609.344 m, pound     *)
(* 0.45359237 kg, ounce = pound/16, short ton 2000 lb, g_n 9.80665 m/s^2,  *)
(* Julian year 365.25 d, BTU_IT 1055.05585262 J) -- NOT taken from pint.   *)
(* Units with no second convertible member in the catalogue are omitted.   *)
(***************************************************************************)
EXTENDS Integers, Sequences, Rat

U(u, d, s, o) == [unit |-> u, dim |-> d, scale |-> s, offset |-> o]
Ft == "0.3048"   In == "0.0254"   Mi == "1609.344"   Lb == "0.45359237"   Oz == "0.028349523125"   Yr == "31557600"
Sq(x) == RMul(x, x)
Cu(x) == RMul3(x, x, x)
Psi == RDiv(RMul(Lb, "9.80665"), Sq(In))
F59 == "5/9"
KWh == "3600000"
MMBTU == "1055055852.62"

Catalogue == <<
  U("meter", "length", "1", "0"), U("centimeter", "length", "1/100", "0"), U("kilometer", "length", "1000", "0"),
  U("ft", "length", Ft, "0"), U("in", "length", In, "0"), U("mile", "length", Mi, "0"),
  U("m**2", "area", "1", "0"), U("cm**2", "area", "1/10000", "0"), U("km**2", "area", "1000000", "0"),
  U("ft**2", "area", Sq(Ft), "0"), U("in**2", "area", Sq(In), "0"), U("mi**2", "area", Sq(Mi), "0"),
  U("m**3", "volume", "1", "0"), U("cm**3", "volume", "1/1000000", "0"), U("km**3", "volume", "1000000000", "0"),
  U("ft**3", "volume", Cu(Ft), "0"), U("in**3", "volume", Cu(In), "0"), U("mi**3", "volume", Cu(Mi), "0"),
  U("gram", "mass", "1/1000", "0"), U("kilogram", "mass", "1", "0"), U("tonne", "mass", "1000", "0"), U("ton", "mass", RMul(2000, Lb), "0"),
  U("kilotonne", "mass", "1000000", "0"), U("pound", "mass", Lb, "0"), U("ounce", "mass", Oz, "0"),
  U("kg/m**3", "density", "1", "0"), U("gr/cm**3", "density", "1000", "0"), U("kg/km**3", "density", "1/1000000000", "0"),
  U("lbs/ft**3", "density", RDiv(Lb, Cu(Ft)), "0"), U("oz/in**3", "density", RDiv(Oz, Cu(In)), "0"), U("lbs/mi**3", "density", RDiv(Lb, Cu(Mi)), "0"),
  U("msec", "time", "1/1000", "0"), U("sec", "time", "1", "0"), U("min", "time", "60", "0"), U("hr", "time", "3600", "0"),
  U("day", "time", "86400", "0"), U("week", "time", "604800", "0"), U("yr", "time", Yr, "0"),
  U("MPa", "pressure", "1000000", "0"), U("kPa", "pressure", "1000", "0"), U("Pa", "pressure", "1", "0"), U("bar", "pressure", "100000", "0"),
  U("kbar", "pressure", "100000000", "0"), U("psi", "pressure", Psi, "0"),
  U("degC", "temperature", "1", "273.15"), U("degF", "temperature", F59, RMul("459.67", F59)), U("degK", "temperature", "1", "0"),
  U("degC/km", "gradient", "1/1000", "0"), U("degF/mi", "gradient", RDiv(F59, Mi), "0"), U("degC/m", "gradient", "1", "0"),
  U("Wh", "energy", "3600", "0"), U("kWh", "energy", KWh, "0"), U("MWh", "energy", "3600000000", "0"), U("GWh", "energy", "3600000000000", "0"),
  U("J", "energy", "1", "0"), U("kJ", "energy", "1000", "0"),
  U("W", "power", "1", "0"), U("kW", "power", "1000", "0"), U("MW", "power", "1000000", "0"), U("GW", "power", "1000000000", "0"),
  U("kWh/yr", "energyrate", RDiv(KWh, Yr), "0"), U("MWh/hr", "energyrate", "1000000", "0"), U("MWh/day", "energyrate", RDiv("3600000000", 86400), "0"),
  U("MWh/year", "energyrate", RDiv("3600000000", Yr), "0"), U("GWh/year", "energyrate", RDiv("3600000000000", Yr), "0"),
  U("USD/kWh", "costperenergy", "1", "0"), U("USD/MWh", "costperenergy", "1/1000", "0"), U("cents/kWh", "costperenergy", "1/100", "0"),
  U("USD/MMBTU", "costperenergy", RDiv(KWh, MMBTU), "0"),
  U("USD/kW", "costperpower", "1", "0"), U("cents/kW", "costperpower", "1/100", "0"),
  U("MUSD", "usd", "1000000", "0"), U("KUSD", "usd", "1000", "0"), U("USD", "usd", "1", "0"),
  U("MUSD/yr", "usdperyear", "1000000", "0"), U("KUSD/yr", "usdperyear", "1000", "0"), U("USD/yr", "usdperyear", "1", "0"),
  U("cents/mt", "costpermass", "1/100000", "0"), U("USD/mt", "costpermass", "1/1000", "0"), U("USD/tonne", "costpermass", "1/1000", "0"),
  U("cents/lb", "costpermass", RDiv("1/100", Lb), "0"), U("USD/lb", "costpermass", RDiv(1, Lb), "0"),
  U("%", "fraction", "1/100", "0"), U("", "fraction", "1", "0") >>

Index(u) == CHOOSE k \in 1..Len(Catalogue) : Catalogue[k].unit = u
Known(u) == \E k \in 1..Len(Catalogue) : Catalogue[k].unit = u
Dim(u) == Catalogue[Index(u)].dim
Convertible(u, w) == Known(u) /\ Known(w) /\ Dim(u) = Dim(w)
(* the physical quantity a number denotes when read in unit u *)
Denote(x, u) == RAdd(RMul(Catalogue[Index(u)].scale, x), Catalogue[Index(u)].offset)
(* the number that denotes, in unit w, the quantity x has in unit u *)
Convert(x, u, w) == RDiv(RSub(Denote(x, u), Catalogue[Index(w)].offset), Catalogue[Index(w)].scale)
SameQuantity(x, u, y, w) == Convertible(u, w) /\ RClose(Denote(x, u), Denote(y, w), RAdd(RAbs(Denote(x, u)), RAbs(Catalogue[Index(u)].offset)), "1e-9")
=============================================================================
