----------------------------- MODULE ReportDef -----------------------------
(***************************************************************************)
(* C09: what every figure of the text case report stands for.              *)
(*                                                                         *)
(* X is one observed run: X.cfg (lifetime L, construction years Cy, time   *)
(* steps per year tsy, end-use, plant type, ...), X.Q (every parameter and *)
(* output of the live Model between Calculate() and PrintOutputs(): "v"    *)
(* for scalars, first/mean/max/min/last/sum for series, "l" for short      *)
(* lists), X.S (whole series), X.U (the unit each value is expressed in).  *)
(* Names are '<object>.<attribute>' of the Model; the projection selects   *)
(* nothing by meaning.                                                     *)
(*                                                                         *)
(*   Field(X, sec, label)   the computed quantity a labelled line states   *)
(*   Kind(title, head)      which table a header announces                 *)
(*   Cell(X, kind, c, i)    the quantity in column c of row i (0-based)    *)
(*   Rows / YearStart       one row per simulated (and construction) year  *)
(* A quantity is a record [x |-> exact rational, u |-> unit it is in].     *)
(* This is a hand transcription of the MEANING of each label of            *)
(* Outputs.py / OutputsAddOns.py / OutputsS_DAC_GT.py, not generated from  *)
(* them.                                                                   *)
(***************************************************************************)
EXTENDS Rat, Naturals, Sequences

NoField == [x |-> "nofield", u |-> ""]
IsField(f) == f.x # "nofield"

Has(X, s)      == s \in DOMAIN X.Q
Agg(X, s, a)   == IF Has(X, s) /\ a \in DOMAIN X.Q[s] THEN X.Q[s][a] ELSE "undef"
UnitOf(X, s)   == IF s \in DOMAIN X.U THEN X.U[s].cur ELSE "?"
Flag(X, s, a)  == Has(X, s) /\ a \in DOMAIN X.Q[s] /\ X.Q[s][a] = TRUE
Txt(X, s)      == IF Has(X, s) /\ "s" \in DOMAIN X.Q[s] THEN X.Q[s].s ELSE "?"

\* a scalar in its own unit; an aggregate of a series in the series' unit (a scalar is its own aggregate)
QV(X, s)       == [x |-> Agg(X, s, "v"), u |-> UnitOf(X, s)]
QA(X, s, a)    == [x |-> IF Has(X, s) /\ "v" \in DOMAIN X.Q[s] THEN X.Q[s].v ELSE Agg(X, s, a), u |-> UnitOf(X, s)]
QAs(X, s, a, us) == [x |-> QA(X, s, a).x, u |-> UnitOf(X, us)]       \* value of s labelled with the unit of us
Item(X, s, k)  == [x |-> IF Has(X, s) /\ "l" \in DOMAIN X.Q[s] /\ k <= Len(X.Q[s].l) THEN X.Q[s].l[k] ELSE "undef", u |-> UnitOf(X, s)]
Lit(x, u)      == [x |-> x, u |-> u]
Pct(X, s)      == Lit(RMul(Agg(X, s, "v"), 100), "%")                \* stored as a fraction, shown as a percentage
Scaled(q, k)   == [x |-> RDiv(q.x, k), u |-> q.u]
GWhOf(X, s)    == Lit(RDiv(Agg(X, s, "mean"), 1000000), "GWh")       \* kWh per year -> GWh per year
Plus(a, b)     == [x |-> RAdd(a.x, b.x), u |-> a.u]
Wells(X)       == RAdd(Agg(X, "wellbores.nprod", "v"), Agg(X, "wellbores.ninj", "v"))

Stat(l)  == CASE l = "Maximum" -> "max" [] l = "Average" -> "mean" [] l = "Minimum" -> "min" [] l = "Initial" -> "first" [] OTHER -> "none"

\* "<Maximum|Average|Minimum|Initial> <what>" families of the results sections
StatField(X, stat, what) ==
  LET a == Stat(stat) IN
  IF a = "none" THEN NoField ELSE
  CASE what = "Production Temperature"          -> QA(X, "wellbores.ProducedTemperature", a)
    [] what = "Total Electricity Generation"    -> QA(X, "surfaceplant.ElectricityProduced", a)
    [] what = "Net Electricity Generation"      -> QA(X, "surfaceplant.NetElectricityProduced", a)
    [] what = "Net Heat Production"             -> QA(X, "surfaceplant.HeatProduced", a)
    [] what = "Cooling Production"              -> QA(X, "surfaceplant.cooling_produced", a)
    [] what = "Daily District Heating Demand"   -> QA(X, "surfaceplant.daily_heating_demand", a)
    [] what = "Geothermal Heating Production"   -> QA(X, "surfaceplant.dh_geothermal_heating", a)
    [] what = "Peaking Boiler Heat Production"  -> QA(X, "surfaceplant.dh_natural_gas_heating", a)
    \* reservoir thermal energy storage (SUTRA writer)
    [] what = "Storage Well Temperature"        -> QA(X, "wellbores.ProducedTemperature", a)
    [] what = "Balance Well Temperature"        -> QA(X, "wellbores.Tinj", a)
    [] what = "Annual Heat Stored"              -> QA(X, "reserv.AnnualHeatStored", a)
    [] what = "Annual Heat Supplied"            -> QA(X, "reserv.AnnualHeatSupplied", a)
    [] OTHER -> NoField

PlainField(X, sec, l) ==
  CASE l = "Average Net Electricity Production"   -> QA(X, "surfaceplant.NetElectricityProduced", "mean")
    [] l = "Average Direct-Use Heat Production"   -> QA(X, "surfaceplant.HeatProduced", "mean")
    [] l = "Annual District Heating Demand"       -> QA(X, "surfaceplant.annual_heating_demand", "mean")
    [] l = "Average Annual Geothermal Heat Production" ->
         [x |-> RDiv(RMul(Agg(X, "surfaceplant.dh_geothermal_heating", "sum"), 24), RMul(X.cfg.L, 1000)),
          u |-> UnitOf(X, "surfaceplant.annual_heating_demand")]
    [] l = "Average Annual Peaking Fuel Heat Production" ->
         [x |-> RDiv(RMul(Agg(X, "surfaceplant.dh_natural_gas_heating", "sum"), 24), RMul(X.cfg.L, 1000)),
          u |-> UnitOf(X, "surfaceplant.annual_heating_demand")]
    [] l = "Electricity breakeven price"                  -> QV(X, "economics.LCOE")
    [] l = "Direct-Use heat breakeven price (LCOH)"       -> QV(X, "economics.LCOH")
    [] l = "Direct-Use Cooling Breakeven Price (LCOC)"    -> QV(X, "economics.LCOC")
    [] l \in {"Number of production wells", "Number of Production Wells"} -> QV(X, "wellbores.nprod")
    [] l \in {"Number of injection wells", "Number of Injection Wells"}   -> QV(X, "wellbores.ninj")
    [] l = "Flowrate per production well"         -> QV(X, "wellbores.prodwellflowrate")
    [] l = "Well depth"                           -> QV(X, "reserv.depth")
    [] l = "Geothermal gradient"                  -> Item(X, "reserv.gradient", 1)
    [] l = "Segment 1 Geothermal gradient"        -> Item(X, "reserv.gradient", 1)
    [] l = "Segment 2 Geothermal gradient"        -> Item(X, "reserv.gradient", 2)
    [] l = "Segment 3 Geothermal gradient"        -> Item(X, "reserv.gradient", 3)
    [] l = "Segment 4 Geothermal gradient"        -> Item(X, "reserv.gradient", 4)
    [] l = "Segment 1 Thickness"                  -> Item(X, "reserv.layerthickness", 1)
    [] l = "Segment 2 Thickness"                  -> Item(X, "reserv.layerthickness", 2)
    [] l = "Segment 3 Thickness"                  -> Item(X, "reserv.layerthickness", 3)
    [] l = "Total Avoided Carbon Emissions"       -> QV(X, "economics.CarbonThatWouldHaveBeenProducedTotal")
    \* economic parameters
    [] l = "Fixed Charge Rate (FCR)"              -> Pct(X, "economics.FCR")
    [] l = "Interest Rate"                        -> QV(X, "economics.interest_rate")
    [] l = "Accrued financing during construction" -> Pct(X, "economics.inflrateconstruction")
    [] l = "Project lifetime"                     -> QV(X, "surfaceplant.plant_lifetime")
    [] l = "Capacity factor"                      -> Pct(X, "surfaceplant.utilization_factor")
    [] l = "Project NPV"                          -> QV(X, "economics.ProjectNPV")
    [] l = "Project IRR"                          -> QV(X, "economics.ProjectIRR")
    [] l = "Project VIR=PI=PIR"                   -> QV(X, "economics.ProjectVIR")
    [] l = "Project MOIC"                         -> QV(X, "economics.ProjectMOIC")
    [] l = "Project Payback Period"               -> QV(X, "economics.ProjectPaybackPeriod")
    [] l = "CHP: Percent cost allocation for electrical plant" -> Pct(X, "economics.CAPEX_heat_electricity_plant_ratio")
    [] l = "Estimated Jobs Created"               -> QV(X, "economics.jobs_created")
    \* engineering parameters
    [] l = "Water loss rate"                      -> Pct(X, "reserv.waterloss")
    [] l = "Pump efficiency"                      -> QV(X, "surfaceplant.pump_efficiency")
    [] l = "Injection temperature"                -> QV(X, "wellbores.Tinj")
    [] l \in {"Average production well temperature drop", "Average Production Well Temperature Drop"}
                                                  -> QA(X, "wellbores.ProdTempDrop", "mean")
    [] l \in {"Constant production well temperature drop", "Wellbore Heat Transmission Model = Constant Temperature Drop"}
                                                  -> QV(X, "wellbores.tempdropprod")
    [] l = "Injection well casing ID"             -> QV(X, "wellbores.injwelldiam")
    [] l = "Production well casing ID"            -> QV(X, "wellbores.prodwelldiam")
    [] l = "Number of times redrilling"           -> QV(X, "wellbores.redrill")
    \* resource characteristics, reservoir parameters
    [] l = "Maximum reservoir temperature"        -> QV(X, "reserv.Tmax")
    [] l = "Number of segments"                   -> QV(X, "reserv.numseg")
    [] l = "m/A Drawdown Parameter"               -> QV(X, "reserv.drawdp")
    [] l = "Annual Thermal Drawdown"              -> [x |-> RMul(Agg(X, "reserv.drawdp", "v"), 100), u |-> UnitOf(X, "reserv.drawdp")]
    [] l = "Bottom-hole temperature"              -> QV(X, "reserv.Trock")
    [] l \in {"Well separation: fracture diameter", "Well separation: fracture height"}
                                                  -> QAs(X, "reserv.fracheightcalc", "v", "reserv.fracheight")
    [] l = "Fracture width"                       -> QAs(X, "reserv.fracwidthcalc", "v", "reserv.fracwidth")
    [] l = "Fracture area"                        -> QAs(X, "reserv.fracareacalc", "v", "reserv.fracarea")
    [] l = "Number of fractures"                  -> Lit(Agg(X, "reserv.fracnumbcalc", "v"), "")
    [] l = "Fracture separation"                  -> QAs(X, "reserv.fracsepcalc", "v", "reserv.fracsep")
    [] l = "Reservoir volume"                     -> QAs(X, "reserv.resvolcalc", "v", "reserv.resvol")
    [] l = "Reservoir impedance"                  -> Scaled(QV(X, "wellbores.impedance"), 1000)
    [] l = "Average reservoir pressure"           -> QV(X, "wellbores.average_production_reservoir_pressure")
    [] l = "Reservoir hydrostatic pressure"       -> QA(X, "wellbores.production_reservoir_pressure", "first")
    [] l = "Plant outlet pressure"                -> QV(X, "surfaceplant.plant_outlet_pressure")
    [] l = "Production wellhead pressure"         -> QV(X, "wellbores.Pprodwellhead")
    [] l = "Productivity Index"                   -> QV(X, "wellbores.PI")
    [] l = "Injectivity Index"                    -> QV(X, "wellbores.II")
    [] l = "Reservoir density"                    -> QV(X, "reserv.rhorock")
    [] l = "Reservoir thermal conductivity"       -> QV(X, "reserv.krock")
    [] l = "Reservoir heat capacity"              -> QV(X, "reserv.cprock")
    [] l = "Reservoir porosity"                   -> Pct(X, "reserv.porrock")
    [] l = "Reservoir permeability"               -> QV(X, "reserv.permrock")
    [] l = "Reservoir thickness"                  -> QV(X, "reserv.resthickness")
    [] l = "Reservoir width"                      -> QV(X, "reserv.reswidth")
    [] l = "Well separation"                      -> QV(X, "wellbores.wellsep")
    \* reservoir simulation results
    [] l = "Average Reservoir Heat Extraction"    -> QA(X, "surfaceplant.HeatExtracted", "mean")
    [] l = "Total Average Pressure Drop"          -> QA(X, "wellbores.DPOverall", "mean")
    [] l \in {"Average Injection Well Pressure Drop", "Average Injection Well Pump Pressure Drop"}
                                                  -> QA(X, "wellbores.DPInjWell", "mean")
    [] l = "Average Reservoir Pressure Drop"      -> QA(X, "wellbores.DPReserv", "mean")
    [] l \in {"Average Production Well Pressure Drop", "Average Production Well Pump Pressure Drop"}
                                                  -> QA(X, "wellbores.DPProdWell", "mean")
    [] l = "Average Buoyancy Pressure Drop"       -> QA(X, "wellbores.DPBouyancy", "mean")
    \* capital costs
    [] l \in {"Drilling and completion costs", "Drilling and completion costs (for redrilling)"} -> QV(X, "economics.Cwell")
    [] l \in {"Drilling and completion costs per vertical production well", "Drilling and completion costs per production well"}
                                                  -> QV(X, "economics.cost_one_production_well")
    [] l \in {"Drilling and completion costs per vertical injection well", "Drilling and completion costs per injection well"}
                                                  -> QV(X, "economics.cost_one_injection_well")
    [] l = "Drilling and completion costs per non-vertical section"
                                                  -> QAs(X, "economics.cost_per_lateral_section", "v", "economics.cost_lateral_section")
    [] l \in {"Drilling and completion costs per well", "Drilling and completion costs per redrilled well"}
                                                  -> [x |-> RDiv(Agg(X, "economics.Cwell", "v"), Wells(X)), u |-> UnitOf(X, "economics.Cwell")]
    [] l \in {"Stimulation costs", "Stimulation costs (for redrilling)"} -> QV(X, "economics.Cstim")
    [] l = "Surface power plant costs"            -> QV(X, "economics.Cplant")
    [] l = "of which Absorption Chiller Cost"     -> QAs(X, "economics.chillercapex", "v", "economics.Cplant")
    [] l = "of which Heat Pump Cost"              -> QAs(X, "economics.heatpumpcapex", "v", "economics.Cplant")
    [] l = "of which Peaking Boiler Cost"         -> QV(X, "economics.peakingboilercost")
    [] l = "Field gathering system costs"         -> QV(X, "economics.Cgath")
    [] l = "Transmission pipeline cost"           -> QV(X, "economics.Cpiping")
    [] l = "District Heating System Cost"         -> QV(X, "economics.dhdistrictcost")
    [] l = "Total surface equipment costs"        -> Plus(QV(X, "economics.Cplant"), QV(X, "economics.Cgath"))
    [] l = "Exploration costs"                    -> QV(X, "economics.Cexpl")
    [] l = "Investment Tax Credit"                -> [x |-> RNeg(Agg(X, "economics.RITCValue", "v")), u |-> UnitOf(X, "economics.RITCValue")]
    [] l = "Total capital costs"                  -> QV(X, "economics.CCap")
    [] l = "Annualized capital costs"             ->
         [x |-> RMul3(Agg(X, "economics.CCap", "v"), RAdd(1, Agg(X, "economics.inflrateconstruction", "v")), Agg(X, "economics.FCR", "v")),
          u |-> UnitOf(X, "economics.CCap")]
    \* operating and maintenance costs
    [] l = "Wellfield maintenance costs"          -> QV(X, "economics.Coamwell")
    [] l = "Power plant maintenance costs"        -> QV(X, "economics.Coamplant")
    [] l = "Water costs"                          -> QV(X, "economics.Coamwater")
    [] l = "Average Reservoir Pumping Cost"       -> QV(X, "economics.averageannualpumpingcosts")
    [] l = "Absorption Chiller O&M Cost"          -> QV(X, "economics.chilleropex")
    [] l = "Average Heat Pump Electricity Cost"   -> QV(X, "economics.averageannualheatpumpelectricitycost")
    [] l = "Annual District Heating O&M Cost"     -> QV(X, "economics.dhdistrictoandmcost")
    [] l = "Average Annual Peaking Fuel Cost"     -> QV(X, "economics.averageannualngcost")
    [] l = "Total operating and maintenance costs" ->
         IF Flag(X, "economics.oamtotalfixed", "valid") THEN QV(X, "economics.Coam")
         ELSE [x |-> RAdd3(Agg(X, "economics.Coam", "v"), Agg(X, "economics.averageannualpumpingcosts", "v"),
                            Agg(X, "economics.averageannualheatpumpelectricitycost", "v")), u |-> UnitOf(X, "economics.Coam")]
    \* surface equipment simulation results
    [] l = "Initial geofluid availability"        -> QA(X, "surfaceplant.Availability", "first")
    [] l = "Average Annual Total Electricity Generation" -> GWhOf(X, "surfaceplant.TotalkWhProduced")
    [] l = "Average Annual Net Electricity Generation"   -> GWhOf(X, "surfaceplant.NetkWhProduced")
    [] l = "Initial pumping power/net installed power"   ->
         Lit(RMul(RDiv(Agg(X, "wellbores.PumpingPower", "first"), Agg(X, "surfaceplant.NetElectricityProduced", "first")), 100), "%")
    [] l = "Average Annual Heat Production"       -> GWhOf(X, "surfaceplant.HeatkWhProduced")
    [] l = "Average Annual Heat Pump Electricity Use" -> Lit(GWhOf(X, "surfaceplant.heat_pump_electricity_kwh_used").x, "GWh/year")
    [] l = "Average Annual Cooling Production"    -> Lit(GWhOf(X, "surfaceplant.cooling_kWh_Produced").x, "GWh/year")
    [] l = "Average Pumping Power"                -> QA(X, "wellbores.PumpingPower", "mean")
    [] l = "Heat to Power Conversion Efficiency"  -> QV(X, "surfaceplant.heat_to_power_conversion_efficiency")
    \* extended economics (add-ons).  The two "Adjusted Project LCOE/LCOH (after ... AddOns)" lines state the project's
    \* levelised costs as computed by the main economics module (the add-on module's own recomputation is not what is shown)
    [] l = "Adjusted Project LCOE (after incentives, grants, AddOns,etc)" -> QV(X, "economics.LCOE")
    [] l = "Adjusted Project LCOH (after incentives, grants, AddOns,etc)" -> QV(X, "economics.LCOH")
    [] l = "Adjusted Project CAPEX (after incentives, grants, AddOns, etc)" -> QV(X, "addeconomics.AdjustedProjectCAPEX")
    [] l = "Adjusted Project OPEX (after incentives, grants, AddOns, etc)"  -> QV(X, "addeconomics.AdjustedProjectOPEX")
    [] l = "Project NPV (including AddOns)"       -> QV(X, "addeconomics.ProjectNPV")
    [] l = "Project IRR (including AddOns)"       -> QV(X, "addeconomics.ProjectIRR")
    [] l = "Project VIR=PI=PIR (including AddOns)" -> QV(X, "addeconomics.ProjectVIR")
    [] l = "Project MOIC (including AddOns)"      -> QV(X, "addeconomics.ProjectMOIC")
    [] l = "Total Add-on CAPEX"                   -> QV(X, "addeconomics.AddOnCAPEXTotal")
    [] l = "Total Add-on OPEX"                    -> QV(X, "addeconomics.AddOnOPEXTotalPerYear")
    [] l = "Total Add-on Net Elec"                -> QV(X, "addeconomics.AddOnElecGainedTotalPerYear")
    [] l = "Total Add-on Net Heat"                -> QV(X, "addeconomics.AddOnHeatGainedTotalPerYear")
    [] l = "Total Add-on Profit"                  -> QV(X, "addeconomics.AddOnProfitGainedTotalPerYear")
    [] l = "AddOns Payback Period"                -> QV(X, "addeconomics.AddOnPaybackPeriod")
    \* S-DAC-GT
    [] l = "LCOD using grid-based electricity only" -> QV(X, "sdacgteconomics.LCOD_elec")
    [] l = "LCOD using natural gas only"            -> QV(X, "sdacgteconomics.LCOD_ng")
    [] l = "LCOD using geothermal energy only"      -> QV(X, "sdacgteconomics.LCOD_geo")
    [] l = "CO2 Intensity using grid-based electricity only" -> Pct(X, "sdacgteconomics.CO2total_elec")
    [] l = "CO2 Intensity using natural gas only"            -> Pct(X, "sdacgteconomics.CO2total_ng")
    [] l = "CO2 Intensity using geothermal energy only"      -> Pct(X, "sdacgteconomics.CO2total_geo")
    [] l = "Geothermal LCOH"                        -> QV(X, "sdacgteconomics.LCOH")
    [] l = "Geothermal Ratio (electricity vs heat)" -> Pct(X, "sdacgteconomics.percent_thermal_energy_going_to_heat")
    [] l = "Percent Energy Devoted To Process"      -> Pct(X, "sdacgteconomics.EnergySplit")
    [] l = "Total Tonnes of CO2 Captured"           -> QV(X, "sdacgteconomics.CarbonExtractedTotal")
    [] l = "Total Cost of Capture"                  -> QA(X, "sdacgteconomics.S_DAC_GTCummCashFlow", "last")
    \* reservoir thermal energy storage (SUTRAOutputs.py)
    [] l = "Direct-Use heat breakeven price"        -> QV(X, "economics.LCOH")
    [] l = "Lifetime Average Well Flow Rate"        -> QA(X, "wellbores.ProductionWellFlowRates", "absmean")
    [] l = "Average Round-Trip Efficiency"          -> QA(X, "reserv.AnnualRTESEfficiency", "mean")
    [] l = "Average RTES Heating Production"        -> QA(X, "surfaceplant.HeatProduced", "mean")
    [] l = "Average Auxiliary Heating Production"   -> QA(X, "surfaceplant.AuxiliaryHeatProduced", "mean")
    [] l = "Average Annual RTES Heating Production" -> QA(X, "surfaceplant.AnnualHeatProduced", "mean")
    [] l = "Average Annual Auxiliary Heating Production" -> QA(X, "surfaceplant.AnnualAuxiliaryHeatProduced", "mean")
    [] l = "Average Annual Total Heating Production"     -> QA(X, "surfaceplant.AnnualTotalHeatProduced", "mean")
    [] l = "Average Annual Electricity Use for Pumping"  -> QA(X, "surfaceplant.PumpingkWh", "mean")
    [] l = "Drilling and Completion Costs"          -> QV(X, "economics.Cwell")
    [] l = "Drilling and Completion Costs per Well" -> [x |-> RDiv(Agg(X, "economics.Cwell", "v"), Wells(X)), u |-> UnitOf(X, "economics.Cwell")]
    [] l = "Auxiliary Heater Cost"                  -> QV(X, "economics.peakingboilercost")
    [] l = "Total Capital Costs"                    -> QV(X, "economics.CCap")
    [] l = "Average annual auxiliary fuel cost"     -> QA(X, "economics.annualngcost", "mean")
    [] l = "Average annual pumping cost"            -> QA(X, "economics.annualpumpingcosts", "mean")
    [] l = "Total average annual O&M costs"         -> QA(X, "economics.Coam", "mean")
    [] OTHER -> NoField

\* f is one lexed line: section, whitespace-normalised label, and the label split at its first blank (stat, what)
Field(X, f) ==
  LET p == PlainField(X, f.sec, f.label) IN
  IF IsField(p) THEN p ELSE StatField(X, f.stat, f.what)

\* labelled lines whose value is a text
TextField(X, l) ==
  CASE l = "End-Use Option"      -> Txt(X, "surfaceplant.enduse_option")
    [] l = "Surface Application" -> Txt(X, "surfaceplant.plant_type")
    [] l = "Power plant type"    -> Txt(X, "surfaceplant.plant_type")
    [] l = "Economic Model ="    -> Txt(X, "economics.econmodel")
    [] l = "Fracture model ="    -> Txt(X, "reserv.fracshape")
    [] l = "Reservoir Model ="   -> Txt(X, "reserv.resoption") \o " Model"
    [] OTHER -> "nofield"

(***************************************************************************)
(* Tables.                                                                 *)
(***************************************************************************)
ProdTitle   == "HEATING, COOLING AND/OR ELECTRICITY PRODUCTION PROFILE"
AnnualTitle == "ANNUAL HEATING, COOLING AND/OR ELECTRICITY PRODUCTION PROFILE"
RevTitle    == "REVENUE & CASHFLOW PROFILE"
OverTitle   == "RESERVOIR POWER REQUIRED PROFILES"
ExtTitle    == "EXTENDED ECONOMIC PROFILE"
SdacTitle   == "S-DAC-GT PROFILE"

\* the table a header announces (first header line, whitespace-normalised)
Kind(title, h1) ==
  CASE title = ProdTitle /\ h1 = "YEAR THERMAL GEOFLUID PUMP NET FIRST LAW"     -> "P_ELEC"
    [] title = ProdTitle /\ h1 = "YEAR THERMAL GEOFLUID PUMP NET"               -> "P_HEAT"
    [] title = ProdTitle /\ h1 = "YEAR THERMAL GEOFLUID PUMP NET HEAT PUMP"     -> "P_HP"
    [] title = ProdTitle /\ h1 = "YEAR THERMAL GEOFLUID PUMP GEOTHERMAL"        -> "P_DH"
    [] title = ProdTitle /\ h1 = "YEAR THERMAL GEOFLUID PUMP NET NET"           -> "P_AC"
    [] title = ProdTitle /\ h1 = "YEAR THERMAL GEOFLUID PUMP NET NET FIRST LAW" -> "P_COGEN"
    [] title = AnnualTitle /\ h1 = "YEAR ELECTRICITY HEAT RESERVOIR PERCENTAGE OF"             -> "A_ELEC"
    [] title = AnnualTitle /\ h1 = "YEAR COOLING HEAT RESERVOIR PERCENTAGE OF"                 -> "A_AC"
    [] title = AnnualTitle /\ h1 = "YEAR HEATING RESERVOIR HEAT HEAT PUMP RESERVOIR PERCENTAGE OF" -> "A_HP"
    [] title = AnnualTitle /\ h1 = "YEAR HEAT ELECTRICITY HEAT RESERVOIR PERCENTAGE OF"        -> "A_COGEN"
    [] title = AnnualTitle /\ h1 = "YEAR GEOTHERMAL PEAKING BOILER RESERVOIR HEAT RESERVOIR PERCENTAGE OF" -> "A_DH"
    [] title = AnnualTitle /\ h1 = "YEAR HEAT HEAT RESERVOIR PERCENTAGE OF"                    -> "A_HEAT"
    [] title = RevTitle  -> "REV"
    [] title = OverTitle -> "OVER"
    [] title = ExtTitle  -> "EXT"
    [] title = SdacTitle -> "SDAC"
    [] OTHER -> "unknown"

Cogen == {"COGENERATION_TOPPING_EXTRA_HEAT", "COGENERATION_TOPPING_EXTRA_ELECTRICITY", "COGENERATION_BOTTOMING_EXTRA_HEAT",
          "COGENERATION_BOTTOMING_EXTRA_ELECTRICITY", "COGENERATION_PARALLEL_EXTRA_HEAT", "COGENERATION_PARALLEL_EXTRA_ELECTRICITY"}

\* the table the writer chooses for a configuration (its if / elif ladders)
ProdKindOf(c) ==
  CASE c.enduse = "ELECTRICITY" -> "P_ELEC"
    [] c.enduse = "HEAT" /\ c.plant \notin {"HEAT_PUMP", "DISTRICT_HEATING", "ABSORPTION_CHILLER"} -> "P_HEAT"
    [] c.enduse = "HEAT" /\ c.plant = "HEAT_PUMP"          -> "P_HP"
    [] c.enduse = "HEAT" /\ c.plant = "DISTRICT_HEATING"   -> "P_DH"
    [] c.enduse = "HEAT" /\ c.plant = "ABSORPTION_CHILLER" -> "P_AC"
    [] c.enduse \in Cogen -> "P_COGEN"
    [] OTHER -> "none"
AnnualKindOf(c) ==
  CASE c.enduse = "ELECTRICITY"       -> "A_ELEC"
    [] c.enduse # "ELECTRICITY" /\ c.plant = "ABSORPTION_CHILLER" -> "A_AC"
    [] c.enduse # "ELECTRICITY" /\ c.plant = "HEAT_PUMP"          -> "A_HP"
    [] c.enduse \in Cogen /\ c.plant \notin {"ABSORPTION_CHILLER", "HEAT_PUMP"} -> "A_COGEN"
    [] c.enduse = "HEAT" /\ c.plant = "DISTRICT_HEATING"   -> "A_DH"
    [] c.enduse = "HEAT" /\ c.plant \notin {"ABSORPTION_CHILLER", "HEAT_PUMP", "DISTRICT_HEATING"} -> "A_HEAT"
    [] OTHER -> "none"

IsProd(k)   == k \in {"P_ELEC", "P_HEAT", "P_HP", "P_DH", "P_AC", "P_COGEN"}
IsAnnual(k) == k \in {"A_ELEC", "A_AC", "A_HP", "A_COGEN", "A_DH", "A_HEAT"}

\* one row per simulated year; the revenue table adds the construction years, the add-on table all but one of them
Rows(k, c) == CASE k = "REV" -> c.Cy + c.L [] k = "EXT" -> c.Cy + c.L - 1 [] OTHER -> c.L
\* the number printed in the YEAR column of the first row (as coded: the electricity production table and all annual
\* tables count from 1, the other production tables and the revenue table from 0)
YearStart(k) == IF k \in {"P_HEAT", "P_HP", "P_DH", "P_AC", "P_COGEN", "REV"} THEN 0 ELSE 1
Columns(k) ==
  CASE k = "P_ELEC" -> 5 [] k = "P_HEAT" -> 4 [] k = "P_HP" -> 5 [] k = "P_DH" -> 4 [] k = "P_AC" -> 5 [] k = "P_COGEN" -> 6
    [] k = "A_ELEC" -> 4 [] k = "A_AC" -> 4 [] k = "A_HP" -> 5 [] k = "A_COGEN" -> 5 [] k = "A_DH" -> 5 [] k = "A_HEAT" -> 4
    [] k = "REV" -> 15 [] k = "OVER" -> 3 [] k = "EXT" -> 9 [] k = "SDAC" -> 5 [] OTHER -> 0

Ser(X, s, i0) == IF s \in DOMAIN X.S /\ i0 + 1 <= Len(X.S[s]) THEN X.S[s][i0 + 1] ELSE "undef"
At(X, s, i0)  == [x |-> Ser(X, s, i0), u |-> UnitOf(X, s)]
\* a sub-annual series is sampled at the first time step of year i: index i * tsy
Samp(X, s, i) == At(X, s, i * X.cfg.tsy)
GWh(X, s, i)  == Lit(RDiv(Ser(X, s, i), 1000000), "GWh/year")
Mined(X, i)   == LET h0 == Agg(X, "reserv.InitialReservoirHeatContent", "v")
                     r  == Ser(X, "surfaceplant.RemainingReservoirHeatContent", i)
                 IN Lit(RDiv(RMul(RSub(h0, r), 100), h0), "%")
Remain(X, i)  == Lit(Ser(X, "surfaceplant.RemainingReservoirHeatContent", i), "10^15 J")
Drawdown(X, i) == Lit(RDiv(Ser(X, "wellbores.ProducedTemperature", i * X.cfg.tsy), Ser(X, "wellbores.ProducedTemperature", 0)), "")
Eff(X, i)     == Lit(RMul(Ser(X, "surfaceplant.FirstLawEfficiency", i * X.cfg.tsy), 100), "%")

RevSeries == << "economics.ElecPrice", "economics.ElecRevenue", "economics.ElecCummRevenue",
                "economics.HeatPrice", "economics.HeatRevenue", "economics.HeatCummRevenue",
                "economics.CoolingPrice", "economics.CoolingRevenue", "economics.CoolingCummRevenue",
                "economics.CarbonPrice", "economics.CarbonRevenue", "economics.CarbonCummCashFlow",
                "economics.Coam", "economics.TotalRevenue", "economics.TotalCummRevenue" >>
ExtSeries == << "economics.ElecPrice", "addeconomics.AddOnElecRevenue", "economics.HeatPrice", "addeconomics.AddOnHeatRevenue",
                "addeconomics.AddOnRevenue", "addeconomics.AddOnCashFlow", "addeconomics.AddOnCummCashFlow",
                "addeconomics.ProjectCashFlow", "addeconomics.ProjectCummCashFlow" >>
SdacSeries == << "sdacgteconomics.CarbonExtractedAnnually", "sdacgteconomics.S_DAC_GTCummCarbonExtracted",
                 "sdacgteconomics.S_DAC_GTAnnualCost", "sdacgteconomics.S_DAC_GTCummCashFlow", "sdacgteconomics.CummCostPerTonne" >>

\* column c (1 = first column after YEAR) of row i (0 = first row)
Cell(X, k, c, i) ==
  CASE IsProd(k) /\ c = 1 -> Drawdown(X, i)
    [] IsProd(k) /\ c = 2 -> Samp(X, "wellbores.ProducedTemperature", i)
    [] IsProd(k) /\ c = 3 -> Samp(X, "wellbores.PumpingPower", i)
    [] k = "P_ELEC"  /\ c = 4 -> Samp(X, "surfaceplant.NetElectricityProduced", i)
    [] k = "P_ELEC"  /\ c = 5 -> Eff(X, i)
    [] k \in {"P_HEAT", "P_HP", "P_DH", "P_AC"} /\ c = 4 -> Samp(X, "surfaceplant.HeatProduced", i)
    [] k = "P_HP"    /\ c = 5 -> Samp(X, "surfaceplant.heat_pump_electricity_used", i)
    [] k = "P_AC"    /\ c = 5 -> Samp(X, "surfaceplant.cooling_produced", i)
    [] k = "P_COGEN" /\ c = 4 -> Samp(X, "surfaceplant.NetElectricityProduced", i)
    [] k = "P_COGEN" /\ c = 5 -> Samp(X, "surfaceplant.HeatProduced", i)
    [] k = "P_COGEN" /\ c = 6 -> Eff(X, i)
    [] k = "A_ELEC"  /\ c = 1 -> GWh(X, "surfaceplant.NetkWhProduced", i)
    [] k = "A_ELEC"  /\ c = 2 -> GWh(X, "surfaceplant.HeatkWhExtracted", i)
    [] k = "A_AC"    /\ c = 1 -> GWh(X, "surfaceplant.cooling_kWh_Produced", i)
    [] k = "A_AC"    /\ c = 2 -> GWh(X, "surfaceplant.HeatkWhExtracted", i)
    [] k = "A_HP"    /\ c = 1 -> GWh(X, "surfaceplant.HeatkWhProduced", i)
    [] k = "A_HP"    /\ c = 2 -> GWh(X, "surfaceplant.HeatkWhExtracted", i)
    [] k = "A_HP"    /\ c = 3 -> GWh(X, "surfaceplant.heat_pump_electricity_kwh_used", i)
    [] k = "A_COGEN" /\ c = 1 -> GWh(X, "surfaceplant.HeatkWhProduced", i)
    [] k = "A_COGEN" /\ c = 2 -> GWh(X, "surfaceplant.NetkWhProduced", i)
    [] k = "A_COGEN" /\ c = 3 -> GWh(X, "surfaceplant.HeatkWhExtracted", i)
    [] k = "A_DH"    /\ c = 1 -> GWh(X, "surfaceplant.HeatkWhProduced", i)
    [] k = "A_DH"    /\ c = 2 -> Lit(RDiv(Ser(X, "surfaceplant.annual_ng_demand", i), 1000), "GWh/year")   \* MWh/year -> GWh/year
    [] k = "A_DH"    /\ c = 3 -> GWh(X, "surfaceplant.HeatkWhExtracted", i)
    [] k = "A_HEAT"  /\ c = 1 -> GWh(X, "surfaceplant.HeatkWhProduced", i)
    [] k = "A_HEAT"  /\ c = 2 -> GWh(X, "surfaceplant.HeatkWhExtracted", i)
    [] IsAnnual(k) /\ c = Columns(k) - 1 -> Remain(X, i)
    [] IsAnnual(k) /\ c = Columns(k)     -> Mined(X, i)
    \* revenue & cash flow: row i is year i since start; the OPEX column is zero during construction, then the O&M cost
    [] k = "REV" /\ c = 13 -> IF i < X.cfg.Cy THEN Lit("0", UnitOf(X, "economics.Coam")) ELSE QV(X, "economics.Coam")
    [] k = "REV" /\ c \in 1..15 -> At(X, RevSeries[c], i)
    [] k = "OVER" /\ c = 1 -> Samp(X, "wellbores.PumpingPowerProd", i)
    [] k = "OVER" /\ c = 2 -> Samp(X, "wellbores.PumpingPowerInj", i)
    [] k = "OVER" /\ c = 3 -> Samp(X, "wellbores.PumpingPower", i)
    [] k = "EXT"  /\ c \in 1..9 -> At(X, ExtSeries[c], i)
    [] k = "SDAC" /\ c \in 1..5 -> At(X, SdacSeries[c], i)
    [] OTHER -> NoField
(***************************************************************************)
(* What the simulation hands to the writer: accepted configurations and    *)
(* the series each selected module provides (Report.tla builds its         *)
(* abstract results from these; TraceReport.tla checks them on real runs). *)
(***************************************************************************)
PowerPlants == {"SUB_CRITICAL_ORC", "SUPER_CRITICAL_ORC", "SINGLE_FLASH", "DOUBLE_FLASH"}
HeatPlants  == {"INDUSTRIAL", "ABSORPTION_CHILLER", "HEAT_PUMP", "DISTRICT_HEATING"}
\* what read_parameters lets through (the plant type forces the end-use for the three special heat plants)
Accepted(c) == \/ c.enduse = "ELECTRICITY" /\ c.plant \in PowerPlants
               \/ c.enduse = "HEAT" /\ c.plant \in HeatPlants
               \/ c.enduse \in Cogen /\ c.plant \in PowerPlants

\* series each module provides, with their lengths
Sub(c) == c.L * c.tsy
SubSeries(c) ==
  {"wellbores.ProducedTemperature", "wellbores.PumpingPower"}
  \cup (IF c.plant \in PowerPlants THEN {"surfaceplant.ElectricityProduced", "surfaceplant.NetElectricityProduced", "surfaceplant.FirstLawEfficiency"} ELSE {})
  \cup (IF c.enduse # "ELECTRICITY" THEN {"surfaceplant.HeatProduced"} ELSE {})
  \cup (IF c.plant = "ABSORPTION_CHILLER" THEN {"surfaceplant.cooling_produced"} ELSE {})
  \cup (IF c.plant = "HEAT_PUMP" THEN {"surfaceplant.heat_pump_electricity_used"} ELSE {})
  \cup (IF c.overpressure THEN {"wellbores.PumpingPowerProd", "wellbores.PumpingPowerInj"} ELSE {})
AnnSeries(c) ==
  {"surfaceplant.HeatkWhExtracted", "surfaceplant.RemainingReservoirHeatContent"}
  \cup (IF c.plant \in PowerPlants THEN {"surfaceplant.NetkWhProduced", "surfaceplant.TotalkWhProduced"} ELSE {})
  \cup (IF c.enduse # "ELECTRICITY" THEN {"surfaceplant.HeatkWhProduced"} ELSE {})
  \cup (IF c.plant = "ABSORPTION_CHILLER" THEN {"surfaceplant.cooling_kWh_Produced"} ELSE {})
  \cup (IF c.plant = "HEAT_PUMP" THEN {"surfaceplant.heat_pump_electricity_kwh_used"} ELSE {})
  \cup (IF c.plant = "DISTRICT_HEATING" THEN {"surfaceplant.annual_ng_demand"} ELSE {})
  \cup (IF c.sdacgt THEN {SdacSeries[j] : j \in 1..Len(SdacSeries)} ELSE {})
TotSeries(c) ==
  ({RevSeries[j] : j \in 1..Len(RevSeries)} \ {"economics.Coam"})
  \cup (IF c.addons THEN {ExtSeries[j] : j \in 1..Len(ExtSeries)} ELSE {})
SeriesLen(c, s) == IF s \in SubSeries(c) THEN Sub(c) ELSE IF s \in AnnSeries(c) THEN c.L ELSE c.Cy + c.L
=============================================================================
