---------------------------- MODULE TraceResource ----------------------------
(***************************************************************************)
(* Trace validation for C05: reservoir and well-bore snapshots of a run.   *)
(*  n, g, th (internal units degC/m, m), ts, tmax, depth0 (as read),       *)
(*  depth (after the cap), trock, tinj, model ("MPF"|"LHS"|"SF"|"TDP"|..), *)
(*  tres, tprod (series after redrilling), dd (maximum drawdown), redrill  *)
(* Events: BottomHole, then Tick(t) for every time step, then Finish.      *)
(***************************************************************************)
EXTENDS ResourceDef, Verdict, TLC, Json, IOUtils

Traces == JsonDeserialize(IOEnv.TRACE_FILE)
Tol == "1e-9"
VARIABLES tid, ph, t, v, per       \* per: the periods explaining the redrilled series (computed once per trace)
vars == <<tid, ph, t, v, per>>
T == Traces[tid]
NT == Len(T.tprod)
At(s, k) == s[k + 1]
Analytical == T.model \in {"MPF", "LHS", "SF", "TDP"}
Strict == T.model \in {"SF", "TDP"}        \* upper bound / monotone clauses: single-fracture and percentage drawdown only

Init == tid = 1 /\ ph = "bht" /\ t = 0 /\ v = V0 /\ per = {}

\* a period p explains the series: every step repeats the first cycle and floor(N/p) is the reported redrilling count
Period == IF T.redrill > 0
          THEN {p \in 1..NT : NT \div p = T.redrill /\ \A k \in 0..(NT - 1) : At(T.tprod, k) = At(T.tprod, k % p)}
          ELSE {}

BottomHole ==
  /\ tid <= Len(Traces) /\ ph = "bht"
  /\ LET want == BHT(T.ts, T.g, T.th, T.n, T.tmax, T.depth0)
         zd   == BHTDepth(T.ts, T.g, T.th, T.n, T.tmax, T.depth0)
         sc   == RAdd(RAbs(T.ts), RAbs(want))
     IN v' = VAll(<< v,
          Clause("C05_bht", RDef(want) /\ RDef(T.trock), RClose(T.trock, want, sc, Tol),
                 [observed |-> RDec(T.trock, 12), expected |-> RDec(want, 12), segments |-> T.n]),
          Clause("C05_declared_default", "dflt" \in DOMAIN T /\ Len(T.dflt) > 0,
                 \A j \in 1..Len(T.dflt) : REq(T.dflt[j].got, T.dflt[j].want),
                 [slots |-> IF "dflt" \in DOMAIN T THEN [j \in 1..Len(T.dflt) |-> T.dflt[j]] ELSE << >>]),
          Clause("C05_depth_cap", RDef(zd) /\ RDef(T.depth), RClose(T.depth, zd, RAbs(zd), Tol),
                 [observed |-> RDec(T.depth, 12), expected |-> RDec(zd, 12)]),
          Clause("C05_tmax", RDef(T.trock), RLeq(T.trock, RAdd(T.tmax, RMul(Tol, RAbs(T.tmax)))),
                 [trock |-> RDec(T.trock, 12), tmax |-> RDec(T.tmax, 12)]),
          IF Analytical /\ Len(T.tres) > 0
          THEN Clause("C05_start", RDef(At(T.tres, 0)), RClose(At(T.tres, 0), T.trock, RAbs(T.trock), Tol),
                      [tres0 |-> RDec(At(T.tres, 0), 12), trock |-> RDec(T.trock, 12)])
          ELSE V0,
          IF Analytical /\ T.redrill > 0
          THEN Clause("C05_restart", NT > 0, Period # {}, [redrill |-> T.redrill, steps |-> NT])
          ELSE V0 >>)
  /\ per' = Period
  /\ ph' = "tick" /\ t' = 0 /\ UNCHANGED tid

TickClauses(k) ==
  LET w == [step |-> k]
      restart == \E p \in per : k % p = 0
      sc == RAbs(T.trock)
  IN VAll(<<
       IF Analytical
       THEN Clause("C05_limit", RDef(At(T.tprod, k)), RLeq(RMul(RSub(1, T.dd), At(T.tprod, 0)), RAdd(At(T.tprod, k), RMul(Tol, sc))),
                   w @@ [tprod |-> RDec(At(T.tprod, k), 12), tprod0 |-> RDec(At(T.tprod, 0), 12), dd |-> RDec(T.dd, 9)])
       ELSE V0,
       IF Strict /\ Len(T.tres) = NT
       THEN VJoin(Clause("C05_upper", RDef(At(T.tres, k)), RLeq(At(T.tres, k), RAdd(T.trock, RMul(Tol, sc))),
                         w @@ [tres |-> RDec(At(T.tres, k), 12), trock |-> RDec(T.trock, 12)]),
                  IF k > 0 /\ ~restart
                  THEN Clause("C05_monotone", RDef(At(T.tres, k)), RLeq(At(T.tres, k), RAdd(At(T.tres, k - 1), RMul(Tol, sc))),
                              w @@ [tres |-> RDec(At(T.tres, k), 12), previous |-> RDec(At(T.tres, k - 1), 12)])
                  ELSE V0)
       ELSE V0 >>)

Tick == /\ tid <= Len(Traces) /\ ph = "tick" /\ t < NT
        /\ v' = VJoin(v, TickClauses(t)) /\ t' = t + 1 /\ UNCHANGED <<tid, ph, per>>
Finish == /\ tid <= Len(Traces) /\ ph = "tick" /\ t = NT
          /\ PrintT(ToJson([tid |-> T.tid, e |-> v.e, f |-> v.f, s |-> v.s, w |-> v.w]))
          /\ tid' = tid + 1 /\ ph' = "bht" /\ t' = 0 /\ v' = V0 /\ per' = {}
Next == BottomHole \/ Tick \/ Finish
Spec == Init /\ [][Next]_vars
=============================================================================
