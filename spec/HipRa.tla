-------------------------------- MODULE HipRa --------------------------------
(***************************************************************************)
(* M1 for C17: the cascade over small rationals -- the ordering clauses    *)
(* follow from it whenever 0 <= t0*ds <= dh and the efficiencies are <= 1, *)
(* and every extensive result is exactly proportional to area / thickness. *)
(***************************************************************************)
EXTENDS HipRaDef, TLC

CONSTANTS Sizes, Fracs, Heats, Ks
VARIABLES pc, h, r
vars == <<pc, h, r>>

Init == /\ pc = "in" /\ r = [volume |-> "0"]
        /\ \E a \in Sizes, th \in Sizes, por \in {"10", "50"}, ff \in Fracs, dh \in Heats, ds \in {"0", "1/4"}, e1 \in Fracs, e2 \in Fracs :
             /\ h = [area |-> a, thick |-> th, por |-> por, fluidfactor |-> ff, rho_r |-> "3", rho_f |-> "1", cp_r |-> "2", dT |-> "100",
                     recrock |-> "3/4", dh |-> dh, ds |-> ds, t0 |-> "2", eta_rec |-> e1, eta_util |-> e2, life |-> 30]
             /\ RLeq(RMul(h.t0, h.ds), h.dh)
Calc == pc = "in" /\ r' = Cascade(h) /\ pc' = "done" /\ UNCHANGED h
Next == Calc
Spec == Init /\ [][Next]_vars

Done == pc = "done"
C17_vol_rock  == Done => REq(r.volume_rock, RMul(r.volume, RSub(1, RDiv(h.por, 100))))
C17_vol_fluid == Done => REq(r.volume_fluid, RMul3(r.volume, RDiv(h.por, 100), h.fluidfactor))
C17_stored_sum == Done => REq(r.stored, RAdd(r.stored_rock, r.stored_fluid))
C17_avail_le_stored == Done => RLeq(r.available, r.stored)
C17_prod_le_avail   == Done => RLeq(r.producible, r.available)
C17_area_homog == Done => \A k \in Ks : LET s == Cascade([h EXCEPT !.area = RMul(@, k)]) IN
                    /\ \A o \in Extensive : REq(s[o], RMul(k, r[o]))
                    /\ \A o \in IntensiveArea : REq(s[o], r[o])
C17_thick_homog == Done => \A k \in Ks : LET s == Cascade([h EXCEPT !.thick = RMul(@, k)]) IN
                    /\ \A o \in Extensive : REq(s[o], RMul(k, r[o]))
                    /\ \A o \in IntensiveThick : REq(s[o], r[o])
=============================================================================
