JAR=/opt/veriftools/tla/tla2tools.jar
CM=/opt/veriftools/tla/CommunityModules-deps.jar

setup: spec/classes/Rat.class sany

spec/classes/Rat.class: spec/Rat.java spec/Str.java
	mkdir -p spec/classes
	javac -cp $(JAR) -d spec/classes spec/Rat.java spec/Str.java

sany:
	@cd spec && for f in *.tla; do java -cp $(JAR):$(CM) tla2sany.SANY $$f > /tmp/sany.$$$$.log 2>&1; if grep -q "Semantic errors\|\*\*\* Errors\|Fatal errors\|Could not parse\|Parse Error" /tmp/sany.$$$$.log; then echo "SANY failed on $$f"; cat /tmp/sany.$$$$.log; rm -f /tmp/sany.$$$$.log; exit 1; fi; rm -f /tmp/sany.$$$$.log; done; echo "SANY ok"

clean:
	rm -rf spec/classes .cache replays
.PHONY: setup sany clean
